#!/usr/bin/env python3
"""Regenerate seeded/INDEX.md and the table of DESIGN.md section 6.1 from seeded/*/meta.json."""
import json, glob, os, re
V = os.path.dirname(os.path.dirname(os.path.abspath(__file__)))
rows = []
for d in sorted(glob.glob(V + "/seeded/C*/")):
    m = json.load(open(d + "meta.json"))
    name = os.path.basename(d.rstrip("/"))
    rows.append((name, ", ".join(m.get("expect_detected_by") or [m["breaks"]]), m["needs"].replace("|", "\\|").replace("\n", " "), m.get("round", 0)))
hdr = "| change | {} | what it needs to manifest |\n|---|---|---|\n"
idx = open(V + "/seeded/INDEX.md").read()
head = idx[: idx.index("| change |")]
open(V + "/seeded/INDEX.md", "w").write(head + hdr.format("breaks / caught by") + "".join(f"| seeded/{n} | {c} | {w} |\n" for n, c, w, _ in rows))
D = open(V + "/DESIGN.md").read()
a = D.index("| change | caught by |", D.index("### 6.1"))
b = D.index("\n## 7.", a)
# keep whatever prose follows the table
tail_start = a
lines = D[a:b].split("\n")
k = 0
while k < len(lines) and lines[k].startswith("|"):
    k += 1
rest = "\n".join(lines[k:])
D = D[:a] + hdr.format("caught by") + "".join(f"| {n} | {c} | {w} |\n" for n, c, w, _ in rows) + rest + D[b:]
nrounds = max(r[3] for r in rows)
D = re.sub(r"\d+ changes in \d+ rounds of 20", f"{len(rows)} changes in {nrounds} rounds of 20", D)
open(V + "/DESIGN.md", "w").write(D)
print(len(rows), "seeds;", nrounds, "rounds")
