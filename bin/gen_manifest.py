#!/usr/bin/env python3
"""Regenerates /verif/MANIFEST.json from the table below (one place to edit)."""
import json, os
V = os.path.dirname(os.path.dirname(os.path.abspath(__file__)))
props = [json.loads(l) for l in open(os.path.join(V, "properties.jsonl"))]

# id -> (engine, category, technique, text, note, design_ref)
CHECKS = {
 "C04": ("E-SEQ", "exploration",
   "bounded-exhaustive enumeration of MerkleTree operation sequences (every n<=255, every position, reuse histories) against an independent reference fold",
   "Every leaf count 1..=255 x every position x both profiles x 4 leaf families is executed on the real MerkleTree; each issued path is recomputed by the tree itself and by an independent reference fold with the protocol's node width; binding is checked against every other leaf/index and every single-element path change; every ordered pair (thorough: all 255^2) and triples of batch sizes are replayed on one reused object and compared with fresh trees.",
   "Trusted: sha2 SHA-512, the reference fold in rtref::merkle. Leaf bytes are a structured alphabet, not all byte strings.",
   "DESIGN.md §3 C04"),
 "C05": ("E-SEQ", "exploration",
   "bounded-exhaustive small-scope enumeration of byte strings and API call sequences, differential against an independent reference codec",
   "All word sequences up to length 5 (thorough 6) over a 23-word alphabet chosen to hit every guard, all short byte strings, every single (thorough: double) header-word deviation of 11 valid corpus messages up to 64 KiB, every truncation; all 2^18 tag subsets x value-length patterns through the API. Oracle: accept iff the reference codec accepts, identical content, identical re-encoding, exact framing.",
   "Trusted: rtref::codec (written from the format description). Values are aligned fillers, not arbitrary bytes; value bytes do not influence the codec's control flow.",
   "DESIGN.md §3 C05"),
 "C06": ("E-SEQ", "exploration",
   "bounded-exhaustive enumeration of byte strings (small scope, header deviations, every length 0..=65536, nesting depth chains) executed on the real decoder and Display under catch_unwind / in child processes",
   "Same input spaces as C05 plus every length 0..=65536 x 4 fills and nesting chains up to depth 8191 (the maximum that fits 64 KiB); each case runs from_bytes and Display; a panic, abort or stack overflow, or values that are not exactly the bytes after the header, is a violation.",
   "Stack bound is checked on an 8 MiB stack with the harness build profile (optimised, debug assertions on). Depth cases that exceed the wall cap are reported as caps, not verdicts.",
   "DESIGN.md §3 C06"),
}

PENDING_REASON = "check not built yet in this session (planned, see DESIGN.md §3); no claim is made until it is"
NA = {}

checks = []
for p in props:
    pid = p["id"]
    if pid in CHECKS:
        eng, cat, tech, text, note, ref = CHECKS[pid]
        checks.append({
            "property_id": pid,
            "quick_cmd": f"bin/check {pid} quick",
            "thorough_cmd": f"bin/check {pid} thorough",
            "evidence_file": f"/verif/evidence/{pid}.json",
            "replay_cmd_template": "bin/check replay {path}",
            "engine": eng,
            "level_claimed": {"category": cat, "text": text, "design_ref": ref},
            "level_note": note,
            "technique": tech,
        })
not_app = [{"property_id": p["id"], "reason": NA.get(p["id"], PENDING_REASON)} for p in props if p["id"] not in CHECKS]

hooks_commits = []
hf = os.path.join(V, "hooks_commits.txt")
if os.path.exists(hf):
    hooks_commits = [l.split()[0] for l in open(hf) if l.strip()]

m = {
 "version": 1,
 "setup_cmd": "bin/check build",
 "hooks": {
   "guard": "--cfg roughenough_verif",
   "enable": "RUSTFLAGS='--cfg roughenough_verif' cargo build --offline (done by bin/check for /repo bins and for the harness, which links /repo as a path dependency)",
   "baseline_off_cmd": "cd /repo && cargo test --workspace --no-fail-fast --offline",
   "source_commits": hooks_commits,
   "add_only": True,
 },
 "engines": [
   {"name": "E-SEQ", "path": "harness/rtmc/src/checks", "serves_properties": ["C04","C05","C06","C10","C11","C13","C14"], "kind_free_text": "bounded-exhaustive enumeration of inputs / operation sequences of the real library API against reference models (rtref)"},
   {"name": "E-STATE", "path": "harness/rtmc/src/inproc.rs", "serves_properties": ["C02","C07","C08","C09","C12","C15","C17","C18","C19","C20"], "kind_free_text": "explicit event-history exploration: every transition calls the real Server::process_events on real loopback sockets"},
   {"name": "E-PROC", "path": "harness/rtmc/src/proc.rs", "serves_properties": ["C01","C03","C15","C16"], "kind_free_text": "real client/server binaries against a harness-owned adversarial/honest peer or a configuration grid, deviation-bounded"},
   {"name": "E-SCHED", "path": "harness/rtmc/src/sched.rs", "serves_properties": ["C15","C18","C19"], "kind_free_text": "CHESS-style controlled scheduler over the real server process through cfg-guarded hook points, iterative preemption bounding"},
 ],
 "checks": checks,
 "not_applicable": not_app,
 "notes": "All checks: exit 0 held / 1 violation (VIOLATION line) / 2 machinery error. Known findings: /verif/known_findings.json. Design: /verif/DESIGN.md.",
}
json.dump(m, open(os.path.join(V, "MANIFEST.json"), "w"), indent=1)
print("checks:", [c["property_id"] for c in checks], "not_applicable:", len(not_app))
