#!/usr/bin/env python3
"""Regenerates /verif/MANIFEST.json from the table below (one place to edit)."""
import json, os
V = os.path.dirname(os.path.dirname(os.path.abspath(__file__)))
props = [json.loads(l) for l in open(os.path.join(V, "properties.jsonl"))]

# id -> (engine, category, technique, text, note, design_ref)
CHECKS = {
 "C04": ("E-SEQ", "exploration",
   "bounded-exhaustive enumeration of MerkleTree operation sequences (every n<=255, every position, reuse histories) against an independent reference fold",
   "Every leaf count 1..=255 x every position x both profiles x 4 leaf families is executed on the real MerkleTree; each issued path is recomputed by the tree itself and by an independent reference fold with the protocol's node width; binding is checked against every other leaf/index and every single-element path change; every ordered pair (thorough: all 255^2) and triples of batch sizes are replayed on one reused object and compared with fresh trees.",
   "Trusted: sha2 SHA-512, the reference fold in rtref::merkle. Leaf bytes are a structured alphabet, not all byte strings.",
   "DESIGN.md §3 C04"),
 "C05": ("E-SEQ", "exploration",
   "bounded-exhaustive small-scope enumeration of byte strings and API call sequences, differential against an independent reference codec",
   "All word sequences up to length 5 (thorough 6) over a 26-word alphabet chosen to hit every guard (incl. near-spellings of known tags), all short byte strings, every single (thorough: double) header-word deviation and every tag-byte mutation of 11 valid corpus messages up to 64 KiB, every truncation; all 2^18 tag subsets x value-length patterns through the API. Oracle: accept iff the reference codec accepts (a panic is neither), identical content, identical re-encoding, exact framing.",
   "Trusted: rtref::codec (written from the format description). Values are aligned fillers, not arbitrary bytes; value bytes do not influence the codec's control flow.",
   "DESIGN.md §3 C05"),
 "C06": ("E-SEQ", "exploration",
   "bounded-exhaustive enumeration of byte strings (small scope, header deviations, every length 0..=65536, nesting depth chains) executed on the real decoder and Display under catch_unwind / in child processes",
   "Same input spaces as C05 plus every length 0..=65536 x 4 fills and nesting chains up to depth 8191 (the maximum that fits 64 KiB); each case runs from_bytes and Display; a panic, abort or stack overflow, or values that are not exactly the bytes after the header, is a violation.",
   "Stack bound is checked on an 8 MiB stack with the harness build profile (optimised, debug assertions on). Depth cases that exceed the wall cap are reported as caps, not verdicts.",
   "DESIGN.md §3 C06"),
 "C02": ("E-STATE", "model_checking",
   "explicit event-history exploration of real in-process Server objects; every emitted reply judged by an independent reference verifier",
   "Histories (sequences of bursts: k requests, protocol mix, size, SRV) are executed on real Server objects via process_events; every reply must pass rtref::authentic (framing, both signatures under the version's contexts, window, Merkle path with the protocol's node width and leaf definition, echoed nonce, VER/VERS) and batch consistency (INDX set, PATH length, batch <= batch_size). Quick: 16 batch sizes x 15 burst sizes up to 128 x mixes x 3 sizes x SRV, burst pairs; thorough: every batch_size 1..=64 x every k 1..=65,128, every aligned size, burst triples. The fault-rate sub-claim is statistical (6 sigma) and labelled sampled.",
   "Trusted: rtref verifier, sha2, ed25519-dalek. Kernel loopback delivery is synchronous (self-tested). Nonce bytes are a deterministic family, not all values.",
   "DESIGN.md §3 C02"),
 "C07": ("E-STATE", "model_checking",
   "exhaustive enumeration of a structured datagram space, each datagram one history on a real in-process Server, judged by a 3-valued reference classifier",
   "Every datagram of the space (every length of the tier's length set x 5 templates, every aligned nonce length 0..=1484 x 2 sizes x 2 protocols, every frame-length deviation, field mutants, framed requests with every VER list of length <= 3 over {draft-13, classic 0, unknown}, full batches at maximum path depth) is sent to a real Server; the reply set must agree with a classifier written from the statement (must/may/must-not), every reply must be authentic and never longer than the request; a sentinel request proves the worker survived.",
   "Trusted: rtref classifier/verifier. Random-byte family uses one fixed seeded pool (prefixes), not all byte strings.",
   "DESIGN.md §3 C07"),
 "C08": ("E-STATE", "model_checking",
   "bounded-exhaustive enumeration of datagram-class sequences (depth 2, thorough 3) over a 19-class alphabet x log level x fault x batch size on real in-process Servers, with a wedge watchdog",
   "All sequences up to the depth bound over 15 single-datagram classes and 4 classes of 2/3 valid requests arriving together, each run two ways (step per class / all queued first), at every log level Off..Trace with a logger that formats every enabled record, fault_percentage {0,50}, batch_size {1,2,64}; process_events must never unwind nor fail to return (60 s watchdog), and afterwards a pair of valid requests of each protocol queued together plus one of each alone must be answered. Failing histories are minimised.",
   "Log level is process-global, so levels are explored sequentially. The alphabet has one representative per guard in the anchors, not all byte strings.",
   "DESIGN.md §3 C08"),
 "C09": ("E-STATE", "model_checking",
   "stateless enumeration of all event sequences up to depth 5 (thorough 7) over {C0,C1,I0,I1,X0,step} x batch_size {1,2,3} on real in-process Servers, mid-step arrival injection at hook points, differential prefix/fresh, parametric bursts beyond one event-loop call",
   "Every history is completed to quiescence; per socket the received datagrams must be exactly one authentic reply per accepted request sent from that socket (bound to the exact request bytes by the reference verifier), none for rejected datagrams (four rotating kinds incl. over-long with a well-formed prefix), from the server's address, in the request's protocol. A nonce pool forces identical requests from different sockets, immediate retransmissions and repeats. Requests arriving inside a step at the polled/collected/sent points; bursts of 16b..32b+1 requests; differential: each suffix after three prefixes vs on a fresh server.",
   "Trusted: rtref verifier; loopback synchronous delivery (self-tested). State hashing is used for the states count only (no merging).",
   "DESIGN.md §3 C09"),
 "C12": ("E-STATE", "model_checking",
   "exhaustive truth table (VER lists up to length 6, thorough 7, over 5 version numbers x SRV absent/correct/wrong; 256 SRV bit flips) executed on real in-process Servers against a 3-valued reference classifier",
   "Every row is one request to a real Server; must-answer / must-not-answer / may per the statement; each reply must be authentic with SREP.VER = draft-13 and VERS listing it.",
   "Trusted: rtref classifier and verifier.",
   "DESIGN.md §3 C12"),
 "C13": ("E-SEQ", "exploration",
   "bounded-exhaustive enumeration of chunkings and message sequences on the real MsgSigner/MsgVerifier, differential against one-shot ed25519-dalek",
   "Per seed: every length 0..=4096 back-to-back on one signer, splits around the 1024-byte buffer capacity, all 2^(n-1) chunkings for n<=12 (thorough 14), all message sequences of length <=4 over 5 messages, one 32-message sequence; verifier on valid triples and every single-bit corruption of message, signature and key.",
   "Trusted: ed25519-dalek arithmetic (RFC 8032 vectors in rtref::selftest). Seeds are a structured alphabet (20 quick / 582 thorough), not all 2^256.",
   "DESIGN.md §3 C13"),
 "C14": ("E-SEQ", "fault_enumeration",
   "exhaustive fault enumeration over every blob position (bit flips, byte sets, truncations, extensions) and every provider fault, on the real EnvelopeEncryption",
   "Round trip and leak scan for wrapped-key lengths (thorough: every 16..=1024) x every plaintext length 32..=64; on each fault base every single-bit flip, byte set 00/ff, every truncation, extension 1..=16, swapped length fields; provider error / wrong key / wrong-length key on either call. Oracle: pristine => Ok(seed); any fault => Err, never Ok and never a panic.",
   "Harness providers authenticate their own wrapped key (as real KMS do). AES-GCM/ring is trusted to reject forged ciphertexts.",
   "DESIGN.md §3 C14"),
 "C01": ("E-PROC", "exploration",
   "deviation-bounded exhaustive enumeration of adversarial peer answers (tamper alphabet incl. every single bit of the reply) against the real client process, judged by an independent reference verifier",
   "Each case is one execution of the real roughenough-client with a pinned key against a harness responder that builds the honest reply for the request actually received and applies one tamper operator: every bit of the datagram, field substitutions without re-signing, genuine signature values reused in the other role, chains re-signed by another key, replies properly signed by the pinned key whose window excludes MIDP or whose ROOT is not a full node or belongs to another batch, cross-protocol and cross-request splices, replays, truncations/extensions; -n 2/3 with all assignment functions; every structured operator on the second reply after an honest first one. Violation iff the client exits 0 with a time while rtref::authentic rejects; plus a nonce-freshness oracle over all requests of all runs.",
   "Trusted: rtref verifier/responder. 1 deviation per reply (0 = honest baseline, recorded per version so a vacuous half is visible). Signature values are not enumerated beyond the alphabet.",
   "DESIGN.md §3 C01"),
 "C03": ("E-PROC", "exploration",
   "exhaustive enumeration of batch shapes x midpoints x version x key option with the real client process against an honest reference responder and the real server",
   "The client's request is placed at every position of every batch shape of the tier (thorough: all 2080 shapes n<=64) and signed with boundary midpoints (epoch .. year 9999); the client must exit 0, print exactly the signed midpoint converted from the protocol unit, verified=Yes iff a key was given, and the right merkle_index.",
   "Trusted: rtref responder and calendar conversion. Random nonces are the client's own.",
   "DESIGN.md §3 C03"),
 "C10": ("E-SEQ+E-STATE", "exploration",
   "bounded-exhaustive enumeration over a structured seed alphabet and all make_cert sequences up to length 4 (thorough 5) on one key object; restart histories of real in-process Servers with every emitted CERT checked",
   "Public key == Ed25519(seed) by direct dalek (RFC 8032 anchored), SRV == SHA-512(0xff||pk)[..32], identical across constructions and restarts; every CERT (from make_cert and from every reply of both responders) is DELE{PUBK,MINT,MAXT} signed under that version's delegation context, fails under the other's, and its window contains the reply's midpoint.",
   "Seeds are a structured alphabet (40 quick / 582 thorough), not all 2^256.",
   "DESIGN.md §3 C10"),
 "C11": ("E-SEQ+E-STATE", "exploration",
   "exhaustive clock grid through make_srep(clock) plus every reply of bounded event histories bracketed by the harness clock",
   "Grid of 12 second values x 10 sub-second values (thorough: + every second of a leap day) x 2 versions: MIDP == floor(clock/unit), RADI == 5 s in unit, signature valid, ROOT echoed; live: every authentic reply of all C09 histories of depth 4 (thorough 5) has its midpoint inside a per-reply bracket of harness clock readings (request sent .. reply drained) and the true signing time within midpoint +/- radius.",
   "The clock is an owned input only at the make_srep seam; live replies use the system clock (bracketed).",
   "DESIGN.md §3 C11"),
 "C17": ("E-STATE", "model_checking",
   "explicit-state exploration of the real recorders: all operation sequences up to length 4 (thorough 5) over 25 operations with a step oracle; all hand-off/merge histories of 4 (5) events through the real queue and Reporter against a model; C09 histories for the Server wiring",
   "After every operation exactly one of {own counter +1 (bytes + arg), overflow +1} happened, tracked <= limit, every getter equals the sum over rows, aggregated == per-client totals while no overflow; reporter per-address sums equal the sums of the snapshots it popped (model queue drops the oldest when full); a Server's recorded totals equal the datagrams actually sent and received; hand-off events beyond the queue capacity must return (wedge watchdog).",
   "The recorder's canonical state is (rows, overflow); states are genuinely deduplicated for the count. One Reporter is reused per chunk of merge histories (cumulative model).",
   "DESIGN.md §3 C17"),
 "C15": ("E-PROC+E-STATE+E-SCHED", "model_checking",
   "exhaustive configuration product on the real binary (quick: all-pairs covering array), exhaustive health-check event histories on a real in-process Server, start-up schedules under a controlled scheduler",
   "Every grid point starts the real server: alive, thread names worker-0..N-1, N distinct delegated keys answer authentic replies before and (batch_size <= 2) after bursts that queue 16*batch_size+8 requests on single workers, the health port returns the fixed bytes, no panic text; example.cfg verbatim. All sequences up to length 5 (thorough 6) over {connect_tcp, send, step} in-process plus connection bursts up to 100: every accepted TCP connection served and closed. All start-up interleavings for N<=2 under the controlled scheduler; TLA+ lifecycle model replayed transition by transition.",
   "Quick tier covers all pairs of factor values, not the full product (thorough does). Worker coverage through SO_REUSEPORT relies on 48N+32 client sockets hitting all N sockets.",
   "DESIGN.md §3 C15"),
 "C16": ("E-PROC", "exploration",
   "exhaustive boundary grid of (key,value) deviations from a valid base through the real make_config/is_valid_config (probe process) and the real server binary, file and ENV, against reference configuration semantics",
   "Every grid point as one deviation from each of two valid bases (thorough: all pairs over numeric keys): refused, or accepted with every getter equal to the written value; in-range must be accepted; out-of-range, missing, unknown must be refused; file and ENV agree; the real binary refuses what the probe refuses and displays the probe's values; observed behaviour: a Server built through the real file configuration path answers 2b+1 queued requests in batches {b,b,1}.",
   "Reference semantics of the documented keys are part of the harness (README table + ServerConfig docs). status_interval outside 1..=65535 and a few undocumented corners are 'either'.",
   "DESIGN.md §3 C16"),
 "C20": ("E-STATE+E-PROC", "model_checking",
   "every execution of bounded event-history spaces (C09 histories, seed alphabet x log levels, datagram class pairs) and real-binary runs is scanned for the seed/scalar/expanded key in six encodings",
   "All log records at every level Off..Trace (capturing logger), every datagram received, stdout/stderr of hundreds of real server runs from file and ENV sources (accepted and refused configurations, every point of the configuration grid on three bases, digit-only seeds) are searched for the seed, the Ed25519 private scalar and the expanded key halves in raw, hex, HEX, base64, base64url and Debug-list form; a planted-seed self-test guards against a blind scanner.",
   "Seeds are a structured alphabet. Secrets at a shifted alignment inside a larger base64 blob are not searched for.",
   "DESIGN.md §3 C20"),
 "C18": ("E-STATE+E-SCHED", "model_checking",
   "stateless model checking of the real server process under a controlled scheduler (hook points, iterative preemption bounding) plus exhaustive in-process multi-Server delivery/step histories",
   "In-process: all sequences of depth 6 (thorough 8) over deliver(w)/step(w) for W=2 (thorough also W=3) real Servers from one seed, plus bursts larger than one event-loop call spread over the workers. Controlled: N=2 workers, K=2 requests (thorough: N,K in {2,3}, every distribution up to worker symmetry realised through the learned SO_REUSEPORT port->worker map), all interleavings of per-datagram / per-reply / per-batch steps and environment sends up to preemption bound 2 (thorough 3). Oracle: one authentic reply per request from the worker it was delivered to under the single long-term key, stable distinct delegated keys, no thread exit/panic, all workers idle at the end. Static audit of sharing constructs; sampled free-running stress.",
   "Interleavings at hook granularity; weak-memory effects not modelled; the thorough tier's 16-worker closed-loop run is sampled conformance evidence.",
   "DESIGN.md §3 C18"),
 "C19": ("E-SCHED", "model_checking",
   "stateless model checking of the real server process under a controlled scheduler with the signal as an environment actor; TLA+ lifecycle model checked by TLC (invariants + termination under fairness) with every transition replayed against the process; adversarial flood lasso; sampled wall-clock runs",
   "One worker: all interleavings; two workers: preemption-bounded (thorough up to 4 workers), client_stats off/on, K requests, SIGINT/SIGTERM at every program position and every hook point: the process must exit 0 within the horizon under the fair continuation (no deadlock, livelock, panic text), every reply received authentic. TLA+ model of main/workers/reporter/signal: TLC invariants and liveness, transition cover replayed comparing enabled actors and program counters. Flood lasso: socket refilled with valid/rejected/mixed datagrams before every step after the flag is stored; the worker must still reach the flag check.",
   "'A few seconds' is decided in steps; wall-clock runs (idle, closed-loop, --stress flood) are sampled conformance evidence. Signal delivery is treated as one atomic environment action.",
   "DESIGN.md §3 C19"),
}

# additions of later rounds, appended to the level text of the check
EXTRA = {
 "C01": " T9: a signed field made unacceptable with the acceptable value offered as an unsigned tag of the same name at the top level or in the CERT container. Also through a recording proxy in front of a real roughenough-server of the current tree: the genuine response of one run replayed to a later run, and with -n 2 (thorough 3) every assignment of the run's genuine responses to its requests. T10: a delegated PUBK that is not a curve point with degenerate SREP signatures, and runs whose pinned key is not a curve point (attacker-signed chain under the degenerate signature R = neutral element, s = 0). Properly signed replies whose ROOT is the all-zero node with a PATH that is not a whole number of nodes (4 bytes, half a node, a node plus one byte) or absent.",
 "C03": " The client is also run under six local time zones (POSIX strings and tz-database names) with and without -z at instants around DST changes: %s equals the midpoint and the calendar fields equal midpoint + zone offset. -n k with a pinned key also against a real server with 4 workers. Through a forwarding proxy the client's -n k requests are queued on a stopped (SIGSTOP/SIGCONT) one-worker real server together with a request of the other protocol and/or a junk datagram in front of, between or behind them (one shared batch): every reply accepted. Classic replies also in the original layout without the NONC echo. -n k against the reference responder with the replies sent in request order and in reverse order.",
 "C05": " Every family runs with the capturing logger at Trace and with logging off; offset-grid family: every offset word over every value (aligned or not) up to past the message length, offset pairs over a grid incl. misaligned values; count words far beyond the number of known tags; a refused add_field leaves the message unchanged.",
 "C06": " Every family runs with the capturing logger at Trace and with logging off; offset-grid family: every offset word over every value (aligned or not) up to past the message length, offset pairs over a grid incl. misaligned values.",
 "C07": " Plus all permutations of the tag sequence of 11 request shapes (only the ascending order is well-formed) and header-word sweeps of valid requests. Every non-empty subset of the offset words of a request shifted by 1..3 bytes up or down (some offsets misaligned, others not). Long runs of valid requests on one server with fault_percentage 50 / 25 (singly, batches of 3, full batches of 64): no reply longer than its request.",
 "C08": " Plus ~4.3k near-valid single datagrams (every header word of a valid classic / IETF / IETF+SRV request swept over its range, incl. requests carrying both padding tags) at every log level, and bursts of k valid requests of one protocol (k up to 129, every Merkle depth; with batch_size 1 and 2 the burst hits the per-call batch cap and the worker must keep serving). The valid requests of a sequence itself must have been answered by the time the server is quiescent, whatever was queued in front of them. Datagram classes include valid requests of 1028 and 1500 bytes.",
 "C02": " The determinism self-test's two runs (same burst on two fresh Server objects of one process) are judged like any other execution. Identical datagrams in one batch (retransmissions) are requests of their own; framed requests offering draft-13 together with other version numbers are answered as draft-13; the fault-injection clause also on the real binary configured from file and environment. Fault injection: besides the share of failing replies, their independence within a signed batch (almost-uniform batches bounded by C(N,K) q^K).",
 "C11": " Plus histories ending with a request that arrives inside a wake-up (at the polled/collected/sent hook point): its midpoint is not earlier than its send time. The real server binary under six local time zones: same bracket. The grid also varies the width of the root handed to make_srep (32 / 64 bytes for both versions).",
 "C18": " Plus, with per-client statistics, W in-process Servers sharing one statistics queue of capacity 2W: every assignment of R hand-off rounds to the workers x every position of the single reporter pass. Controlled scenarios in which requests arrive early (every socket bound, a worker's Server not built yet). Requests of the multi-worker exploration rotate through datagram sizes 1024/1500/1200/1496. Controlled schedules also with the health-check port and per-client statistics on (every worker binds the health port).",
 "C19": " A second signal during the shutdown is an environment action too (controlled scenarios and sampled wall-clock runs): still exit 0; so is a health-check connection left silent and open at the signal; a server launched with SIGHUP or SIGINT inherited as ignored; the signal delivered to a worker thread or while the process is stopped; per-client statistics with status_interval 0 and 1. Bursts of 16 x batch_size (-1, +1) requests taken in one call of process_events, then silence (environment waits until the worker is idle), then the signal.",
 "C09": " IETF pool requests also name [0, draft-13] in VER; a framed request naming only version 0 is among the rejected kinds. Rejected kinds also include framed requests whose length field disagrees with the bytes that follow (trailing bytes, length lowered by 4).",
 "C10": " Certificate sequences also certify the same online key again for the same and the other protocol; the real server started from file and ENV with seeds whose hex spelling invites another reading (all digits, exponent form, upper case) announces and certifies with the written seed's key; half of the live restarts run with fault_percentage 50 (deliberately invalid replies parsed leniently: their CERT is a certificate too). For seeds whose SRV value has a 00 / ff / white-space byte at an end (found by search): a request addressed to SHA-512(0xff||pk)[..32] is answered, one addressed to another value is not. The server built with the Cargo feature `fuzzing` runs in two modes.",
 "C12": " The table runs in five server states (batch sizes 1/2/4 with groups filling the batch exactly; after a full batch of 64); lists of length <= 2 again with extra tags that move VER/SRV/NONC to other field positions. Three more server states: a valid classic request of another client shares the batch (queued first / last; batch_size 64 and 2). Lists with unknown numbers that differ from draft-13 in a few bits, in one half, or in byte order.",
 "C13": " Verifier also over every message length 0..=4096 in 5-7 chunkings with bit flips, prefix signatures and extended messages; every sequence (depth 4, thorough 5) of update/verify operations on ONE verifier object against direct verification; every interleaving (depth 5, thorough 6) of update/sign on TWO signer objects on one thread. One message in 255..65537 update() calls (byte by byte, runs of empty chunks in front of and inside it), signer and verifier. Seed alphabet includes seeds with white-space / NUL / quote bytes at either end.",
 "C16": " Integer settings written as YAML reals with a fractional part are refused; an unknown key is refused whatever its value; keys late in long (commented) files are effective / refused like early ones. Observed behaviour: worker threads of the real server for written num_workers up to 2*CPUs+1, both sources; share of deliberately invalid replies for written fault_percentage 0/10/25/49/50.",
 "C04": " A fifth leaf family: request-sized leaves sharing a 640-byte prefix. Issued proofs: the real Responder driven with every sequence of batch sizes (length <= 3 over 1..5, pairs over {1,2,33,64}), every reply authentic for its own request; and bursts of every aligned request size through an in-process Server. Through a long-running in-process Server: bursts larger than the batch size (batch_size 1/2/4/64, up to three trees per wake-up, protocol mixes). The real client binary against the reference responder with PATH / INDX / ROOT changed (elements dropped, appended, swapped, zeroed; other index; root of another batch / a leaf / not a node; replies of other requests): never accepted.",
 "C14": " Plus every sequence (length 2..=3, thorough 4) of decrypt operations (healthy / each provider fault / another provider / tampered copy) on one blob in one process, each step judged.",
 "C15": " A thread that never reaches another hook point is decided on the real process (held, then with every thread released): blocked for good = violation start-hang. Two in-process servers on one shared statistics queue: every assignment of 6 hand-off rounds x every reporter position. Health histories include connections the peer aborts with RST before they are accepted. Every real-server observation ends with classic and IETF requests queued together on workers' sockets while the process is stopped (SIGSTOP/SIGCONT): each must be answered. Health histories with half-closed connections (peer shuts down its sending side and waits): all sequences of length <= 4 over {half-closed connect, connect, send, step}.",
 "C17": " Plus the real Responder driven with return addresses send_to fails for: recorder totals vs datagrams that actually arrived, per batch; the merge exploration runs three times so that all eight recording kinds occur; thousands of distinct client addresses in one publish window are all published; the traffic comparison also runs with fault_percentage 50. The merge exploration runs with plain IPv4 addresses and again with an address and its IPv4-mapped IPv6 form (distinct addresses). Reporter::processing_loop itself, in real time, against one worker handing off in three publish windows of one report interval into a queue of 2: the report files add up to the recorded events.",
 "C20": " Plus configuration files whose structure is not a flat mapping (list, scalar, nested, sequences, several documents, broken quoting) and files giving every other setting a value of an unexpected YAML type, output of the real server scanned. Seed alphabet includes seeds that are readable text (pass-phrase, hex digits, placeholder). Names of files and directories created below the persistence directory are scanned too.",
}
for k, v in EXTRA.items():
    e = list(CHECKS[k]); e[3] = e[3] + v; CHECKS[k] = tuple(e)

PENDING_REASON = "check not built yet in this session (planned, see DESIGN.md §3); no claim is made until it is"
NA = {}

checks = []
for p in props:
    pid = p["id"]
    if pid in CHECKS:
        eng, cat, tech, text, note, ref = CHECKS[pid]
        checks.append({
            "property_id": pid,
            "quick_cmd": f"bin/check {pid} quick",
            "thorough_cmd": f"bin/check {pid} thorough",
            "evidence_file": f"/verif/evidence/{pid}.json",
            "replay_cmd_template": "bin/check replay {path}",
            "engine": eng,
            "level_claimed": {"category": cat, "text": text, "design_ref": ref},
            "level_note": note,
            "technique": tech,
        })
not_app = [{"property_id": p["id"], "reason": NA.get(p["id"], PENDING_REASON)} for p in props if p["id"] not in CHECKS]

hooks_commits = []
hf = os.path.join(V, "hooks_commits.txt")
if os.path.exists(hf):
    hooks_commits = [l.split()[0] for l in open(hf) if l.strip()]

m = {
 "version": 1,
 "setup_cmd": "bin/check build",
 "hooks": {
   "guard": "--cfg roughenough_verif",
   "enable": "RUSTFLAGS='--cfg roughenough_verif' cargo build --offline (done by bin/check for /repo bins and for the harness, which links /repo as a path dependency)",
   "baseline_off_cmd": "cd /repo && cargo test --workspace --no-fail-fast --offline",
   "source_commits": hooks_commits,
   "add_only": True,
 },
 "engines": [
   {"name": "E-SEQ", "path": "harness/rtmc/src/checks", "serves_properties": ["C04","C05","C06","C10","C11","C13","C14"], "kind_free_text": "bounded-exhaustive enumeration of inputs / operation sequences of the real library API against reference models (rtref)"},
   {"name": "E-STATE", "path": "harness/rtmc/src/inproc.rs", "serves_properties": ["C02","C07","C08","C09","C12","C15","C17","C18","C19","C20"], "kind_free_text": "explicit event-history exploration: every transition calls the real Server::process_events on real loopback sockets"},
   {"name": "E-PROC", "path": "harness/rtmc/src/proc.rs", "serves_properties": ["C01","C03","C15","C16"], "kind_free_text": "real client/server binaries against a harness-owned adversarial/honest peer or a configuration grid, deviation-bounded"},
   {"name": "E-SCHED", "path": "harness/rtmc/src/sched.rs", "serves_properties": ["C15","C18","C19"], "kind_free_text": "CHESS-style controlled scheduler over the real server process through cfg-guarded hook points, iterative preemption bounding"},
 ],
 "checks": checks,
 "not_applicable": not_app,
 "notes": "All checks: exit 0 held / 1 violation (VIOLATION line) / 2 machinery error. A pass that records candidate violations is followed by a confirming second pass (patient harness pacing); only what recurs is reported. bin/check serialises check runs machine-wide (one at a time; VERIF_NO_GLOBAL_LOCK=1 bypasses). Known findings: /verif/known_findings.json. Design: /verif/DESIGN.md.",
}
json.dump(m, open(os.path.join(V, "MANIFEST.json"), "w"), indent=1)
print("checks:", [c["property_id"] for c in checks], "not_applicable:", len(not_app))
