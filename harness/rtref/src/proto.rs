//! Protocol constants of the two supported versions.

#[derive(Debug, Clone, Copy, PartialEq, Eq, Hash, PartialOrd, Ord)]
pub enum Version {
    Classic,
    Ietf13,
}

pub const VER_IETF13: [u8; 4] = [0x0c, 0x00, 0x00, 0x80];
pub const VER_CLASSIC: [u8; 4] = [0, 0, 0, 0];

impl Version {
    pub fn dele_ctx(&self) -> &'static [u8] {
        match self {
            Version::Classic => b"RoughTime v1 delegation signature--\x00",
            Version::Ietf13 => b"RoughTime v1 delegation signature\x00",
        }
    }
    pub fn srep_ctx(&self) -> &'static [u8] {
        b"RoughTime v1 response signature\x00"
    }
    /// Width in bytes of Merkle tree nodes (and of ROOT and of each PATH element).
    pub fn node_width(&self) -> usize {
        match self {
            Version::Classic => 64,
            Version::Ietf13 => 32,
        }
    }
    pub fn nonce_len(&self) -> usize {
        match self {
            Version::Classic => 64,
            Version::Ietf13 => 32,
        }
    }
    /// Number of MIDP/RADI units per second.
    pub fn units_per_sec(&self) -> u64 {
        match self {
            Version::Classic => 1_000_000,
            Version::Ietf13 => 1,
        }
    }
    pub fn other(&self) -> Version {
        match self {
            Version::Classic => Version::Ietf13,
            Version::Ietf13 => Version::Classic,
        }
    }
    pub fn name(&self) -> &'static str {
        match self {
            Version::Classic => "classic",
            Version::Ietf13 => "ietf13",
        }
    }
}

pub const MIN_REQ: usize = 1024;
pub const MAX_REQ: usize = 1500;
