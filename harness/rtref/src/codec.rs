//! Reference codec for the Roughtime tag-value format.
//!
//! message := num_tags:u32le  offsets:u32le*(num_tags-1)  tags:u32le*num_tags  values
//!  - offsets are multiples of 4, non-decreasing, within the value area
//!  - tags are known tags only, strictly ascending when read as little-endian u32
//!  - total length is a multiple of 4
//!
//! Deliberately as permissive as the C05 statement: a zero-tag message is accepted whatever
//! follows the count word (the statement's "non-empty" qualifier excludes it from re-encoding).

#[derive(Debug, Clone, PartialEq, Eq)]
pub enum RefErr {
    TooShort,
    Unaligned,
    BadCount,
    BadOffset,
    UnknownTag,
    TagOrder,
    Truncated,
}

/// A decoded message: ordered (tag wire bytes, value) pairs.
#[derive(Debug, Clone, PartialEq, Eq, Default)]
pub struct Msg {
    pub fields: Vec<([u8; 4], Vec<u8>)>,
}

pub const TAG_NAMES: [&str; 18] = [
    "SIG", "VER", "SRV", "NONC", "DELE", "PATH", "RADI", "PUBK", "MIDP", "SREP", "VERS", "MINT",
    "ROOT", "CERT", "MAXT", "INDX", "ZZZZ", "PAD",
];

/// Wire bytes of a tag from its name as printed in the protocol documents: names shorter than
/// four characters are padded with 0x00, except PAD which is padded with 0xff.
pub fn tag(name: &str) -> [u8; 4] {
    let mut w = [0u8; 4];
    let b = name.as_bytes();
    assert!(b.len() <= 4 && !b.is_empty());
    w[..b.len()].copy_from_slice(b);
    if name == "PAD" {
        w[3] = 0xff;
    }
    w
}

pub fn known_tags() -> Vec<[u8; 4]> {
    TAG_NAMES.iter().map(|n| tag(n)).collect()
}

pub fn is_known(t: &[u8; 4]) -> bool {
    TAG_NAMES.iter().any(|n| &tag(n) == t)
}

pub fn tag_num(t: &[u8; 4]) -> u32 {
    u32::from_le_bytes(*t)
}

pub fn tag_name(t: &[u8; 4]) -> String {
    for n in TAG_NAMES.iter() {
        if &tag(n) == t {
            return n.to_string();
        }
    }
    format!("{:02x}{:02x}{:02x}{:02x}", t[0], t[1], t[2], t[3])
}

fn rd(b: &[u8], at: usize) -> Option<u32> {
    if at + 4 <= b.len() {
        Some(u32::from_le_bytes([b[at], b[at + 1], b[at + 2], b[at + 3]]))
    } else {
        None
    }
}

/// Length of the header (count + offsets + tags) for a message with `n` tags.
pub fn header_len(n: usize) -> usize {
    if n == 0 {
        4
    } else {
        4 + 4 * (n - 1) + 4 * n
    }
}

pub const MAX_TAGS: u32 = 18;

pub fn decode(b: &[u8]) -> Result<Msg, RefErr> {
    if b.len() < 4 {
        return Err(RefErr::TooShort);
    }
    if b.len() % 4 != 0 {
        return Err(RefErr::Unaligned);
    }
    let n = rd(b, 0).unwrap();
    if n == 0 {
        return Ok(Msg::default());
    }
    // There are only 18 known tags and they must be strictly ascending, so no valid message
    // has more than 18; any count above that must be rejected (for one reason or another).
    if n > MAX_TAGS {
        return Err(RefErr::BadCount);
    }
    let n = n as usize;
    let hl = header_len(n);
    if b.len() < hl {
        return Err(RefErr::Truncated);
    }
    let area = b.len() - hl;
    let mut offs = Vec::with_capacity(n + 1);
    offs.push(0usize);
    for i in 0..n - 1 {
        let o = rd(b, 4 + 4 * i).unwrap() as usize;
        if o % 4 != 0 {
            return Err(RefErr::BadOffset);
        }
        if o > area {
            return Err(RefErr::BadOffset);
        }
        if o < *offs.last().unwrap() {
            return Err(RefErr::BadOffset);
        }
        offs.push(o);
    }
    offs.push(area);
    let tbase = 4 + 4 * (n - 1);
    let mut fields = Vec::with_capacity(n);
    let mut last: Option<u32> = None;
    for i in 0..n {
        let mut t = [0u8; 4];
        t.copy_from_slice(&b[tbase + 4 * i..tbase + 4 * i + 4]);
        if !is_known(&t) {
            return Err(RefErr::UnknownTag);
        }
        let num = tag_num(&t);
        if let Some(l) = last {
            if num <= l {
                return Err(RefErr::TagOrder);
            }
        }
        last = Some(num);
        fields.push((t, b[hl + offs[i]..hl + offs[i + 1]].to_vec()));
    }
    Ok(Msg { fields })
}

/// Lenient parse for inspecting deliberately invalid messages (fault injection shuffles the tag
/// order): count, aligned monotone in-range offsets; tags may be unknown, repeated and in any order.
pub fn decode_lenient(b: &[u8]) -> Option<Vec<([u8; 4], Vec<u8>)>> {
    if b.len() < 4 || b.len() % 4 != 0 {
        return None;
    }
    let n = rd(b, 0)? as usize;
    if n == 0 {
        return Some(vec![]);
    }
    if n > 64 {
        return None;
    }
    let hl = header_len(n);
    if b.len() < hl {
        return None;
    }
    let area = b.len() - hl;
    let mut offs = vec![0usize];
    for i in 0..n - 1 {
        let o = rd(b, 4 + 4 * i)? as usize;
        if o % 4 != 0 || o > area || o < *offs.last().unwrap() {
            return None;
        }
        offs.push(o);
    }
    offs.push(area);
    let tbase = 4 + 4 * (n - 1);
    let mut out = vec![];
    for i in 0..n {
        let mut t = [0u8; 4];
        t.copy_from_slice(&b[tbase + 4 * i..tbase + 4 * i + 4]);
        out.push((t, b[hl + offs[i]..hl + offs[i + 1]].to_vec()));
    }
    Some(out)
}

/// Encode without validation (caller is responsible for order/alignment).
pub fn encode(m: &Msg) -> Vec<u8> {
    let n = m.fields.len();
    let mut out = Vec::new();
    out.extend_from_slice(&(n as u32).to_le_bytes());
    let mut acc = 0usize;
    for (i, (_, v)) in m.fields.iter().enumerate() {
        if i > 0 {
            out.extend_from_slice(&(acc as u32).to_le_bytes());
        }
        acc += v.len();
    }
    for (t, _) in &m.fields {
        out.extend_from_slice(t);
    }
    for (_, v) in &m.fields {
        out.extend_from_slice(v);
    }
    out
}

pub const FRAME_MAGIC: &[u8; 8] = b"ROUGHTIM";

pub fn frame(payload: &[u8]) -> Vec<u8> {
    let mut out = Vec::with_capacity(payload.len() + 12);
    out.extend_from_slice(FRAME_MAGIC);
    out.extend_from_slice(&(payload.len() as u32).to_le_bytes());
    out.extend_from_slice(payload);
    out
}

/// Strict unframing: magic, and length field equal to the remaining length.
pub fn unframe(b: &[u8]) -> Option<&[u8]> {
    if b.len() < 12 || &b[0..8] != FRAME_MAGIC {
        return None;
    }
    let l = rd(b, 8).unwrap() as usize;
    if l != b.len() - 12 {
        return None;
    }
    Some(&b[12..])
}

impl Msg {
    pub fn new() -> Self {
        Msg::default()
    }
    /// Build from (name, value) pairs, sorting into ascending numeric tag order.
    pub fn from_pairs(pairs: &[(&str, Vec<u8>)]) -> Self {
        let mut f: Vec<([u8; 4], Vec<u8>)> =
            pairs.iter().map(|(n, v)| (tag(n), v.clone())).collect();
        f.sort_by_key(|(t, _)| tag_num(t));
        Msg { fields: f }
    }
    pub fn get(&self, name: &str) -> Option<&[u8]> {
        let t = tag(name);
        self.fields.iter().find(|(x, _)| *x == t).map(|(_, v)| v.as_slice())
    }
    pub fn set(&mut self, name: &str, v: Vec<u8>) {
        let t = tag(name);
        if let Some(e) = self.fields.iter_mut().find(|(x, _)| *x == t) {
            e.1 = v;
        } else {
            self.fields.push((t, v));
            self.fields.sort_by_key(|(t, _)| tag_num(t));
        }
    }
    pub fn remove(&mut self, name: &str) {
        let t = tag(name);
        self.fields.retain(|(x, _)| *x != t);
    }
    pub fn encode(&self) -> Vec<u8> {
        encode(self)
    }
}

pub fn selftest() -> Result<(), String> {
    // Ascending numeric order of the tag list as given in the protocol documents.
    let k = known_tags();
    for w in k.windows(2) {
        if tag_num(&w[0]) >= tag_num(&w[1]) {
            return Err(format!("tag table not ascending: {:?} {:?}", w[0], w[1]));
        }
    }
    // Hand-assembled vectors.
    // Empty message.
    if decode(&[0, 0, 0, 0]) != Ok(Msg::default()) {
        return Err("empty message".into());
    }
    // One tag NONC with 4 byte value.
    let one = [1u8, 0, 0, 0, b'N', b'O', b'N', b'C', 1, 2, 3, 4];
    let m = decode(&one).map_err(|e| format!("one-tag: {:?}", e))?;
    if m.fields != vec![(*b"NONC", vec![1, 2, 3, 4])] {
        return Err("one-tag content".into());
    }
    if encode(&m) != one {
        return Err("one-tag re-encode".into());
    }
    // Two tags: NONC(4 bytes), PAD(8 bytes)
    let two = [
        2u8, 0, 0, 0, 4, 0, 0, 0, b'N', b'O', b'N', b'C', b'P', b'A', b'D', 0xff, 9, 9, 9, 9, 7,
        7, 7, 7, 7, 7, 7, 7,
    ];
    let m = decode(&two).map_err(|e| format!("two-tag: {:?}", e))?;
    if m.fields != vec![(*b"NONC", vec![9; 4]), (*b"PAD\xff", vec![7; 8])] {
        return Err("two-tag content".into());
    }
    if encode(&m) != two {
        return Err("two-tag re-encode".into());
    }
    // wrong order
    let mut bad = two;
    bad[8..12].copy_from_slice(b"PAD\xff");
    bad[12..16].copy_from_slice(b"NONC");
    if decode(&bad) != Err(RefErr::TagOrder) {
        return Err("order".into());
    }
    // offset unaligned / past end
    let mut bad = two;
    bad[4] = 5;
    if decode(&bad) != Err(RefErr::BadOffset) {
        return Err("unaligned offset".into());
    }
    let mut bad = two;
    bad[4] = 16;
    if decode(&bad) != Err(RefErr::BadOffset) {
        return Err("offset past end".into());
    }
    // framing
    let f = frame(&one);
    if f.len() != 24 || &f[0..8] != b"ROUGHTIM" || f[8..12] != [12, 0, 0, 0] {
        return Err("frame".into());
    }
    if unframe(&f) != Some(&one[..]) {
        return Err("unframe".into());
    }
    Ok(())
}
