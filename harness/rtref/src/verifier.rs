//! Reference verifier: decides whether a reply datagram is an authentic Roughtime response
//! for a given request, from the conditions listed in properties C01/C02.

use crate::codec::{decode, Msg};
use crate::crypto;
use crate::merkle;
use crate::proto::{Version, VER_IETF13};

#[derive(Debug, Clone, Copy, PartialEq, Eq)]
pub struct Mode {
    /// IETF: require magic and frame length == remaining length (C02). When false (C01) the
    /// magic must still be present and the payload is everything after the 12-byte frame header.
    pub strict_frame: bool,
    /// require NONC echoed == request nonce, SREP.VER == draft-13, VERS lists it (C02 only)
    pub server_extras: bool,
}

pub const CLIENT_VIEW: Mode = Mode { strict_frame: false, server_extras: false };
pub const SERVER_VIEW: Mode = Mode { strict_frame: true, server_extras: true };

#[derive(Debug, Clone, PartialEq, Eq)]
pub struct Info {
    pub midp: u64,
    pub radi: u32,
    pub indx: u32,
    pub root: Vec<u8>,
    pub path_len: usize,
    pub online_pk: Vec<u8>,
    pub mint: u64,
    pub maxt: u64,
    pub srep_bytes: Vec<u8>,
    pub cert_bytes: Vec<u8>,
}

/// Name of the first failing clause.
pub type Clause = &'static str;

fn u64le(b: &[u8]) -> u64 {
    u64::from_le_bytes(b.try_into().unwrap())
}
fn u32le(b: &[u8]) -> u32 {
    u32::from_le_bytes(b.try_into().unwrap())
}

/// Extract (leaf_input, nonce) from a request datagram as the protocol defines them.
pub fn request_leaf_and_nonce(v: Version, request: &[u8]) -> Option<(Vec<u8>, Vec<u8>)> {
    match v {
        Version::Classic => {
            let m = decode(request).ok()?;
            let n = m.get("NONC")?.to_vec();
            Some((n.clone(), n))
        }
        Version::Ietf13 => {
            let p = crate::codec::unframe(request)?;
            let m = decode(p).ok()?;
            let n = m.get("NONC")?.to_vec();
            Some((request.to_vec(), n))
        }
    }
}

pub fn authentic(
    reply: &[u8],
    request: &[u8],
    v: Version,
    pinned_pk: Option<&[u8]>,
    mode: Mode,
) -> Result<Info, Clause> {
    // 1. frame
    let payload: &[u8] = match v {
        Version::Classic => reply,
        Version::Ietf13 => {
            if mode.strict_frame {
                crate::codec::unframe(reply).ok_or("frame")?
            } else {
                if reply.len() < 12 || &reply[..8] != crate::codec::FRAME_MAGIC {
                    return Err("frame");
                }
                &reply[12..]
            }
        }
    };
    // 2. decode
    let m: Msg = decode(payload).map_err(|_| "decode")?;
    let sig = m.get("SIG").ok_or("decode")?;
    let path = m.get("PATH").ok_or("decode")?;
    let srep_b = m.get("SREP").ok_or("decode")?;
    let cert_b = m.get("CERT").ok_or("decode")?;
    let indx = m.get("INDX").ok_or("decode")?;
    let w = v.node_width();
    // INDX, PATH and SIG lie outside the signed part. The C01 statement asks for a Merkle proof that
    // binds the request, not for a canonical INDX encoding: in the client view an INDX longer than
    // 4 bytes (e.g. a datagram extended with trailing bytes, which land in the last field) is read
    // as its first 4 bytes. The server view (C02: "well-formed response") stays strict.
    let indx_ok = if mode.server_extras { indx.len() == 4 } else { indx.len() >= 4 };
    if sig.len() != 64 || !indx_ok || path.len() % w != 0 {
        return Err("decode");
    }
    let indx = &indx[..4];
    // 3. srep
    let srep = decode(srep_b).map_err(|_| "decode-srep")?;
    let midp = srep.get("MIDP").ok_or("decode-srep")?;
    let radi = srep.get("RADI").ok_or("decode-srep")?;
    let root = srep.get("ROOT").ok_or("decode-srep")?;
    if midp.len() != 8 || radi.len() != 4 || root.len() != w {
        return Err("decode-srep");
    }
    // 4. cert
    let cert = decode(cert_b).map_err(|_| "decode-cert")?;
    let cert_sig = cert.get("SIG").ok_or("decode-cert")?;
    let dele_b = cert.get("DELE").ok_or("decode-cert")?;
    if cert_sig.len() != 64 {
        return Err("decode-cert");
    }
    let dele = decode(dele_b).map_err(|_| "decode-cert")?;
    let pubk = dele.get("PUBK").ok_or("decode-cert")?;
    let mint = dele.get("MINT").ok_or("decode-cert")?;
    let maxt = dele.get("MAXT").ok_or("decode-cert")?;
    if pubk.len() != 32 || mint.len() != 8 || maxt.len() != 8 {
        return Err("decode-cert");
    }
    // 5. dele-sig
    if let Some(pk) = pinned_pk {
        let mut msg = v.dele_ctx().to_vec();
        msg.extend_from_slice(dele_b);
        if !crypto::verify(pk, &msg, cert_sig) {
            return Err("dele-sig");
        }
    }
    // 6. srep-sig
    {
        let mut msg = v.srep_ctx().to_vec();
        msg.extend_from_slice(srep_b);
        if !crypto::verify(pubk, &msg, sig) {
            return Err("srep-sig");
        }
    }
    // 7. window
    let (midp, mint, maxt) = (u64le(midp), u64le(mint), u64le(maxt));
    if !(mint <= midp && midp <= maxt) {
        return Err("window");
    }
    // 8. merkle
    let (leaf_input, nonce) = request_leaf_and_nonce(v, request).ok_or("bad-request")?;
    let idx = u32le(indx);
    let r = merkle::root_from_path(v, &leaf_input, idx, path).ok_or("merkle")?;
    if r != root {
        return Err("merkle");
    }
    // 9. server extras
    if mode.server_extras {
        if m.get("NONC") != Some(&nonce[..]) {
            return Err("echo");
        }
        if v == Version::Ietf13 {
            if srep.get("VER") != Some(&VER_IETF13[..]) {
                return Err("ver");
            }
            // "the list of versions the server supports": draft-13 is in it, every entry is a version
            // this server speaks (classic 0, draft-13), and it is a list of versions — no entry twice
            let vers = srep.get("VERS").ok_or("ver")?;
            if vers.len() % 4 != 0 || !vers.chunks(4).any(|c| c == VER_IETF13) {
                return Err("ver");
            }
            let entries: Vec<&[u8]> = vers.chunks(4).collect();
            if entries.iter().any(|e| *e != VER_IETF13 && *e != crate::proto::VER_CLASSIC) {
                return Err("ver");
            }
            if (0..entries.len()).any(|a| (0..a).any(|b| entries[a] == entries[b])) {
                return Err("ver");
            }
        }
    }
    Ok(Info {
        midp,
        radi: u32le(radi),
        indx: idx,
        root: root.to_vec(),
        path_len: path.len(),
        online_pk: pubk.to_vec(),
        mint,
        maxt,
        srep_bytes: srep_b.to_vec(),
        cert_bytes: cert_b.to_vec(),
    })
}
