//! SHA-512 (sha2 crate) and Ed25519 (ed25519-dalek, one-shot), anchored by published vectors.

use ed25519_dalek::{Signature, Signer, SigningKey, Verifier, VerifyingKey};
use sha2::{Digest, Sha512};

pub fn sha512(parts: &[&[u8]]) -> [u8; 64] {
    let mut h = Sha512::new();
    for p in parts {
        h.update(p);
    }
    let r = h.finalize();
    let mut out = [0u8; 64];
    out.copy_from_slice(&r);
    out
}

pub fn public_key(seed: &[u8; 32]) -> [u8; 32] {
    SigningKey::from_bytes(seed).verifying_key().to_bytes()
}

pub fn sign(seed: &[u8; 32], msg: &[u8]) -> [u8; 64] {
    SigningKey::from_bytes(seed).sign(msg).to_bytes()
}

/// Direct Ed25519 verification. Malformed keys/signatures are "not accepted".
pub fn verify(pk: &[u8], msg: &[u8], sig: &[u8]) -> bool {
    let pk: [u8; 32] = match pk.try_into() {
        Ok(p) => p,
        Err(_) => return false,
    };
    let sig: [u8; 64] = match sig.try_into() {
        Ok(s) => s,
        Err(_) => return false,
    };
    let vk = match VerifyingKey::from_bytes(&pk) {
        Ok(v) => v,
        Err(_) => return false,
    };
    vk.verify(msg, &Signature::from_bytes(&sig)).is_ok()
}

/// A 32-byte string that is not the encoding of any curve point (first of 02 00.., 03 00.., …
/// that does not decompress).
pub fn non_point_key() -> [u8; 32] {
    for k in 2u8..=255 {
        let mut c = [0u8; 32];
        c[0] = k;
        if VerifyingKey::from_bytes(&c).is_err() {
            return c;
        }
    }
    unreachable!("no non-point among 02..ff")
}

/// The signature (R = neutral element, s = 0): valid for every message under the neutral-element
/// "key" with cofactorless verification, and under no genuine key.
pub fn neutral_signature() -> [u8; 64] {
    let mut s = [0u8; 64];
    s[0] = 1;
    s
}

/// SRV commitment value: first 32 bytes of SHA-512(0xff || public key).
pub fn srv_value(pk: &[u8]) -> [u8; 32] {
    let h = sha512(&[&[0xffu8], pk]);
    let mut out = [0u8; 32];
    out.copy_from_slice(&h[..32]);
    out
}

/// The Ed25519 private scalar (clamped first half of SHA-512(seed)) and the full expanded key.
pub fn expanded_secret(seed: &[u8; 32]) -> ([u8; 32], [u8; 64]) {
    let h = sha512(&[seed]);
    let mut scalar = [0u8; 32];
    scalar.copy_from_slice(&h[..32]);
    scalar[0] &= 248;
    scalar[31] &= 63;
    scalar[31] |= 64;
    (scalar, h)
}

pub fn hex(b: &[u8]) -> String {
    let mut s = String::with_capacity(b.len() * 2);
    for x in b {
        s.push_str(&format!("{:02x}", x));
    }
    s
}

pub fn unhex(s: &str) -> Vec<u8> {
    let s: Vec<u8> = s.bytes().filter(|c| !c.is_ascii_whitespace()).collect();
    assert!(s.len() % 2 == 0);
    s.chunks(2)
        .map(|p| u8::from_str_radix(std::str::from_utf8(p).unwrap(), 16).unwrap())
        .collect()
}

pub fn base64(b: &[u8], url: bool, pad: bool) -> String {
    let std = b"ABCDEFGHIJKLMNOPQRSTUVWXYZabcdefghijklmnopqrstuvwxyz0123456789+/";
    let urla = b"ABCDEFGHIJKLMNOPQRSTUVWXYZabcdefghijklmnopqrstuvwxyz0123456789-_";
    let a = if url { urla } else { std };
    let mut out = String::new();
    for c in b.chunks(3) {
        let n = match c.len() {
            3 => (c[0] as u32) << 16 | (c[1] as u32) << 8 | c[2] as u32,
            2 => (c[0] as u32) << 16 | (c[1] as u32) << 8,
            _ => (c[0] as u32) << 16,
        };
        out.push(a[(n >> 18) as usize & 63] as char);
        out.push(a[(n >> 12) as usize & 63] as char);
        if c.len() > 1 {
            out.push(a[(n >> 6) as usize & 63] as char);
        } else if pad {
            out.push('=');
        }
        if c.len() > 2 {
            out.push(a[n as usize & 63] as char);
        } else if pad {
            out.push('=');
        }
    }
    out
}

pub struct Rfc8032Vector {
    pub seed: &'static str,
    pub pk: &'static str,
    pub msg: &'static str,
    pub sig: &'static str,
}

/// RFC 8032 section 7.1, TEST 1, 2, 3 and TEST SHA(abc).
pub const RFC8032: [Rfc8032Vector; 4] = [
    Rfc8032Vector {
        seed: "9d61b19deffd5a60ba844af492ec2cc44449c5697b326919703bac031cae7f60",
        pk: "d75a980182b10ab7d54bfed3c964073a0ee172f3daa62325af021a68f707511a",
        msg: "",
        sig: "e5564300c360ac729086e2cc806e828a84877f1eb8e5d974d873e065224901555fb8821590a33bacc61e39701cf9b46bd25bf5f0595bbe24655141438e7a100b",
    },
    Rfc8032Vector {
        seed: "4ccd089b28ff96da9db6c346ec114e0f5b8a319f35aba624da8cf6ed4fb8a6fb",
        pk: "3d4017c3e843895a92b70aa74d1b7ebc9c982ccf2ec4968cc0cd55f12af4660c",
        msg: "72",
        sig: "92a009a9f0d4cab8720e820b5f642540a2b27b5416503f8fb3762223ebdb69da085ac1e43e15996e458f3613d0f11d8c387b2eaeb4302aeeb00d291612bb0c00",
    },
    Rfc8032Vector {
        seed: "c5aa8df43f9f837bedb7442f31dcb7b166d38535076f094b85ce3a2e0b4458f7",
        pk: "fc51cd8e6218a1a38da47ed00230f0580816ed13ba3303ac5deb911548908025",
        msg: "af82",
        sig: "6291d657deec24024827e69c3abe01a30ce548a284743a445e3680d7db5ac3ac18ff9b538d16f290ae67f760984dc6594a7c15e9716ed28dc027beceea1ec40a",
    },
    Rfc8032Vector {
        seed: "833fe62409237b9d62ec77587520911e9a759cec1d19755b7da901b96dca3d42",
        pk: "ec172b93ad5e563bf4932c70e1245034c35467ef2efd4d64ebf819683467e2bf",
        msg: "ddaf35a193617abacc417349ae20413112e6fa4e89a97ea20a9eeee64b55d39a2192992a274fc1a836ba3c23a3feebbd454d4423643ce80e2a9ac94fa54ca49f",
        sig: "dc2a4459e7369633a52b1bf277839a00201009a3efbf3ecb69bea2186c26b58909351fc9ac90b3ecfdfbc7c66431e0303dca179c138ac17ad9bef1177331a704",
    },
];

pub fn selftest() -> Result<(), String> {
    // SHA-512("abc")
    let h = sha512(&[b"abc"]);
    if hex(&h) != "ddaf35a193617abacc417349ae20413112e6fa4e89a97ea20a9eeee64b55d39a2192992a274fc1a836ba3c23a3feebbd454d4423643ce80e2a9ac94fa54ca49f" {
        return Err("sha512(abc)".into());
    }
    for (i, v) in RFC8032.iter().enumerate() {
        let seed: [u8; 32] = unhex(v.seed).try_into().unwrap();
        let pk = public_key(&seed);
        if hex(&pk) != v.pk {
            return Err(format!("rfc8032 vector {} public key", i));
        }
        let msg = unhex(v.msg);
        let sig = sign(&seed, &msg);
        if hex(&sig) != v.sig {
            return Err(format!("rfc8032 vector {} signature", i));
        }
        if !verify(&pk, &msg, &sig) {
            return Err(format!("rfc8032 vector {} verify", i));
        }
        let mut bad = sig;
        bad[0] ^= 1;
        if verify(&pk, &msg, &bad) {
            return Err(format!("rfc8032 vector {} verify bad", i));
        }
    }
    if base64(b"foobar", false, true) != "Zm9vYmFy" || base64(b"fo", false, true) != "Zm8=" || base64(b"f", false, false) != "Zg" {
        return Err("base64".into());
    }
    Ok(())
}
