//! Proleptic Gregorian conversion, own implementation (days-from-civil inverse).

#[derive(Debug, Clone, Copy, PartialEq, Eq)]
pub struct Civil {
    pub year: i64,
    pub month: u32,
    pub day: u32,
    pub hour: u32,
    pub min: u32,
    pub sec: u32,
}

pub fn civil_from_unix(secs: u64) -> Civil {
    let days = (secs / 86400) as i64;
    let rem = (secs % 86400) as u32;
    // Howard Hinnant's civil_from_days
    let z = days + 719468;
    let era = if z >= 0 { z } else { z - 146096 } / 146097;
    let doe = (z - era * 146097) as i64;
    let yoe = (doe - doe / 1460 + doe / 36524 - doe / 146096) / 365;
    let y = yoe + era * 400;
    let doy = doe - (365 * yoe + yoe / 4 - yoe / 100);
    let mp = (5 * doy + 2) / 153;
    let d = (doy - (153 * mp + 2) / 5 + 1) as u32;
    let m = if mp < 10 { mp + 3 } else { mp - 9 } as u32;
    let year = if m <= 2 { y + 1 } else { y };
    Civil { year, month: m, day: d, hour: rem / 3600, min: rem % 3600 / 60, sec: rem % 60 }
}

const MONTHS: [&str; 12] =
    ["Jan", "Feb", "Mar", "Apr", "May", "Jun", "Jul", "Aug", "Sep", "Oct", "Nov", "Dec"];

/// The client's default format "%b %d %Y %H:%M:%S %Z" in UTC.
pub fn default_format_utc(secs: u64) -> String {
    let c = civil_from_unix(secs);
    format!(
        "{} {:02} {} {:02}:{:02}:{:02} UTC",
        MONTHS[(c.month - 1) as usize],
        c.day,
        c.year,
        c.hour,
        c.min,
        c.sec
    )
}

pub fn selftest() -> Result<(), String> {
    let cases: [(u64, (i64, u32, u32, u32, u32, u32)); 6] = [
        (0, (1970, 1, 1, 0, 0, 0)),
        (951782400, (2000, 2, 29, 0, 0, 0)),
        (2147483647, (2038, 1, 19, 3, 14, 7)),
        (2147483648, (2038, 1, 19, 3, 14, 8)),
        (253402300799, (9999, 12, 31, 23, 59, 59)),
        (1540596140, (2018, 10, 26, 23, 22, 20)),
    ];
    for (s, e) in cases {
        let c = civil_from_unix(s);
        if (c.year, c.month, c.day, c.hour, c.min, c.sec) != e {
            return Err(format!("civil_from_unix({}) = {:?}", s, c));
        }
    }
    if default_format_utc(1540596140) != "Oct 26 2018 23:22:20 UTC" {
        return Err("default format".into());
    }
    Ok(())
}
