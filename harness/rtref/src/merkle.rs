//! Reference Merkle tree for both profiles.
//!
//! leaf  = H(0x00 || leaf_input), node = H(0x01 || left || right),
//! H = SHA-512 (classic) or the first 32 bytes of SHA-512 (IETF), at every node.

use crate::crypto::sha512;
use crate::proto::Version;

pub fn h(v: Version, parts: &[&[u8]]) -> Vec<u8> {
    let d = sha512(parts);
    d[..v.node_width()].to_vec()
}

pub fn leaf(v: Version, input: &[u8]) -> Vec<u8> {
    h(v, &[&[0u8], input])
}

pub fn node(v: Version, l: &[u8], r: &[u8]) -> Vec<u8> {
    h(v, &[&[1u8], l, r])
}

/// Fold a path. `path.len()` must be a multiple of the node width (else None).
/// Bit k of `index` says whether the running hash is the right (1) or left (0) child at level k.
pub fn root_from_path(v: Version, leaf_input: &[u8], index: u32, path: &[u8]) -> Option<Vec<u8>> {
    let w = v.node_width();
    if path.len() % w != 0 {
        return None;
    }
    let mut cur = leaf(v, leaf_input);
    let mut idx = index;
    for sib in path.chunks(w) {
        cur = if idx & 1 == 0 { node(v, &cur, sib) } else { node(v, sib, &cur) };
        idx >>= 1;
    }
    Some(cur)
}

/// A full tree over the given leaf inputs; odd levels are padded with an all-zero node.
pub struct Tree {
    pub v: Version,
    pub levels: Vec<Vec<Vec<u8>>>,
}

impl Tree {
    pub fn build(v: Version, leaves: &[Vec<u8>]) -> Tree {
        assert!(!leaves.is_empty());
        let mut levels = vec![leaves.iter().map(|l| leaf(v, l)).collect::<Vec<_>>()];
        while levels.last().unwrap().len() > 1 {
            let cur = levels.last_mut().unwrap();
            if cur.len() % 2 == 1 {
                cur.push(vec![0u8; v.node_width()]);
            }
            let next: Vec<Vec<u8>> = cur.chunks(2).map(|p| node(v, &p[0], &p[1])).collect();
            levels.push(next);
        }
        Tree { v, levels }
    }
    pub fn root(&self) -> Vec<u8> {
        self.levels.last().unwrap()[0].clone()
    }
    pub fn path(&self, mut i: usize) -> Vec<u8> {
        let mut out = Vec::new();
        for lvl in &self.levels[..self.levels.len() - 1] {
            out.extend_from_slice(&lvl[i ^ 1]);
            i >>= 1;
        }
        out
    }
}

/// ceil(log2(n)) for n >= 1
pub fn depth_for(n: usize) -> usize {
    let mut d = 0;
    while (1usize << d) < n {
        d += 1;
    }
    d
}

pub fn selftest() -> Result<(), String> {
    for v in [Version::Classic, Version::Ietf13] {
        for n in 1..=9usize {
            let leaves: Vec<Vec<u8>> = (0..n).map(|i| vec![i as u8; 3 + i]).collect();
            let t = Tree::build(v, &leaves);
            for i in 0..n {
                let p = t.path(i);
                if p.len() != depth_for(n) * v.node_width() {
                    return Err(format!("path length n={} i={}", n, i));
                }
                if root_from_path(v, &leaves[i], i as u32, &p) != Some(t.root()) {
                    return Err(format!("tree/path mismatch n={} i={}", n, i));
                }
            }
        }
    }
    // single leaf: root = H(0x00 || leaf)
    let r = root_from_path(Version::Ietf13, b"x", 0, &[]).unwrap();
    if r != sha512(&[&[0u8], b"x"])[..32].to_vec() {
        return Err("single leaf".into());
    }
    Ok(())
}
