//! Reference models for Roughtime (Google "classic" and IETF draft-13), written from the
//! protocol descriptions and the property statements in /verif/properties.jsonl.
//!
//! This crate is the trusted base of the checks. It shares no code with /repo/src: SHA-512
//! comes from `sha2` (the repo uses `ring`), Ed25519 from `ed25519-dalek` called one-shot
//! (anchored by RFC 8032 vectors in `selftest`).

pub mod codec;
pub mod crypto;
pub mod merkle;
pub mod proto;
pub mod responder;
pub mod time;
pub mod verifier;

pub use codec::{decode, encode, Msg, RefErr};
pub use proto::Version;

/// Self-test of the trusted base: RFC 8032 vectors, SHA-512 vectors, codec vectors.
/// Returns Err(description) on the first failure.
pub fn selftest() -> Result<(), String> {
    crypto::selftest()?;
    codec::selftest()?;
    merkle::selftest()?;
    time::selftest()?;
    Ok(())
}
