//! Reference responder and request builders (harness-owned keys).

use crate::codec::{frame, Msg};
use crate::crypto;
use crate::merkle::Tree;
use crate::proto::{Version, VER_CLASSIC, VER_IETF13};
use crate::verifier::request_leaf_and_nonce;

#[derive(Debug, Clone)]
pub struct Identity {
    pub lt_seed: [u8; 32],
    pub online_seed: [u8; 32],
}

impl Identity {
    pub fn new(a: u8, b: u8) -> Identity {
        let mut lt = [a; 32];
        let mut on = [b; 32];
        for i in 0..32 {
            lt[i] = lt[i].wrapping_add((i as u8).wrapping_mul(7));
            on[i] = on[i].wrapping_add((i as u8).wrapping_mul(13));
        }
        Identity { lt_seed: lt, online_seed: on }
    }
    pub fn lt_pk(&self) -> [u8; 32] {
        crypto::public_key(&self.lt_seed)
    }
    pub fn online_pk(&self) -> [u8; 32] {
        crypto::public_key(&self.online_seed)
    }
}

/// All components of a reply, kept separate so tamper operators can change one and re-assemble
/// (without re-signing unless they say so).
#[derive(Debug, Clone)]
pub struct Parts {
    pub v: Version,
    pub sig: Vec<u8>,
    pub nonce: Vec<u8>,
    pub path: Vec<u8>,
    pub srep: Msg,
    pub cert_sig: Vec<u8>,
    pub dele: Msg,
    pub indx: Vec<u8>,
    /// additional (unsigned) tags placed in the CERT container next to SIG and DELE
    pub cert_extra: Vec<(&'static str, Vec<u8>)>,
    /// additional (unsigned) tags placed at the top level of the reply
    pub top_extra: Vec<(&'static str, Vec<u8>)>,
    /// leave the NONC echo out of the reply (the original classic layout SIG, PATH, SREP, CERT, INDX:
    /// the echo is not part of that protocol's response)
    pub omit_nonc: bool,
}

impl Parts {
    pub fn srep_bytes(&self) -> Vec<u8> {
        self.srep.encode()
    }
    pub fn dele_bytes(&self) -> Vec<u8> {
        self.dele.encode()
    }
    pub fn cert_bytes(&self) -> Vec<u8> {
        let mut pairs: Vec<(&str, Vec<u8>)> = vec![("SIG", self.cert_sig.clone()), ("DELE", self.dele_bytes())];
        pairs.extend(self.cert_extra.iter().cloned());
        Msg::from_pairs(&pairs).encode()
    }
    pub fn sign_srep(&mut self, v: Version, online_seed: &[u8; 32]) {
        let mut m = v.srep_ctx().to_vec();
        m.extend_from_slice(&self.srep_bytes());
        self.sig = crypto::sign(online_seed, &m).to_vec();
    }
    pub fn sign_dele(&mut self, v: Version, lt_seed: &[u8; 32]) {
        let mut m = v.dele_ctx().to_vec();
        m.extend_from_slice(&self.dele_bytes());
        self.cert_sig = crypto::sign(lt_seed, &m).to_vec();
    }
    pub fn payload(&self) -> Vec<u8> {
        let mut pairs: Vec<(&str, Vec<u8>)> = vec![
            ("SIG", self.sig.clone()),
            ("NONC", self.nonce.clone()),
            ("PATH", self.path.clone()),
            ("SREP", self.srep_bytes()),
            ("CERT", self.cert_bytes()),
            ("INDX", self.indx.clone()),
        ];
        if self.omit_nonc {
            pairs.retain(|p| p.0 != "NONC");
        }
        pairs.extend(self.top_extra.iter().cloned());
        Msg::from_pairs(&pairs).encode()
    }
    /// The datagram: framed for IETF, bare for classic (according to self.v).
    pub fn datagram(&self) -> Vec<u8> {
        match self.v {
            Version::Classic => self.payload(),
            Version::Ietf13 => frame(&self.payload()),
        }
    }
}

#[derive(Debug, Clone, Copy)]
pub struct Stamp {
    pub midp: u64,
    pub radi: u32,
    pub mint: u64,
    pub maxt: u64,
}

impl Stamp {
    pub fn at(v: Version, unix_secs: u64, sub_micros: u64) -> Stamp {
        match v {
            Version::Classic => Stamp {
                midp: unix_secs * 1_000_000 + sub_micros,
                radi: 5_000_000,
                mint: 0,
                maxt: u64::MAX,
            },
            Version::Ietf13 => Stamp { midp: unix_secs, radi: 5, mint: 0, maxt: u64::MAX },
        }
    }
}

/// Honest reply for request `i` of a batch of request datagrams.
pub fn honest_parts(v: Version, id: &Identity, batch: &[Vec<u8>], i: usize, st: Stamp) -> Parts {
    let leaves: Vec<(Vec<u8>, Vec<u8>)> = batch
        .iter()
        .map(|r| request_leaf_and_nonce(v, r).expect("honest_parts: batch entry is not a request"))
        .collect();
    let tree = Tree::build(v, &leaves.iter().map(|l| l.0.clone()).collect::<Vec<_>>());
    let mut srep = match v {
        Version::Classic => Msg::from_pairs(&[
            ("RADI", st.radi.to_le_bytes().to_vec()),
            ("MIDP", st.midp.to_le_bytes().to_vec()),
            ("ROOT", tree.root()),
        ]),
        Version::Ietf13 => Msg::from_pairs(&[
            ("VER", VER_IETF13.to_vec()),
            ("RADI", st.radi.to_le_bytes().to_vec()),
            ("MIDP", st.midp.to_le_bytes().to_vec()),
            ("VERS", [VER_CLASSIC, VER_IETF13].concat()),
            ("ROOT", tree.root()),
        ]),
    };
    let _ = &mut srep;
    let dele = Msg::from_pairs(&[
        ("PUBK", id.online_pk().to_vec()),
        ("MINT", st.mint.to_le_bytes().to_vec()),
        ("MAXT", st.maxt.to_le_bytes().to_vec()),
    ]);
    let mut p = Parts {
        v,
        sig: vec![],
        nonce: leaves[i].1.clone(),
        path: tree.path(i),
        srep,
        cert_sig: vec![],
        dele,
        indx: (i as u32).to_le_bytes().to_vec(),
        cert_extra: vec![],
        top_extra: vec![],
        omit_nonc: false,
    };
    p.sign_srep(v, &id.online_seed);
    p.sign_dele(v, &id.lt_seed);
    p
}

/// Classic request: NONC + PAD, padded to `total` bytes (total multiple of 4, >= 16 + nonce).
pub fn classic_request(nonce: &[u8], total: usize) -> Vec<u8> {
    // header: 4 count + 4 offset + 8 tags = 16
    assert!(total % 4 == 0 && total >= 16 + nonce.len(), "classic_request size");
    let pad = total - 16 - nonce.len();
    Msg::from_pairs(&[("NONC", nonce.to_vec()), ("PAD", vec![0u8; pad])]).encode()
}

/// IETF request: VER, [SRV], NONC, ZZZZ framed, padded to `total` bytes.
pub fn ietf_request(ver: &[u8], srv: Option<&[u8]>, nonce: &[u8], total: usize) -> Vec<u8> {
    let mut pairs: Vec<(&str, Vec<u8>)> = vec![("VER", ver.to_vec()), ("NONC", nonce.to_vec())];
    if let Some(s) = srv {
        pairs.push(("SRV", s.to_vec()));
    }
    let n = pairs.len() + 1;
    let hl = 12 + 4 + 4 * (n - 1) + 4 * n;
    let used: usize = hl + pairs.iter().map(|p| p.1.len()).sum::<usize>();
    assert!(total % 4 == 0 && total >= used, "ietf_request size {} < {}", total, used);
    pairs.push(("ZZZZ", vec![0u8; total - used]));
    frame(&Msg::from_pairs(&pairs).encode())
}

pub fn std_request(v: Version, nonce: &[u8]) -> Vec<u8> {
    match v {
        Version::Classic => classic_request(nonce, 1024),
        Version::Ietf13 => ietf_request(&VER_IETF13, None, nonce, 1024),
    }
}
