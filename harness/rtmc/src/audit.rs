//! Static audit of the assumption behind hook-granularity exploration (E-SCHED): all cross-thread
//! communication of the server goes through hooked operations or kernel sockets. The audit lists
//! every occurrence of a sharing construct in /repo/src (outside the verification module, the
//! optional cloud-KMS back ends and test modules) and compares it with the allow-list below.
//! Anything not on the list is reported in the evidence, and the C18 check compensates by running
//! its free-running (sampled) multi-thread stress for longer — it is not a verdict by itself.

use std::collections::BTreeMap;

const TOKENS: [&str; 14] = ["static ", "unsafe", "thread_local!", "Mutex", "RwLock", "Atomic", "Arc<", "Arc::", "Lazy", "OnceCell", "OnceLock", "lazy_static", "RefCell", "UnsafeCell"];

/// (file, token) -> occurrences on the audited tree
const ALLOW: [(&str, &str, usize); 17] = [
    ("src/stats/reporter.rs", "Atomic", 2),
    ("src/stats/reporter.rs", "Arc<", 2),
    ("src/server.rs", "Arc<", 2),
    ("src/grease.rs", "static ", 1), // immutable table
    ("src/bin/roughenough-server.rs", "Lazy", 3),
    ("src/bin/roughenough-server.rs", "Atomic", 4),
    ("src/bin/roughenough-server.rs", "Mutex", 4),
    ("src/bin/roughenough-server.rs", "Arc<", 4),
    ("src/bin/roughenough-server.rs", "Arc::", 2),
    ("src/bin/roughenough-server.rs", "static ", 1),
    ("src/stats/mod.rs", "Arc<", 0),
    ("src/responder.rs", "static ", 0),
    ("src/merkle.rs", "static ", 0),
    ("src/key/online.rs", "static ", 0),
    ("src/key/longterm.rs", "static ", 0),
    ("src/sign.rs", "static ", 0),
    ("src/request.rs", "static ", 0),
];

fn walk(dir: &std::path::Path, out: &mut Vec<std::path::PathBuf>) {
    if let Ok(rd) = std::fs::read_dir(dir) {
        for e in rd.flatten() {
            let p = e.path();
            if p.is_dir() {
                walk(&p, out);
            } else if p.extension().map(|x| x == "rs").unwrap_or(false) {
                out.push(p);
            }
        }
    }
}

/// Returns the list of unlisted findings: "file: token xN (allowed M) e.g. line".
pub fn shared_state_audit() -> Vec<String> {
    let repo = std::env::var("VERIF_REPO").unwrap_or_else(|_| "/repo".into());
    let mut files = vec![];
    walk(std::path::Path::new(&format!("{}/src", repo)), &mut files);
    files.sort();
    let mut findings = vec![];
    for f in files {
        let rel = f.strip_prefix(&repo).unwrap_or(&f).display().to_string();
        let rel = rel.trim_start_matches('/').to_string();
        if rel == "src/verif.rs" || rel.contains("kms/awskms") || rel.contains("kms/gcpkms") {
            continue;
        }
        let text = std::fs::read_to_string(&f).unwrap_or_default();
        let mut counts: BTreeMap<&str, (usize, String)> = BTreeMap::new();
        for line in text.lines() {
            let t = line.trim();
            if t.starts_with("mod test") || t.starts_with("#[cfg(test)]") {
                break; // test modules are at the end of each file in this project
            }
            if t.starts_with("//") {
                continue;
            }
            let code = line.replace("&'static", "");
            for tok in TOKENS {
                let c = code.matches(tok).count();
                if c > 0 {
                    let e = counts.entry(tok).or_insert((0, t.chars().take(100).collect()));
                    e.0 += c;
                }
            }
        }
        for (tok, (n, example)) in counts {
            let allowed = ALLOW.iter().find(|a| a.0 == rel && a.1 == tok).map(|a| a.2).unwrap_or(0);
            if n > allowed {
                findings.push(format!("{}: `{}` x{} (audited tree: {}) e.g. `{}`", rel, tok.trim(), n, allowed, example));
            }
        }
    }
    findings
}
