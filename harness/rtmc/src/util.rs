use std::cell::Cell;
use std::sync::atomic::{AtomicUsize, Ordering};

thread_local! {
    static QUIET: Cell<bool> = Cell::new(false);
}

pub fn install_panic_hook() {
    let default = std::panic::take_hook();
    std::panic::set_hook(Box::new(move |info| {
        if QUIET.with(|q| q.get()) {
            return;
        }
        default(info);
    }));
}

/// Run `f` catching panics of the subject; the panic message is returned as Err.
pub fn catch<R>(f: impl FnOnce() -> R) -> Result<R, String> {
    let prev = QUIET.with(|q| q.replace(true));
    let r = std::panic::catch_unwind(std::panic::AssertUnwindSafe(f));
    QUIET.with(|q| q.set(prev));
    r.map_err(|p| panic_msg(&p))
}

pub fn panic_msg(p: &Box<dyn std::any::Any + Send>) -> String {
    if let Some(s) = p.downcast_ref::<&str>() {
        s.to_string()
    } else if let Some(s) = p.downcast_ref::<String>() {
        s.clone()
    } else {
        "<non-string panic>".to_string()
    }
}

pub fn nthreads() -> usize {
    std::env::var("VERIF_THREADS")
        .ok()
        .and_then(|s| s.parse().ok())
        .unwrap_or_else(|| std::thread::available_parallelism().map(|n| n.get()).unwrap_or(4).min(16))
}

/// Run `f(item_index, thread_index)` for every index in 0..n on named threads (the subject's
/// Server/Responder constructors require a thread name). Work is handed out in chunks.
pub fn par_for<F>(n: usize, chunk: usize, f: F)
where
    F: Fn(usize, usize) + Sync,
{
    let next = AtomicUsize::new(0);
    let t = nthreads().min(n.max(1));
    std::thread::scope(|s| {
        let mut hs = vec![];
        for k in 0..t {
            let next = &next;
            let f = &f;
            let h = std::thread::Builder::new()
                .name(format!("worker-{}", k))
                .stack_size(16 << 20)
                .spawn_scoped(s, move || loop {
                    let start = next.fetch_add(chunk, Ordering::Relaxed);
                    if start >= n {
                        break;
                    }
                    for i in start..(start + chunk).min(n) {
                        f(i, k);
                    }
                })
                .expect("spawn");
            hs.push(h);
        }
        for h in hs {
            if let Err(p) = h.join() {
                std::panic::resume_unwind(p);
            }
        }
    });
}

/// Run a closure on a named thread and return its result (for Server::new etc.)
pub fn on_named_thread<R: Send>(name: &str, f: impl FnOnce() -> R + Send) -> R {
    std::thread::scope(|s| {
        std::thread::Builder::new()
            .name(name.to_string())
            .stack_size(16 << 20)
            .spawn_scoped(s, f)
            .expect("spawn")
            .join()
            .unwrap_or_else(|p| std::panic::resume_unwind(p))
    })
}

/// splitmix64 — deterministic PRNG for the *sampled* extras and for filling payload bytes.
#[derive(Clone)]
pub struct Rng(pub u64);
impl Rng {
    pub fn next(&mut self) -> u64 {
        self.0 = self.0.wrapping_add(0x9E3779B97F4A7C15);
        let mut z = self.0;
        z = (z ^ (z >> 30)).wrapping_mul(0xBF58476D1CE4E5B9);
        z = (z ^ (z >> 27)).wrapping_mul(0x94D049BB133111EB);
        z ^ (z >> 31)
    }
    pub fn below(&mut self, n: u64) -> u64 {
        self.next() % n
    }
    pub fn bytes(&mut self, n: usize) -> Vec<u8> {
        let mut v = Vec::with_capacity(n + 8);
        while v.len() < n {
            v.extend_from_slice(&self.next().to_le_bytes());
        }
        v.truncate(n);
        v
    }
}

pub fn hex(b: &[u8]) -> String {
    rtref::crypto::hex(b)
}

pub fn hex_trunc(b: &[u8], max: usize) -> String {
    if b.len() <= max {
        hex(b)
    } else {
        format!("{}..(+{} bytes)", hex(&b[..max]), b.len() - max)
    }
}

/// TCP connect that does not mistake a shortage of local ports on the harness side (EADDRNOTAVAIL /
/// EADDRINUSE while tens of thousands of earlier loopback connections sit in TIME_WAIT) for a refusal by
/// the peer: those are waited out (up to 60 s); every other error is the caller's to judge.
pub fn tcp_connect(addr: &std::net::SocketAddr, timeout: std::time::Duration) -> std::io::Result<std::net::TcpStream> {
    let t0 = std::time::Instant::now();
    loop {
        match std::net::TcpStream::connect_timeout(addr, timeout) {
            Err(e) if (e.kind() == std::io::ErrorKind::AddrNotAvailable || e.kind() == std::io::ErrorKind::AddrInUse) && t0.elapsed() < std::time::Duration::from_secs(60) => {
                std::thread::sleep(std::time::Duration::from_millis(500));
            }
            r => return r,
        }
    }
}

/// set by the stubs that replace the parts driving roughenough::responder::Responder directly when the
/// harness had to be built without them (feature `no_responder_api`: the Responder API of the tree
/// under test differs from the one the harness was written against)
pub static RESPONDER_API_SKIPPED: std::sync::atomic::AtomicBool = std::sync::atomic::AtomicBool::new(false);
