//! In-process server harness (E-STATE): real `Server` objects on loopback sockets, stepped by the
//! harness; a capturing logger; client sockets.

use crate::util::catch;
use mio::Events;
use roughenough::config::MemoryConfig;
use roughenough::server::Server;
use roughenough::stats::StatsQueue;
use std::cell::RefCell;
use std::net::{SocketAddr, UdpSocket};
use std::os::unix::io::AsRawFd;
use std::sync::atomic::{AtomicU64, Ordering};
use std::sync::{Arc, Once};
use std::time::Duration;

pub const DEFAULT_SEED: [u8; 32] = [
    0xa3, 0x20, 0x49, 0xda, 0x0f, 0xfd, 0xe0, 0xde, 0xd9, 0x2c, 0xe1, 0x0a, 0x02, 0x30, 0xd3, 0x5f, 0xe6, 0x15, 0xec, 0x84,
    0x61, 0xc1, 0x49, 0x86, 0xba, 0xa6, 0x3f, 0xe3, 0xb3, 0xba, 0xc3, 0xdb,
];

#[derive(Clone, Debug)]
pub struct SrvCfg {
    pub batch_size: u8,
    pub fault: u8,
    pub client_stats: bool,
    pub health: bool,
    pub seed: [u8; 32],
}

impl Default for SrvCfg {
    fn default() -> Self {
        SrvCfg { batch_size: 64, fault: 0, client_stats: false, health: false, seed: DEFAULT_SEED }
    }
}

pub struct Srv {
    pub server: Server,
    pub events: Events,
    pub addr: SocketAddr,
    pub health_addr: Option<SocketAddr>,
    pub queue: Arc<StatsQueue>,
    pub cfg: SrvCfg,
    pub dead: bool,
    /// what this server is being used for (shown by the wedge watchdog)
    pub label: String,
}

pub fn set_rcvbuf(fd: i32, bytes: i32) {
    unsafe {
        let v: libc::c_int = bytes;
        let p = &v as *const _ as *const libc::c_void;
        if libc::setsockopt(fd, libc::SOL_SOCKET, libc::SO_RCVBUFFORCE, p, 4) != 0 {
            libc::setsockopt(fd, libc::SOL_SOCKET, libc::SO_RCVBUF, p, 4);
        }
    }
}

pub fn rcvbuf(fd: i32) -> i32 {
    unsafe {
        let mut v: libc::c_int = 0;
        let mut l: libc::socklen_t = 4;
        libc::getsockopt(fd, libc::SOL_SOCKET, libc::SO_RCVBUF, &mut v as *mut _ as *mut libc::c_void, &mut l);
        v
    }
}

static INIT: Once = Once::new();

// ---------------------------------------------------------------------------------------------
// wedge watchdog: a call into the subject that does not return is a violation ("wedged worker"),
// not something the harness can wait out. Every step registers itself; a watchdog thread reports
// the first step older than WEDGE_SECS with a replay file and a VIOLATION line and ends the process.

pub const WEDGE_SECS: u64 = 60;
static WATCH: std::sync::Mutex<Vec<Option<(std::time::Instant, String)>>> = std::sync::Mutex::new(Vec::new());
static WATCH_ID: std::sync::Mutex<Option<(String, String, u64)>> = std::sync::Mutex::new(None); // property, tier, seed

thread_local! {
    static WATCH_SLOT: std::cell::Cell<usize> = std::cell::Cell::new(usize::MAX);
}

/// Tell the watchdog which check is running (for the replay/evidence it writes on a wedge).
pub fn watchdog_identity(property: &str, tier: &str, seed: u64) {
    *WATCH_ID.lock().unwrap() = Some((property.to_string(), tier.to_string(), seed));
}

fn watch_begin(label: &str) {
    let mut w = WATCH.lock().unwrap();
    let slot = WATCH_SLOT.with(|s| {
        if s.get() == usize::MAX {
            w.push(None);
            s.set(w.len() - 1);
        }
        s.get()
    });
    w[slot] = Some((std::time::Instant::now(), label.to_string()));
}

fn watch_end() {
    let slot = WATCH_SLOT.with(|s| s.get());
    if slot != usize::MAX {
        WATCH.lock().unwrap()[slot] = None;
    }
}

fn watchdog_loop() {
    loop {
        std::thread::sleep(Duration::from_millis(500));
        let stuck: Option<String> = {
            let w = WATCH.lock().unwrap();
            w.iter().flatten().find(|(t, _)| t.elapsed().as_secs() >= WEDGE_SECS).map(|(_, l)| l.clone())
        };
        if let Some(label) = stuck {
            let (prop, tier, seed) = WATCH_ID.lock().unwrap().clone().unwrap_or(("C08".into(), "quick".into(), 1));
            let vd = crate::ev::verif_dir();
            let dir = format!("{}/replays/{}", vd, prop);
            let _ = std::fs::create_dir_all(&dir);
            let path = format!("{}/{}-step-does-not-return-0.json", dir, tier);
            let rec = serde_json::json!({"property": prop, "tier": tier, "seed": seed, "clause": "step-does-not-return", "site": "process_events", "class": "wedge",
                "occurrences": 1, "cases": [{"kind": "wedge", "label": label, "message": format!("a call into the subject did not return within {} s", WEDGE_SECS)}]});
            let _ = std::fs::write(&path, serde_json::to_string_pretty(&rec).unwrap());
            let ev = serde_json::json!({"property_id": prop, "tier": tier, "seed": seed, "level": "model_checking",
                "coverage": {"states": 1, "transitions": 1, "traces_validated_against_impl": 1, "samples": [label], "exhaustive": false,
                             "explanation": "run ended by the wedge watchdog: a call into the subject did not return"},
                "assumptions": [], "wall_s": WEDGE_SECS as f64, "violations": 1});
            let _ = std::fs::create_dir_all(format!("{}/evidence", vd));
            let _ = std::fs::write(format!("{}/evidence/{}.json", vd, prop), serde_json::to_string_pretty(&ev).unwrap());
            eprintln!("  violation clause=step-does-not-return: {}", label);
            println!("VIOLATION property={} replay={}", prop, path);
            crate::proc::kill_registered_children();
            std::process::exit(1);
        }
    }
}

/// Process-wide initialisation: poll timeout 0 (an idle step returns at once), logger installed.
pub fn init() {
    INIT.call_once(|| {
        roughenough::verif::set_poll_override_ms(0);
        let _ = log::set_logger(&LOGGER);
        log::set_max_level(log::LevelFilter::Off);
        let _ = std::thread::Builder::new().name("wedge-watchdog".into()).spawn(watchdog_loop);
    });
}

/// A TCP port for a health listener. Port 0 first; when the kernel finds none in the ephemeral range
/// (EADDRINUSE: tens of thousands of loopback connections of earlier histories in TIME_WAIT), one
/// from the range below it.
fn free_tcp_port() -> u16 {
    match std::net::TcpListener::bind("127.0.0.1:0") {
        Ok(l) => l.local_addr().unwrap().port(),
        Err(_) => crate::proc::free_port(),
    }
}

impl Srv {
    /// Must be called on a named thread (the subject's constructors require it).
    pub fn new(cfg: &SrvCfg) -> Result<Srv, String> {
        Srv::new_with_queue(cfg, Arc::new(StatsQueue::new(4)))
    }

    /// A Server that hands its per-client statistics to the given (possibly shared) queue, as the
    /// workers of one process do.
    pub fn new_with_queue(cfg: &SrvCfg, queue: Arc<StatsQueue>) -> Result<Srv, String> {
        init();
        let mut last = String::new();
        for _attempt in 0..5 {
            let std_sock = UdpSocket::bind("127.0.0.1:0").map_err(|e| format!("bind: {}", e))?;
            set_rcvbuf(std_sock.as_raw_fd(), 8 << 20);
            std_sock.set_nonblocking(true).unwrap();
            let addr = std_sock.local_addr().unwrap();
            let sock = mio::net::UdpSocket::from_socket(std_sock).map_err(|e| format!("from_socket: {}", e))?;
            let mut mc = MemoryConfig::new(addr.port());
            mc.seed = cfg.seed.to_vec();
            mc.batch_size = cfg.batch_size;
            mc.fault_percentage = cfg.fault;
            mc.client_stats = cfg.client_stats;
            mc.status_interval = Duration::from_secs(600);
            mc.num_workers = 1;
            let hp = if cfg.health { Some(free_tcp_port()) } else { None };
            mc.health_check_port = hp;
            let queue = queue.clone();
            let q2 = queue.clone();
            match catch(move || Server::new(&mc, sock, q2)) {
                Ok(server) => {
                    return Ok(Srv {
                        server,
                        events: Events::with_capacity(1024),
                        addr,
                        health_addr: hp.map(|p| format!("127.0.0.1:{}", p).parse().unwrap()),
                        queue,
                        cfg: cfg.clone(),
                        dead: false,
                        label: format!("in-process Server batch_size={} fault={} client_stats={} health={}", cfg.batch_size, cfg.fault, cfg.client_stats, cfg.health),
                    });
                }
                Err(p) => {
                    last = p;
                    if !last.contains("bind") {
                        break;
                    }
                }
            }
        }
        Err(format!("Server::new panicked: {}", last))
    }

    /// One call of the real event loop body. Err(panic message) if it unwound.
    pub fn step(&mut self) -> Result<(), String> {
        if self.dead {
            return Err("server object already dead".into());
        }
        if patient() {
            // confirmation pass: give the kernel time to deliver what the harness has sent
            std::thread::sleep(std::time::Duration::from_millis(2));
        }
        watch_begin(&self.label);
        let server = &mut self.server;
        let events = &mut self.events;
        let r = catch(move || server.process_events(events));
        watch_end();
        if r.is_err() {
            self.dead = true;
        }
        r
    }

    /// Run the periodic statistics hand-off now (what the status timer does), under the watchdog.
    pub fn handoff_stats(&mut self) -> Result<(), String> {
        watch_begin(&format!("{} + send_client_stats", self.label));
        let server = &mut self.server;
        let r = catch(move || server.verif_send_client_stats());
        watch_end();
        if r.is_err() {
            self.dead = true;
        }
        r
    }

    /// Step until quiescent: repeat until a step polls no event (observed through the `polled`
    /// hook point), i.e. the last step was an idle no-op. At least two steps are executed.
    pub fn settle(&mut self) -> Result<(), String> {
        let polled = std::rc::Rc::new(std::cell::Cell::new(-1i64));
        let p2 = polled.clone();
        roughenough::verif::set_callback(Some(Box::new(move |kind, arg| {
            if kind == "polled" {
                p2.set(arg);
            }
        })));
        let mut r = self.step();
        let mut n = 1;
        let mut idle_in_a_row = if polled.get() == 0 { 1 } else { 0 };
        // confirmation pass: three idle steps in a row (each preceded by a pause) instead of one
        let need = if patient() { 3 } else { 1 };
        while r.is_ok() && (n < 2 || idle_in_a_row < need) {
            r = self.step();
            n += 1;
            idle_in_a_row = if polled.get() == 0 { idle_in_a_row + 1 } else { 0 };
            if n > 10_000 {
                r = Err("harness: settle did not reach quiescence in 10000 steps".into());
                self.dead = true;
            }
        }
        roughenough::verif::set_callback(None);
        r
    }
}

pub struct Client {
    pub sock: UdpSocket,
}

impl Client {
    pub fn new() -> Client {
        let sock = UdpSocket::bind("127.0.0.1:0").expect("client bind");
        sock.set_nonblocking(true).unwrap();
        Client { sock }
    }
    /// A client whose receive buffer holds hundreds of replies (several requests from one socket).
    pub fn with_big_buffer() -> Client {
        let c = Client::new();
        set_rcvbuf(c.sock.as_raw_fd(), 4 << 20);
        c
    }
    pub fn port(&self) -> u16 {
        self.sock.local_addr().unwrap().port()
    }
    pub fn send(&self, to: SocketAddr, b: &[u8]) -> bool {
        self.sock.send_to(b, to).is_ok()
    }
    /// Everything currently queued on this socket: (datagram, source address)
    pub fn drain(&self) -> Vec<(Vec<u8>, SocketAddr)> {
        let mut out = vec![];
        let mut buf = vec![0u8; 65536];
        while let Ok((n, from)) = self.sock.recv_from(&mut buf) {
            out.push((buf[..n].to_vec(), from));
        }
        out
    }
}

// ---------------------------------------------------------------------------------------------
// patient mode (second, confirming pass of a check that found candidate violations)

static PATIENT: std::sync::atomic::AtomicBool = std::sync::atomic::AtomicBool::new(false);

pub fn set_patient(on: bool) {
    PATIENT.store(on, std::sync::atomic::Ordering::SeqCst);
}

pub fn patient() -> bool {
    PATIENT.load(std::sync::atomic::Ordering::Relaxed)
}

// ---------------------------------------------------------------------------------------------
// capturing logger

pub struct CapLogger;
pub static LOGGER: CapLogger = CapLogger;
pub static LOG_RECORDS: AtomicU64 = AtomicU64::new(0);
pub static LOG_BYTES: AtomicU64 = AtomicU64::new(0);

thread_local! {
    static CAPTURE: RefCell<Option<Vec<String>>> = RefCell::new(None);
}

impl log::Log for CapLogger {
    fn enabled(&self, _: &log::Metadata) -> bool {
        true
    }
    fn log(&self, record: &log::Record) {
        // formatting evaluates the arguments, as any real logger does
        let s = format!("{} {} {}", record.level(), record.target(), record.args());
        LOG_RECORDS.fetch_add(1, Ordering::Relaxed);
        LOG_BYTES.fetch_add(s.len() as u64, Ordering::Relaxed);
        CAPTURE.with(|c| {
            if let Some(v) = c.borrow_mut().as_mut() {
                v.push(s);
            }
        });
    }
    fn flush(&self) {}
}

pub fn capture_start() {
    CAPTURE.with(|c| *c.borrow_mut() = Some(vec![]));
}

pub fn capture_take() -> Vec<String> {
    CAPTURE.with(|c| c.borrow_mut().take().unwrap_or_default())
}

pub fn set_level(l: log::LevelFilter) {
    init();
    log::set_max_level(l);
}

pub const LEVELS: [log::LevelFilter; 6] = [
    log::LevelFilter::Off,
    log::LevelFilter::Error,
    log::LevelFilter::Warn,
    log::LevelFilter::Info,
    log::LevelFilter::Debug,
    log::LevelFilter::Trace,
];

// ---------------------------------------------------------------------------------------------
// deterministic nonces

pub fn nonce(tag: u64, len: usize) -> Vec<u8> {
    let mut out = vec![];
    let mut c = 0u64;
    while out.len() < len {
        out.extend_from_slice(&rtref::crypto::sha512(&[b"nonce", &tag.to_le_bytes(), &c.to_le_bytes()]));
        c += 1;
    }
    out.truncate(len);
    out
}

/// Kernel self-test: loopback delivery is synchronous with send_to, and the receive buffer of a
/// harness server socket holds a burst of `n` maximum-size datagrams.
pub fn kernel_selftest(n: usize) -> Result<(), String> {
    let s = UdpSocket::bind("127.0.0.1:0").map_err(|e| e.to_string())?;
    set_rcvbuf(s.as_raw_fd(), 8 << 20);
    s.set_nonblocking(true).unwrap();
    let a = s.local_addr().unwrap();
    let c = Client::new();
    for i in 0..n {
        if !c.send(a, &vec![i as u8; 1500]) {
            return Err("send failed".into());
        }
    }
    let mut got = 0;
    let mut buf = [0u8; 2048];
    while s.recv_from(&mut buf).is_ok() {
        got += 1;
    }
    if got != n {
        return Err(format!("loopback self-test: sent {} datagrams, {} immediately readable (rcvbuf {})", n, got, rcvbuf(s.as_raw_fd())));
    }
    Ok(())
}
