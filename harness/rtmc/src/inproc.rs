//! In-process server harness (E-STATE).
