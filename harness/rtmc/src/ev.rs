//! Evidence, violations, known findings, replay files.

use serde_json::{json, Map, Value};
use std::collections::BTreeMap;
use std::sync::Mutex;
use std::time::Instant;

#[derive(Debug, Clone, Copy, PartialEq, Eq)]
pub enum Tier {
    Quick,
    Thorough,
}

impl Tier {
    pub fn name(&self) -> &'static str {
        match self {
            Tier::Quick => "quick",
            Tier::Thorough => "thorough",
        }
    }
    pub fn pick<T>(&self, q: T, t: T) -> T {
        match self {
            Tier::Quick => q,
            Tier::Thorough => t,
        }
    }
}

#[derive(Debug, Clone)]
pub struct Violation {
    pub clause: String,
    pub site: String,
    pub class: String,
    pub detail: Value,
}

#[derive(Debug, Clone)]
struct Known {
    property: String,
    id: String,
    status: String,
    clause: String,
    site: String,
    class: String,
    description: String,
}

pub struct Ctx {
    pub id: String,
    pub tier: Tier,
    pub seed: u64,
    start: Instant,
    level: Mutex<String>,
    coverage: Mutex<Map<String, Value>>,
    assumptions: Mutex<Vec<String>>,
    // grouped by (clause, site, class): count and first few details
    violations: Mutex<BTreeMap<(String, String, String), (u64, Vec<Value>)>>,
    known: Vec<Known>,
    samples: Mutex<Vec<Value>>,
    counters: Mutex<BTreeMap<String, u64>>,
}

pub fn verif_dir() -> String {
    std::env::var("VERIF_DIR").unwrap_or_else(|_| "/verif".to_string())
}

fn glob_match(pat: &str, s: &str) -> bool {
    // '*' matches anything; alternatives separated by '|'
    pat.split('|').any(|p| p == "*" || p == s || (p.ends_with('*') && s.starts_with(&p[..p.len() - 1])))
}

impl Ctx {
    pub fn new(id: &str, tier: Tier, seed: u64) -> Ctx {
        let mut known = vec![];
        let path = format!("{}/known_findings.json", verif_dir());
        if let Ok(s) = std::fs::read_to_string(&path) {
            match serde_json::from_str::<Value>(&s) {
                Ok(Value::Array(a)) => {
                    for e in a {
                        let g = |k: &str| e.get(k).and_then(|v| v.as_str()).unwrap_or("").to_string();
                        let m = |k: &str| {
                            e.get("match").and_then(|m| m.get(k)).and_then(|v| v.as_str()).unwrap_or("").to_string()
                        };
                        known.push(Known {
                            property: g("property"),
                            id: g("id"),
                            status: g("status"),
                            clause: m("clause"),
                            site: m("site"),
                            class: m("class"),
                            description: g("description"),
                        });
                    }
                }
                _ => {
                    eprintln!("MACHINERY-ERROR cannot parse {}", path);
                    crate::proc::kill_registered_children();
                    std::process::exit(2);
                }
            }
        }
        Ctx {
            id: id.to_string(),
            tier,
            seed,
            start: Instant::now(),
            level: Mutex::new("exploration".into()),
            coverage: Mutex::new(Map::new()),
            assumptions: Mutex::new(vec![]),
            violations: Mutex::new(BTreeMap::new()),
            known,
            samples: Mutex::new(vec![]),
            counters: Mutex::new(BTreeMap::new()),
        }
    }

    pub fn set_level(&self, l: &str) {
        *self.level.lock().unwrap() = l.to_string();
    }
    /// Progress line on stderr when VERIF_TIMING is set (where a slow run spends its time).
    pub fn lap(&self, what: &str) {
        if std::env::var("VERIF_TIMING").is_ok() {
            eprintln!("[{:8.1}s] {} {}", self.elapsed(), self.id, what);
        }
    }

    pub fn cov(&self, k: &str, v: Value) {
        self.coverage.lock().unwrap().insert(k.to_string(), v);
    }
    pub fn assume(&self, s: &str) {
        self.assumptions.lock().unwrap().push(s.to_string());
    }
    pub fn sample(&self, v: Value) {
        let mut s = self.samples.lock().unwrap();
        if s.len() < 12 {
            s.push(v);
        }
    }
    /// Add to a named counter (merged into coverage at the end). Use for evaluations etc.
    pub fn count(&self, k: &str, n: u64) {
        *self.counters.lock().unwrap().entry(k.to_string()).or_insert(0) += n;
    }
    pub fn counter(&self, k: &str) -> u64 {
        *self.counters.lock().unwrap().get(k).unwrap_or(&0)
    }
    pub fn elapsed(&self) -> f64 {
        self.start.elapsed().as_secs_f64()
    }

    pub fn violation(&self, clause: &str, site: &str, class: &str, detail: Value) {
        let mut v = self.violations.lock().unwrap();
        let e = v.entry((clause.to_string(), site.to_string(), class.to_string())).or_insert((0, vec![]));
        e.0 += 1;
        if e.1.len() < 3 {
            e.1.push(detail);
        }
    }
    pub fn violation_count(&self) -> u64 {
        self.violations.lock().unwrap().values().map(|v| v.0).sum()
    }

    /// Violations recorded so far that no known-findings entry covers.
    pub fn unlisted_count(&self) -> u64 {
        self.violations.lock().unwrap().iter().filter(|((c, s, k), _)| self.known_for(c, s, k).is_none()).map(|(_, v)| v.0).sum()
    }

    /// (clause, site, class, occurrences) of the unlisted violations recorded so far.
    pub fn candidate_summary(&self) -> Vec<Value> {
        self.violations.lock().unwrap().iter().filter(|((c, s, k), _)| self.known_for(c, s, k).is_none()).take(20).map(|((c, s, k), v)| json!({"clause": c, "site": s, "class": k, "occurrences": v.0})).collect()
    }

    fn known_for(&self, clause: &str, site: &str, class: &str) -> Option<&Known> {
        self.known.iter().find(|k| {
            k.property == self.id
                && k.status == "known"
                && glob_match(&k.clause, clause)
                && glob_match(&k.site, site)
                && glob_match(&k.class, class)
        })
    }

    /// Write evidence, print KNOWN-FINDING / VIOLATION lines, return the exit code.
    pub fn finish(&self) -> i32 {
        let vd = verif_dir();
        let viol = self.violations.lock().unwrap();
        let mut unlisted = 0u64;
        let mut known_seen: BTreeMap<String, (String, u64)> = BTreeMap::new();
        let mut lines = vec![];
        let mut n = 0;
        for ((clause, site, class), (count, details)) in viol.iter() {
            if let Some(k) = self.known_for(clause, site, class) {
                let e = known_seen.entry(k.id.clone()).or_insert((k.description.clone(), 0));
                e.1 += count;
                continue;
            }
            unlisted += count;
            n += 1;
            if n > 20 {
                continue;
            }
            let dir = format!("{}/replays/{}", vd, self.id);
            let _ = std::fs::create_dir_all(&dir);
            let path = format!("{}/{}-{}-{}.json", dir, self.tier.name(), sanitize(clause), n);
            let rec = json!({
                "property": self.id, "tier": self.tier.name(), "seed": self.seed,
                "clause": clause, "site": site, "class": class,
                "occurrences": count, "cases": details,
            });
            let _ = std::fs::write(&path, serde_json::to_string_pretty(&rec).unwrap());
            lines.push(format!("VIOLATION property={} replay={}", self.id, path));
            eprintln!("  violation clause={} site={} class={} occurrences={}", clause, site, class, count);
        }
        for (id, (desc, cnt)) in &known_seen {
            println!("KNOWN-FINDING: property={} {} [{}; {} occurrence(s) this run]", self.id, desc, id, cnt);
        }
        for l in &lines {
            println!("{}", l);
        }
        // evidence
        let mut cov = self.coverage.lock().unwrap().clone();
        for (k, v) in self.counters.lock().unwrap().iter() {
            cov.entry(k.clone()).or_insert(json!(v));
        }
        let samples = self.samples.lock().unwrap().clone();
        if !samples.is_empty() && !cov.contains_key("samples") {
            cov.insert("samples".into(), Value::Array(samples));
        }
        cov.insert(
            "known_findings_seen".into(),
            json!(known_seen.iter().map(|(k, v)| json!({"id": k, "occurrences": v.1})).collect::<Vec<_>>()),
        );
        let evd = json!({
            "property_id": self.id,
            "tier": self.tier.name(),
            "seed": self.seed,
            "level": *self.level.lock().unwrap(),
            "coverage": Value::Object(cov),
            "assumptions": *self.assumptions.lock().unwrap(),
            "wall_s": (self.elapsed() * 1000.0).round() / 1000.0,
            "violations": unlisted,
        });
        // runs against deliberately broken trees (bin/mutants) keep their evidence out of evidence/
        let dir = std::env::var("VERIF_EVIDENCE_DIR").unwrap_or_else(|_| format!("{}/evidence", vd));
        let _ = std::fs::create_dir_all(&dir);
        let path = format!("{}/{}.json", dir, self.id);
        if let Err(e) = std::fs::write(&path, serde_json::to_string_pretty(&evd).unwrap() + "\n") {
            eprintln!("MACHINERY-ERROR cannot write {}: {}", path, e);
            return 2;
        }
        if unlisted > 0 {
            1
        } else {
            println!("OK property={} tier={} wall_s={:.1}", self.id, self.tier.name(), self.elapsed());
            0
        }
    }
}

fn sanitize(s: &str) -> String {
    s.chars().map(|c| if c.is_ascii_alphanumeric() || c == '-' { c } else { '_' }).collect()
}
