//! C14 — envelope-encrypted seed: round-trips, detects tampering, leaks nothing
//! (E-SEQ, fault enumeration over every blob position and provider fault).

use crate::ev::Ctx;
use crate::util::{catch, hex, par_for};
use roughenough::kms::{EnvelopeEncryption, KmsError, KmsProvider};
use rtref::crypto::sha512;
use serde_json::{json, Value};
use std::collections::HashMap;
use std::sync::atomic::{AtomicU64, Ordering::Relaxed};
use std::sync::Mutex;

/// Harness provider. `wrapped_len` decides the shape of the wrapped key:
///  - >= 48: masked DEK (32) || filler || 16-byte MAC over everything before it (authenticated, like a real KMS)
///  - <  48: an opaque handle of that many bytes into a side table (exact match required)
/// `fault` injects provider misbehaviour.
pub struct Prov {
    pub wrapped_len: usize,
    pub fault: Fault,
    table: Mutex<HashMap<Vec<u8>, Vec<u8>>>,
    pub seen_dek: Mutex<Vec<Vec<u8>>>,
    key: [u8; 32],
}

#[derive(Clone, Copy, PartialEq, Eq, Debug)]
pub enum Fault {
    None,
    EncryptErr,
    DecryptErr,
    WrongKey,
    KeyLen(usize),
}

impl Prov {
    pub fn new(wrapped_len: usize, fault: Fault) -> Prov {
        Prov { wrapped_len, fault, table: Mutex::new(HashMap::new()), seen_dek: Mutex::new(vec![]), key: [0x6b; 32] }
    }
    fn mask(&self) -> [u8; 64] {
        sha512(&[b"mask", &self.key])
    }
    fn mac(&self, data: &[u8]) -> Vec<u8> {
        sha512(&[b"mac", &self.key, data])[..16].to_vec()
    }
}

impl KmsProvider for Prov {
    fn encrypt_dek(&self, dek: &Vec<u8>) -> Result<Vec<u8>, KmsError> {
        if self.fault == Fault::EncryptErr {
            return Err(KmsError::OperationFailed("injected".into()));
        }
        self.seen_dek.lock().unwrap().push(dek.clone());
        if self.wrapped_len >= 48 {
            let m = self.mask();
            let mut w: Vec<u8> = dek.iter().zip(m.iter()).map(|(a, b)| a ^ b).collect();
            w.resize(self.wrapped_len - 16, 0xC3);
            let mac = self.mac(&w);
            w.extend_from_slice(&mac);
            Ok(w)
        } else {
            let mut t = self.table.lock().unwrap();
            let h: Vec<u8> = sha512(&[b"handle", &(t.len() as u64).to_le_bytes(), dek])[..self.wrapped_len].to_vec();
            t.insert(h.clone(), dek.clone());
            Ok(h)
        }
    }
    fn decrypt_dek(&self, w: &Vec<u8>) -> Result<Vec<u8>, KmsError> {
        if self.fault == Fault::DecryptErr {
            return Err(KmsError::OperationFailed("injected".into()));
        }
        let dek = if self.wrapped_len >= 48 {
            if w.len() != self.wrapped_len || self.mac(&w[..w.len() - 16]) != w[w.len() - 16..] {
                return Err(KmsError::InvalidData("wrapped key not authentic".into()));
            }
            let m = self.mask();
            w[..32].iter().zip(m.iter()).map(|(a, b)| a ^ b).collect::<Vec<u8>>()
        } else {
            match self.table.lock().unwrap().get(w) {
                Some(d) => d.clone(),
                None => return Err(KmsError::InvalidKey("unknown handle".into())),
            }
        };
        match self.fault {
            Fault::WrongKey => Ok(dek.iter().map(|b| b ^ 0x01).collect()),
            Fault::KeyLen(n) => {
                let mut d = dek;
                d.resize(n, 0x55);
                Ok(d)
            }
            _ => Ok(dek),
        }
    }
}

fn find(hay: &[u8], needle: &[u8]) -> bool {
    !needle.is_empty() && hay.windows(needle.len()).any(|w| w == needle)
}

fn leak_forms(secret: &[u8]) -> Vec<(String, Vec<u8>)> {
    use rtref::crypto::{base64, hex};
    vec![
        ("raw".into(), secret.to_vec()),
        ("hex".into(), hex(secret).into_bytes()),
        ("HEX".into(), hex(secret).to_uppercase().into_bytes()),
        ("base64".into(), base64(secret, false, false).into_bytes()),
        ("base64url".into(), base64(secret, true, false).into_bytes()),
    ]
}

pub fn run(ctx: &Ctx) -> Result<(), String> {
    ctx.set_level("fault_enumeration");
    let evals = AtomicU64::new(0);
    let faults_n = AtomicU64::new(0);
    let wlens: Vec<usize> = ctx.tier.pick((16..=64).chain([113, 184, 255, 256, 257, 512, 1024]).collect(), (16..=1024).collect());
    let plens: Vec<usize> = (32..=64).collect();

    // 1. round trip for every wrapped length x every plaintext length; leak scan
    let mut rt = vec![];
    for &w in &wlens {
        for &p in &plens {
            rt.push((w, p));
        }
    }
    par_for(rt.len(), 4, |k, _| {
        let (w, p) = rt[k];
        evals.fetch_add(1, Relaxed);
        let prov = Prov::new(w, Fault::None);
        let seed: Vec<u8> = (0..p).map(|i| (i * 5 + w * 3 + 1) as u8).collect();
        let class = if w < 32 { "wrapped<32" } else { "wrapped>=32" };
        let blob = match catch(|| EnvelopeEncryption::encrypt_seed(&prov, &seed)) {
            Ok(Ok(b)) => b,
            Ok(Err(e)) => {
                ctx.violation("encrypt-error", "encrypt_seed", class, json!({"kind":"roundtrip","wrapped_len":w,"plaintext_len":p,"error":format!("{:?}", e)}));
                return;
            }
            Err(pn) => {
                ctx.violation("panic", "encrypt_seed", class, json!({"kind":"roundtrip","wrapped_len":w,"plaintext_len":p,"panic":pn}));
                return;
            }
        };
        match catch(|| EnvelopeEncryption::decrypt_seed(&prov, &blob)) {
            Ok(Ok(s)) if s == seed => {}
            Ok(Ok(s)) => ctx.violation("roundtrip-differs", "decrypt_seed", class, json!({"kind":"roundtrip","wrapped_len":w,"plaintext_len":p,"got":hex(&s)})),
            Ok(Err(e)) => ctx.violation("roundtrip-error", "decrypt_seed", class, json!({"kind":"roundtrip","wrapped_len":w,"plaintext_len":p,"blob_len":blob.len(),"error":format!("{:?}", e)})),
            Err(pn) => ctx.violation("panic", "decrypt_seed", class, json!({"kind":"roundtrip","wrapped_len":w,"plaintext_len":p,"panic":pn})),
        }
        // leak scan
        for (form, needle) in leak_forms(&seed) {
            if find(&blob, &needle) {
                ctx.violation("leak-seed", "blob", &form, json!({"kind":"leak","wrapped_len":w,"plaintext_len":p}));
            }
        }
        for dek in prov.seen_dek.lock().unwrap().iter() {
            for (form, needle) in leak_forms(dek) {
                if find(&blob, &needle) {
                    ctx.violation("leak-dek", "blob", &form, json!({"kind":"leak","wrapped_len":w,"plaintext_len":p}));
                }
            }
        }
    });

    // 2. faults on the blob: every bit flip, byte set 00/ff, every truncation, extension 1..=16, swapped length fields
    let fw: Vec<usize> = ctx.tier.pick(vec![16, 31, 32, 33, 47, 48, 64, 113, 184], vec![16, 17, 31, 32, 33, 47, 48, 49, 64, 113, 184, 256, 512, 1024]);
    let fp: Vec<usize> = ctx.tier.pick(vec![32, 33, 48, 64], (32..=64).collect());
    let mut fc = vec![];
    for &w in &fw {
        for &p in &fp {
            fc.push((w, p));
        }
    }
    par_for(fc.len(), 1, |k, _| {
        let (w, p) = fc[k];
        let prov = Prov::new(w, Fault::None);
        let seed: Vec<u8> = (0..p).map(|i| (i * 11 + w + 7) as u8).collect();
        let blob = match catch(|| EnvelopeEncryption::encrypt_seed(&prov, &seed)) {
            Ok(Ok(b)) => b,
            _ => return, // reported in part 1
        };
        // skip fault enumeration when the pristine blob does not round-trip (reported in part 1)
        if !matches!(catch(|| EnvelopeEncryption::decrypt_seed(&prov, &blob)), Ok(Ok(ref s)) if *s == seed) {
            return;
        }
        let try_one = |what: &str, pos: usize, b: &[u8]| {
            faults_n.fetch_add(1, Relaxed);
            evals.fetch_add(1, Relaxed);
            match catch(|| EnvelopeEncryption::decrypt_seed(&prov, b)) {
                Ok(Err(_)) => {}
                Ok(Ok(s)) => ctx.violation(if s == seed { "tamper-accepted-same" } else { "tamper-accepted-other" }, "decrypt_seed", what,
                    json!({"kind":"fault","fault":what,"pos":pos,"wrapped_len":w,"plaintext_len":p,"got":hex(&s)})),
                Err(pn) => ctx.violation("panic", "decrypt_seed", what, json!({"kind":"fault","fault":what,"pos":pos,"wrapped_len":w,"plaintext_len":p,"panic":pn})),
            }
        };
        for bit in 0..blob.len() * 8 {
            let mut b = blob.clone();
            b[bit / 8] ^= 1 << (bit % 8);
            try_one("bit-flip", bit, &b);
        }
        for pos in 0..blob.len() {
            for v in [0x00u8, 0xff] {
                if blob[pos] != v {
                    let mut b = blob.clone();
                    b[pos] = v;
                    try_one("byte-set", pos, &b);
                }
            }
        }
        for l in 0..blob.len() {
            try_one("truncate", l, &blob[..l]);
        }
        for e in 1..=16 {
            let mut b = blob.clone();
            b.extend(std::iter::repeat(0xA7u8).take(e));
            try_one("extend", e, &b);
        }
        {
            let mut b = blob.clone();
            b.swap(0, 2);
            b.swap(1, 3);
            if b != blob {
                try_one("swap-length-fields", 0, &b);
            }
        }
    });

    // 3. provider faults on either call
    for &w in &[16usize, 32, 64, 184] {
        let seed: Vec<u8> = (0..32).map(|i| (i * 3 + 9) as u8).collect();
        // encrypt-side error must surface as Err
        evals.fetch_add(1, Relaxed);
        faults_n.fetch_add(1, Relaxed);
        match catch(|| EnvelopeEncryption::encrypt_seed(&Prov::new(w, Fault::EncryptErr), &seed)) {
            Ok(Err(_)) => {}
            Ok(Ok(_)) => ctx.violation("provider-error-swallowed", "encrypt_seed", "encrypt-err", json!({"kind":"provider","wrapped_len":w})),
            Err(pn) => ctx.violation("panic", "encrypt_seed", "encrypt-err", json!({"kind":"provider","wrapped_len":w,"panic":pn})),
        }
        for f in [Fault::DecryptErr, Fault::WrongKey, Fault::KeyLen(0), Fault::KeyLen(16), Fault::KeyLen(31), Fault::KeyLen(33), Fault::KeyLen(64)] {
            evals.fetch_add(1, Relaxed);
            faults_n.fetch_add(1, Relaxed);
            let mut prov = Prov::new(w, Fault::None);
            let blob = match catch(|| EnvelopeEncryption::encrypt_seed(&prov, &seed)) {
                Ok(Ok(b)) => b,
                _ => continue,
            };
            if w < 32 {
                // pristine blob may be refused for another (recorded) reason; provider faults are still enumerated
            }
            prov.fault = f;
            match catch(|| EnvelopeEncryption::decrypt_seed(&prov, &blob)) {
                Ok(Err(_)) => {}
                Ok(Ok(s)) => ctx.violation("provider-fault-accepted", "decrypt_seed", &format!("{:?}", f), json!({"kind":"provider","wrapped_len":w,"fault":format!("{:?}", f),"got":hex(&s)})),
                Err(pn) => ctx.violation("panic", "decrypt_seed", &format!("{:?}", f), json!({"kind":"provider","wrapped_len":w,"fault":format!("{:?}", f),"panic":pn})),
            }
        }
    }

    // 4. histories on ONE blob in one process: every sequence of decrypt operations (healthy
    //    provider, each provider fault, another provider instance, a tampered copy of the blob) up to
    //    the depth bound. A fault must be refused also AFTER the same blob was decrypted
    //    successfully, and a healthy decrypt must succeed also after refused ones.
    let ops: Vec<(&str, Option<Fault>)> = vec![
        ("good", None),
        ("decrypt-err", Some(Fault::DecryptErr)),
        ("wrong-key", Some(Fault::WrongKey)),
        ("key-len-16", Some(Fault::KeyLen(16))),
        ("key-len-33", Some(Fault::KeyLen(33))),
        ("other-provider", None),
        ("tampered-blob", None),
    ];
    let depth = ctx.tier.pick(3u32, 4);
    let mut seqs: Vec<Vec<usize>> = vec![];
    for l in 2..=depth {
        for mut idx in 0..ops.len().pow(l) {
            let mut v = vec![];
            for _ in 0..l {
                v.push(idx % ops.len());
                idx /= ops.len();
            }
            seqs.push(v);
        }
    }
    let hist_n = seqs.len() * 2;
    par_for(seqs.len() * 2, 8, |k, _| {
        let w = [64usize, 24][k % 2];
        let seq = &seqs[k / 2];
        evals.fetch_add(1, Relaxed);
        faults_n.fetch_add(1, Relaxed);
        let mut prov = Prov::new(w, Fault::None);
        let seed: Vec<u8> = (0..32).map(|i| (i * 7 + k + 3) as u8).collect();
        let blob = match catch(|| EnvelopeEncryption::encrypt_seed(&prov, &seed)) {
            Ok(Ok(b)) => b,
            _ => return,
        };
        let names: Vec<&str> = seq.iter().map(|&o| ops[o].0).collect();
        for (step, &o) in seq.iter().enumerate() {
            let (name, fault) = ops[o];
            prov.fault = fault.unwrap_or(Fault::None);
            let r = match name {
                "other-provider" => {
                    let mut other = Prov::new(w, Fault::None);
                    other.key = [0x7c; 32];
                    catch(|| EnvelopeEncryption::decrypt_seed(&other, &blob))
                }
                "tampered-blob" => {
                    let mut b = blob.clone();
                    let n = b.len();
                    b[n - 20] ^= 0x04; // inside ciphertext/tag
                    catch(|| EnvelopeEncryption::decrypt_seed(&prov, &b))
                }
                _ => catch(|| EnvelopeEncryption::decrypt_seed(&prov, &blob)),
            };
            let after_good = seq[..step].iter().any(|&x| ops[x].0 == "good");
            let class = format!("{}{}", name, if after_good { "-after-successful-decrypt" } else { "" });
            let detail = |m: String| json!({"kind":"history","wrapped_len":w,"operations":names,"step":step,"message":m});
            match (name, r) {
                (_, Err(pn)) => ctx.violation("panic", "decrypt_seed", &class, detail(pn)),
                ("good", Ok(Ok(s))) if s == seed => {}
                ("good", Ok(Ok(s))) => ctx.violation("roundtrip-differs", "decrypt_seed", &class, detail(format!("got {}", hex(&s)))),
                ("good", Ok(Err(e))) => ctx.violation("roundtrip-error", "decrypt_seed", &class, detail(format!("{:?}", e))),
                (_, Ok(Err(_))) => {}
                (_, Ok(Ok(s))) => ctx.violation("provider-fault-accepted", "decrypt_seed", &class, detail(format!("returned Ok({})", hex(&s)))),
            }
        }
    });

    ctx.cov("evaluations", json!(evals.load(Relaxed)));
    ctx.cov("distinct_nontrivial", json!(faults_n.load(Relaxed)));
    ctx.cov("decrypt_histories", json!({"count": hist_n, "depth": depth, "operations": ops.iter().map(|o| o.0).collect::<Vec<_>>()}));
    ctx.cov("roundtrips", json!(rt.len()));
    ctx.cov("fault_bases", json!(fc.len()));
    ctx.cov("exhaustive", json!(true));
    ctx.cov("rule", json!("round trip + leak scan (raw/hex/HEX/base64/base64url of seed and of the DEK the provider saw) for every wrapped-key length in the tier's set (thorough: every 16..=1024) x every plaintext length 32..=64; on each fault base (wrapped length x plaintext length): every single-bit flip at every blob position, every byte set to 00/ff, every truncation length, extension by 1..=16 bytes, swapped length fields; provider faults: error on encrypt, error on decrypt, different key, key of length 0/16/31/33/64; every sequence (length 2..=depth) of decrypt operations on ONE blob in one process over {healthy, decrypt error, wrong key, key length 16/33, another provider instance, tampered copy}, each step judged (healthy => Ok(seed), anything else => Err) whatever came before. Non-trivial = one injected fault (distinct by construction). Oracle: pristine => Ok(seed); any fault => Err, never Ok(_) and never a panic."));
    ctx.cov("bound", json!({"wrapped_lengths": wlens.len(), "plaintext_lengths": plens.len(), "fault_bases": fc.len()}));
    ctx.sample(json!({"kind":"fault","fault":"bit-flip","pos":17,"wrapped_len":48,"plaintext_len":32}));
    ctx.sample(json!({"kind":"provider","fault":"KeyLen(31)","wrapped_len":64}));
    ctx.assume("harness providers authenticate their own wrapped key (MAC or exact handle match), as real KMS services do; a provider that ignores part of its wrapped blob could not have modifications to that part detected by the envelope");
    Ok(())
}

pub fn replay_case(c: &Value) -> Result<Option<String>, String> {
    let w = c["wrapped_len"].as_u64().ok_or("wrapped_len")? as usize;
    let p = c["plaintext_len"].as_u64().unwrap_or(32) as usize;
    let prov = Prov::new(w, Fault::None);
    let seed: Vec<u8> = (0..p).map(|i| (i * 5 + w * 3 + 1) as u8).collect();
    match c["kind"].as_str() {
        Some("roundtrip") => {
            let blob = catch(|| EnvelopeEncryption::encrypt_seed(&prov, &seed)).map_err(|e| e)?.map_err(|e| format!("{:?}", e))?;
            match catch(|| EnvelopeEncryption::decrypt_seed(&prov, &blob)) {
                Ok(Ok(s)) if s == seed => Ok(None),
                other => Ok(Some(format!("{:?}", other))),
            }
        }
        Some("history") => {
            let names: Vec<String> = c["operations"].as_array().ok_or("operations")?.iter().map(|x| x.as_str().unwrap_or("").to_string()).collect();
            let mut prov = Prov::new(w, Fault::None);
            let seed: Vec<u8> = (0..32).map(|i| (i * 7 + 3) as u8).collect();
            let blob = catch(|| EnvelopeEncryption::encrypt_seed(&prov, &seed)).map_err(|e| e)?.map_err(|e| format!("{:?}", e))?;
            for (step, name) in names.iter().enumerate() {
                prov.fault = match name.as_str() {
                    "decrypt-err" => Fault::DecryptErr,
                    "wrong-key" => Fault::WrongKey,
                    "key-len-16" => Fault::KeyLen(16),
                    "key-len-33" => Fault::KeyLen(33),
                    _ => Fault::None,
                };
                let r = match name.as_str() {
                    "other-provider" => {
                        let mut other = Prov::new(w, Fault::None);
                        other.key = [0x7c; 32];
                        catch(|| EnvelopeEncryption::decrypt_seed(&other, &blob))
                    }
                    "tampered-blob" => {
                        let mut b = blob.clone();
                        let n = b.len();
                        b[n - 20] ^= 0x04;
                        catch(|| EnvelopeEncryption::decrypt_seed(&prov, &b))
                    }
                    _ => catch(|| EnvelopeEncryption::decrypt_seed(&prov, &blob)),
                };
                let ok = match (name.as_str(), &r) {
                    ("good", Ok(Ok(s))) => *s == seed,
                    ("good", _) => false,
                    (_, Ok(Err(_))) => true,
                    _ => false,
                };
                if !ok {
                    return Ok(Some(format!("step {} ({}): {:?}", step, name, r.map(|x| x.map(|s| hex(&s))))));
                }
            }
            Ok(None)
        }
        _ => Err("replay of this case kind: re-run the check (blobs contain fresh random nonces)".into()),
    }
}
