//! C16 — effective settings equal the written ones (file or env), else start is refused (E-PROC c/b).

use crate::ev::{Ctx, Tier};
use crate::proc::{cfgprobe, free_port, ServerProc, Source, Written, BASE_SEED_HEX};
use crate::util::par_for;
use serde_json::{json, Value};
use std::collections::BTreeMap;
use std::sync::atomic::{AtomicU64, Ordering::Relaxed};
use std::sync::Mutex;
use std::time::Duration;

#[derive(Clone, Copy, Debug, PartialEq, Eq)]
pub enum Want {
    /// documented in-range value: must be accepted with effective == written
    Accept,
    /// outside the documented range / malformed / missing / unknown: start must be refused
    Refuse,
    /// the statement leaves it open: refused, or accepted with effective == written
    Either,
}

/// Reference configuration semantics: what the documented keys mean.
/// Returns the expected effective value (as JSON) for a written literal, or None if not representable.
fn effective_of(key: &str, lit: &str) -> Option<Value> {
    match key {
        "port" | "batch_size" | "fault_percentage" | "num_workers" | "status_interval" | "health_check_port" => lit.parse::<i64>().ok().map(|n| json!(n)),
        "seed" => Some(json!(lit.to_lowercase())),
        "interface" | "persistence_directory" => Some(json!(lit)),
        "client_stats" => Some(json!(matches!(lit.to_lowercase().as_str(), "on" | "yes"))),
        "kms_protection" => Some(json!(if lit == "plaintext" { "Plaintext" } else { lit })),
        _ => None,
    }
}

/// The boundary grid: (key, literal, expectation)
pub fn grid(persist_dir: &str) -> Vec<(&'static str, String, Want)> {
    use Want::*;
    let mut g: Vec<(&'static str, String, Want)> = vec![];
    let mut add = |k: &'static str, vals: &[(&str, Want)]| {
        for (v, w) in vals {
            g.push((k, v.to_string(), *w));
        }
    };
    add("port", &[("0", Refuse), ("1", Accept), ("8686", Accept), ("65535", Accept), ("65536", Refuse), ("70000", Refuse), ("-1", Refuse), ("-200", Refuse), ("255", Accept), ("256", Accept), ("300", Accept), ("abc", Refuse), ("", Refuse)]);
    add("batch_size", &[("0", Refuse), ("1", Accept), ("32", Accept), ("64", Accept), ("65", Refuse), ("255", Refuse), ("256", Refuse), ("257", Refuse), ("300", Refuse), ("65535", Refuse), ("65536", Refuse), ("65537", Refuse), ("70000", Refuse), ("-1", Refuse), ("-200", Refuse), ("-255", Refuse), ("abc", Refuse), ("", Refuse)]);
    add("fault_percentage", &[("-1", Refuse), ("0", Accept), ("1", Accept), ("25", Accept), ("50", Accept), ("51", Refuse), ("100", Refuse), ("255", Refuse), ("256", Refuse), ("281", Refuse), ("300", Refuse), ("65536", Refuse), ("65561", Refuse), ("70000", Refuse), ("-200", Refuse), ("-231", Refuse), ("abc", Refuse)]);
    add("num_workers", &[("0", Refuse), ("1", Accept), ("2", Accept), ("4", Accept), ("16", Accept), ("-1", Refuse), ("-200", Refuse), ("abc", Refuse)]);
    // status_interval: the statement's grid is "within 1..=65535"; outside is left open
    add("status_interval", &[("1", Accept), ("10", Accept), ("600", Accept), ("65535", Accept), ("255", Accept), ("256", Accept), ("300", Accept), ("0", Either), ("65536", Either), ("70000", Either), ("-1", Either), ("abc", Refuse)]);
    add("health_check_port", &[("1", Either), ("8000", Accept), ("65535", Accept), ("255", Either), ("256", Either), ("300", Either), ("1024", Accept), ("65536", Refuse), ("70000", Refuse), ("-1", Refuse), ("-200", Refuse), ("0", Either), ("abc", Refuse)]);
    // integer settings written as YAML reals with a fractional part (or not-a-number): no integer was
    // written, so whatever integer the server would run with is "a different value"
    add("port", &[("8686.5", Refuse), ("65535.9", Refuse)]);
    add("batch_size", &[("64.9", Refuse), ("1.5", Refuse), ("0.5", Refuse)]);
    add("fault_percentage", &[("50.5", Refuse), ("-0.5", Refuse), (".nan", Refuse), ("25.25", Refuse)]);
    add("num_workers", &[("1.5", Refuse), ("2.75", Refuse)]);
    add("health_check_port", &[("8000.5", Refuse)]);
    let s62 = &BASE_SEED_HEX[..62];
    let s63 = &BASE_SEED_HEX[..63];
    let s66 = format!("{}ab", BASE_SEED_HEX);
    let upper = BASE_SEED_HEX.to_uppercase();
    let nonhex = format!("{}zz", &BASE_SEED_HEX[..62]);
    add("seed", &[(BASE_SEED_HEX, Accept), (upper.as_str(), Either), (s62, Refuse), (s63, Refuse), (s66.as_str(), Refuse), (nonhex.as_str(), Refuse), ("", Refuse)]);
    add("client_stats", &[("off", Accept), ("no", Accept), ("on", Accept), ("yes", Accept), ("ON", Either), ("Yes", Either)]);
    add("interface", &[("127.0.0.1", Accept), ("0.0.0.0", Accept), ("", Refuse)]);
    add("kms_protection", &[("plaintext", Accept)]);
    let _ = persist_dir;
    g
}

fn with_deviation(base: &Written, key: &str, lit: &str, persist_dir: &str) -> Written {
    let mut w = base.clone();
    w.set(key, lit);
    if key == "client_stats" {
        // per-client tracking requires a persistence directory (documented)
        w.set("persistence_directory", persist_dir);
    }
    w
}

/// Compare the probe outcome with the expectation for every key written.
fn judge(w: &Written, out: &Value, wants: &[(&str, Want)]) -> Option<(String, String, String)> {
    let accepted = out["accepted"].as_bool().unwrap_or(false);
    let must_refuse = wants.iter().any(|x| x.1 == Want::Refuse);
    let must_accept = wants.iter().all(|x| x.1 == Want::Accept);
    if !accepted {
        if must_accept {
            return Some(("refused-valid".into(), wants.iter().map(|x| x.0).collect::<Vec<_>>().join("+"), format!("documented in-range configuration refused: {}", out["why"])));
        }
        return None;
    }
    // accepted: every written key must be effective as written
    let eff = &out["effective"];
    for (k, lit) in &w.pairs {
        let want = match effective_of(k, lit) {
            Some(v) => v,
            None => continue,
        };
        let got = &eff[k.as_str()];
        if *got != want {
            let cls = if must_refuse { "out-of-range-replaced" } else { "in-range-replaced" };
            return Some(("effective-differs-from-written".into(), k.clone(), format!("{}: written {} but effective {} ({})", k, lit, got, cls)));
        }
    }
    if must_refuse {
        let k = wants.iter().find(|x| x.1 == Want::Refuse).unwrap().0;
        return Some(("accepted-out-of-range".into(), k.to_string(), format!("value outside the documented range accepted as-is: {:?}", w.pairs.iter().find(|p| p.0 == k))));
    }
    None
}

pub fn run(ctx: &Ctx) -> Result<(), String> {
    ctx.set_level("exploration");
    let evals = AtomicU64::new(0);
    let nontrivial = AtomicU64::new(0);
    let classes: Mutex<BTreeMap<String, u64>> = Mutex::new(BTreeMap::new());
    let failed: Mutex<Option<String>> = Mutex::new(None);
    let pdir = crate::proc::scratch_dir();
    let pdir_s = pdir.display().to_string();
    let base = Written::base(8686);
    let g = grid(&pdir_s);

    // 0 deviations: the base must be accepted from both sources with effective == written
    for src in [Source::File, Source::Env] {
        let out = cfgprobe(&base, src)?;
        evals.fetch_add(1, Relaxed);
        if let Some((c, k, m)) = judge(&base, &out, &[("base", Want::Accept)]) {
            ctx.violation(&c, &k, &format!("{:?}", src), json!({"kind":"probe","written":base.to_json(),"source":format!("{:?}", src),"message":m}));
        }
    }
    // determinism self-test
    {
        let a = cfgprobe(&with_deviation(&base, "batch_size", "65", &pdir_s), Source::File)?;
        let b = cfgprobe(&with_deviation(&base, "batch_size", "65", &pdir_s), Source::File)?;
        if a != b {
            return Err("determinism self-test: probe gave two different answers".into());
        }
    }

    // a second valid base on which every optional key is set to a non-default in-range value
    // (per-client statistics with an existing writable directory included)
    let mut full = Written::base(8686);
    for (k, v) in [("batch_size", "32"), ("status_interval", "10"), ("health_check_port", "8000"), ("fault_percentage", "25"), ("num_workers", "2"), ("client_stats", "on"), ("kms_protection", "plaintext")] {
        full.set(k, v);
    }
    full.set("persistence_directory", &pdir_s);
    for src in [Source::File, Source::Env] {
        let out = cfgprobe(&full, src)?;
        evals.fetch_add(1, Relaxed);
        if let Some((c, k, m)) = judge(&full, &out, &[("full-base", Want::Accept)]) {
            ctx.violation(&c, &k, &format!("{:?}", src), json!({"kind":"probe","written":full.to_json(),"source":format!("{:?}", src),"message":m}));
        }
    }
    let bases = [base.clone(), full.clone()];
    // 1 deviation: every (key, value) on each valid base, both sources; file and env must agree
    par_for(g.len() * 2, 1, |k2, _| {
        let (k, bi) = (k2 / 2, k2 % 2);
        let (key, lit, want) = &g[k];
        if bi == 1 && *key == "client_stats" {
            return; // the full base already fixes client_stats
        }
        let w = with_deviation(&bases[bi], key, lit, &pdir_s);
        let mut outs = vec![];
        for src in [Source::File, Source::Env] {
            match cfgprobe(&w, src) {
                Ok(o) => {
                    evals.fetch_add(1, Relaxed);
                    nontrivial.fetch_add(1, Relaxed);
                    let cls = format!("{}:{:?}:{}", key, want, if o["accepted"] == true { "accepted" } else { "refused" });
                    *classes.lock().unwrap().entry(cls).or_insert(0) += 1;
                    if let Some((c, kk, m)) = judge(&w, &o, &[(key, *want)]) {
                        ctx.violation(&c, &kk, &format!("{:?}", src), json!({"kind":"probe","written":w.to_json(),"source":format!("{:?}", src),"key":key,"value":lit,"message":m,"probe":o}));
                    }
                    outs.push(o);
                }
                Err(e) => *failed.lock().unwrap() = Some(e),
            }
        }
        if outs.len() == 2 {
            let (a, b) = (&outs[0], &outs[1]);
            let same = a["accepted"] == b["accepted"] && (a["accepted"] == false || a["effective"] == b["effective"]);
            // an empty literal means "key present but empty" in the file and "variable set to empty" in
            // the environment; both must still lead to the same outcome
            if !same {
                ctx.violation("file-and-env-differ", key, "1-deviation", json!({"kind":"probe","written":w.to_json(),"key":key,"value":lit,"base":if bi == 0 {"minimal"} else {"full"},"file":a,"env":b}));
            }
        }
    });
    // missing required keys, unknown key
    for (what, w, src) in [
        ("missing-port", { let mut w = base.clone(); w.remove("port"); w }, None),
        ("missing-interface", { let mut w = base.clone(); w.remove("interface"); w }, None),
        ("missing-seed", { let mut w = base.clone(); w.remove("seed"); w }, None),
        ("unknown-key", { let mut w = base.clone(); w.set("frobnicate", "1"); w }, Some(Source::File)),
        ("client-stats-without-directory", { let mut w = base.clone(); w.set("client_stats", "on"); w }, None),
    ] {
        for s in [Source::File, Source::Env] {
            if src.is_some() && src != Some(s) {
                continue;
            }
            let o = cfgprobe(&w, s)?;
            evals.fetch_add(1, Relaxed);
            nontrivial.fetch_add(1, Relaxed);
            *classes.lock().unwrap().entry(format!("{}:{}", what, if o["accepted"] == true { "accepted" } else { "refused" })).or_insert(0) += 1;
            if o["accepted"] == true && what != "client-stats-without-directory" {
                ctx.violation("accepted-incomplete", what, &format!("{:?}", s), json!({"kind":"probe","written":w.to_json(),"source":format!("{:?}", s),"probe":o}));
            }
        }
    }
    // file structure: everything written in the file must be effective or the start refused — also
    // when it is written in a second YAML document, twice, or after a document-end marker
    {
        let b = base.yaml();
        let cases: Vec<(&str, String, Vec<(&str, Value)>)> = vec![
            ("leading-document-marker", format!("---\n{}", b), vec![]),
            ("second-document-override", format!("{}---\nbatch_size: 8\nfault_percentage: 25\n", b), vec![("batch_size", json!(8)), ("fault_percentage", json!(25))]),
            ("second-document-out-of-range", format!("{}---\nbatch_size: 65\n", b), vec![("batch_size", json!(65))]),
            ("second-document-unknown-key", format!("{}---\nfrobnicate: 1\n", b), vec![("frobnicate", json!(1))]),
            ("after-document-end-marker", format!("{}...\n---\nnum_workers: 3\n", b), vec![("num_workers", json!(3))]),
            ("key-written-twice", format!("{}batch_size: 8\nbatch_size: 9\n", b), vec![]),
            // long (heavily commented) files: a key is effective wherever in the file it stands
            ("keys-after-5-KiB-of-comments", format!("{}{}batch_size: 8\nfault_percentage: 25\n", b, "# a comment line that pads the configuration file a little more\n".repeat(80)), vec![("batch_size", json!(8)), ("fault_percentage", json!(25))]),
            ("keys-after-70-KiB-of-comments", format!("{}{}batch_size: 8\nfault_percentage: 25\n", b, "# a comment line that pads the configuration file a little more\n".repeat(1100)), vec![("batch_size", json!(8)), ("fault_percentage", json!(25))]),
            ("number-straddling-4096", { let mut y = b.clone(); while y.len() < 4096 - 13 { y.push_str("#\n"); } while y.len() < 4096 - 12 { y.push('#'); } if !y.ends_with('\n') { y.push('\n'); } format!("{}{}batch_size: 16\n", y, "#".repeat(4096usize.saturating_sub(y.len() + 13)) + "\n") }, vec![("batch_size", json!(16))]),
        ];
        // an unknown key makes start-up fail whatever is written as its value (nothing, null, a list,
        // a mapping, a boolean)
        for (what, yaml) in [("out-of-range-after-5-KiB", format!("{}{}batch_size: 65\n", b, "# padding comment line, padding comment line, padding comment\n".repeat(90))), ("unknown-key-after-5-KiB", format!("{}{}frobnicate: 1\n", b, "# padding comment line, padding comment line, padding comment\n".repeat(90)))] {
            let o = crate::proc::cfgprobe_raw(&yaml)?;
            evals.fetch_add(1, Relaxed);
            nontrivial.fetch_add(1, Relaxed);
            let accepted = o["accepted"] == true;
            *classes.lock().unwrap().entry(format!("file-structure/{}:{}", what, if accepted { "accepted" } else { "refused" })).or_insert(0) += 1;
            if accepted {
                ctx.violation("accepted-invalid-late-in-file", "file-structure", "File", json!({"kind":"probe-raw","case":what,"yaml_len":yaml.len(),"probe":o}));
            }
        }
        for (what, line) in [("unknown-key-empty-value", "bogus_setting:"), ("unknown-key-tilde", "bogus_setting: ~"), ("unknown-key-null", "bogus_setting: null"), ("unknown-key-list", "bogus_setting: [1, 2]"), ("unknown-key-mapping", "bogus_setting: {a: 1}"), ("unknown-key-boolean", "bogus_setting: true"), ("unknown-key-first", "")] {
            let yaml = if what == "unknown-key-first" { format!("bogus_setting:\n{}", b) } else { format!("{}{}\n", b, line) };
            let o = crate::proc::cfgprobe_raw(&yaml)?;
            evals.fetch_add(1, Relaxed);
            nontrivial.fetch_add(1, Relaxed);
            let accepted = o["accepted"] == true;
            *classes.lock().unwrap().entry(format!("file-structure/{}:{}", what, if accepted { "accepted" } else { "refused" })).or_insert(0) += 1;
            if accepted {
                ctx.violation("accepted-unknown-key", "file-structure", "File", json!({"kind":"probe-raw","case":what,"yaml":yaml,"probe":o}));
            }
        }
        for (what, yaml, must_be_effective) in cases {
            let o = crate::proc::cfgprobe_raw(&yaml)?;
            evals.fetch_add(1, Relaxed);
            nontrivial.fetch_add(1, Relaxed);
            let accepted = o["accepted"] == true;
            *classes.lock().unwrap().entry(format!("file-structure/{}:{}", what, if accepted { "accepted" } else { "refused" })).or_insert(0) += 1;
            if what == "leading-document-marker" && !accepted {
                ctx.violation("refused-valid", "file-structure", "File", json!({"kind":"probe-raw","case":what,"yaml":yaml,"probe":o}));
            }
            if accepted {
                for (k, v) in &must_be_effective {
                    if o["effective"][*k] != *v {
                        ctx.violation("effective-differs-from-written", "file-structure", "File", json!({"kind":"probe-raw","case":what,"yaml":yaml,"message":format!("{} is written as {} in the file but the server would run with {}", k, v, o["effective"][*k]),"probe":o}));
                    }
                }
            }
        }
    }
    if let Some(e) = failed.lock().unwrap().take() {
        return Err(e);
    }

    // 2 deviations (thorough): all pairs of (key,value) over the numeric keys, file and env
    if ctx.tier == Tier::Thorough {
        let numeric: Vec<&(&str, String, Want)> = g.iter().filter(|x| ["port", "batch_size", "fault_percentage", "num_workers", "status_interval", "health_check_port"].contains(&x.0)).collect();
        let mut pairs = vec![];
        for a in 0..numeric.len() {
            for b in a + 1..numeric.len() {
                if numeric[a].0 != numeric[b].0 {
                    pairs.push((a, b));
                }
            }
        }
        par_for(pairs.len(), 4, |k, _| {
            let (a, b) = pairs[k];
            let mut w = base.clone();
            w.set(numeric[a].0, &numeric[a].1);
            w.set(numeric[b].0, &numeric[b].1);
            let src = if k % 2 == 0 { Source::File } else { Source::Env };
            match cfgprobe(&w, src) {
                Ok(o) => {
                    evals.fetch_add(1, Relaxed);
                    nontrivial.fetch_add(1, Relaxed);
                    if let Some((c, kk, m)) = judge(&w, &o, &[(numeric[a].0, numeric[a].2), (numeric[b].0, numeric[b].2)]) {
                        ctx.violation(&c, &kk, &format!("{:?}", src), json!({"kind":"probe","written":w.to_json(),"source":format!("{:?}", src),"message":m,"probe":o}));
                    }
                }
                Err(e) => *failed.lock().unwrap() = Some(e),
            }
        });
    }
    if let Some(e) = failed.lock().unwrap().take() {
        return Err(e);
    }

    // the real server binary for every 1-deviation point (file source; env for a rotating half):
    // refused <=> exits non-zero at start-up; accepted => the displayed values equal the written ones
    let real_n = AtomicU64::new(0);
    par_for(g.len(), 1, |k, _| {
        let (key, lit, want) = &g[k];
        if *key == "interface" && lit == "0.0.0.0" {
            return;
        }
        let port = free_port();
        let mut w = with_deviation(&Written::base(port), key, lit, &pdir_s);
        if *key != "num_workers" {
            w.set("num_workers", "1");
        }
        if *key == "health_check_port" && lit.parse::<i64>().map(|p| p > 1024 && p < 65535).unwrap_or(false) {
            // keep parallel servers from colliding on the literal grid port: the written value is
            // what is under test, so use a free port only for in-range typical values
            w.set("health_check_port", &free_port().to_string());
        }
        let src = if k % 2 == 0 { Source::File } else { Source::Env };
        let probe = match cfgprobe(&w, src) {
            Ok(p) => p,
            Err(e) => {
                *failed.lock().unwrap() = Some(e);
                return;
            }
        };
        let mut sp = match ServerProc::start(&w, src, &[]) {
            Ok(s) => s,
            Err(e) => {
                *failed.lock().unwrap() = Some(e);
                return;
            }
        };
        real_n.fetch_add(1, Relaxed);
        let nw = w.get("num_workers").and_then(|n| n.parse::<usize>().ok()).unwrap_or(1).max(1).min(16);
        let seen = sp.wait_started(nw, Duration::from_secs(10));
        let status = sp.try_status();
        let so = sp.stdout();
        let detail = |m: String| json!({"kind":"server","written":w.to_json(),"source":format!("{:?}", src),"key":key,"value":lit,"message":m,"probe":probe,"stdout_tail":so.lines().rev().take(12).collect::<Vec<_>>(),"stderr_head":sp.stderr().lines().take(3).collect::<Vec<_>>()});
        let probe_accepts = probe["accepted"] == true;
        match status {
            Some((code, sig)) => {
                // the server exited during start-up
                if code == Some(0) {
                    ctx.violation("server-exited-0-at-startup", key, "real-binary", detail(format!("exit {:?} {:?}", code, sig)));
                } else if probe_accepts && *want == Want::Accept && !sp.stderr().contains("Address already in use") {
                    ctx.violation("server-refuses-accepted-config", key, "real-binary", detail(format!("probe accepts but server exited {:?}", code)));
                }
            }
            None => {
                // running: it accepted the configuration
                if !probe_accepts {
                    ctx.violation("server-runs-config-probe-refuses", key, "real-binary", detail("server keeps running".into()));
                } else if seen >= 1 {
                    let eff = &probe["effective"];
                    let shown = |label: &str| so.lines().find(|l| l.contains(label)).map(|l| l.split(" : ").last().unwrap_or("").trim().to_string());
                    let checks: Vec<(&str, String)> = vec![
                        ("Number of workers", eff["num_workers"].to_string()),
                        ("Max response batch size", eff["batch_size"].to_string()),
                        ("Status updates every", format!("{} seconds", eff["status_interval"])),
                        ("Server listening on", format!("{}:{}", eff["interface"].as_str().unwrap_or(""), eff["port"])),
                    ];
                    for (label, want_s) in checks {
                        if shown(label).as_deref() != Some(want_s.as_str()) {
                            ctx.violation("displayed-differs-from-probe", key, "real-binary", detail(format!("{}: displayed {:?}, probe getter {}", label, shown(label), want_s)));
                        }
                    }
                }
            }
        }
        sp.kill();
    });
    if let Some(e) = failed.lock().unwrap().take() {
        return Err(e);
    }
    // observed behaviour: the number of worker threads the real server RUNS equals the written
    // num_workers, also above the number of CPUs of this machine (the documented range is >= 1)
    {
        let cpus = std::thread::available_parallelism().map(|n| n.get()).unwrap_or(1);
        let mut ns: Vec<usize> = ctx.tier.pick(vec![1, 3, cpus + 1, 2 * cpus + 1], vec![1, 2, 3, cpus - 1, cpus, cpus + 1, cpus + 3, 2 * cpus + 1, 40]);
        ns.retain(|n| *n >= 1);
        ns.sort();
        ns.dedup();
        let mut cases = vec![];
        for &n in &ns {
            for src in [Source::File, Source::Env] {
                cases.push((n, src));
            }
        }
        par_for(cases.len(), 1, |k, _| {
            let (n, src) = cases[k];
            let r = crate::proc::start_serving(
                &|port| {
                    let mut w = Written::base(port);
                    w.set("num_workers", &n.to_string());
                    w
                },
                src,
                n,
                Duration::from_secs(20),
            );
            let (mut sp, _port) = match r {
                Ok(x) => x,
                Err(e) => {
                    *failed.lock().unwrap() = Some(e);
                    return;
                }
            };
            std::thread::sleep(Duration::from_millis(100));
            evals.fetch_add(1, Relaxed);
            nontrivial.fetch_add(1, Relaxed);
            let names: std::collections::BTreeSet<String> = sp.thread_names().into_iter().filter(|x| x.starts_with("worker-")).collect();
            let want: std::collections::BTreeSet<String> = (0..n).map(|i| format!("worker-{}", i)).collect();
            if sp.try_status().is_some() || names != want {
                ctx.violation("effective-differs-from-written", "num_workers", &format!("{:?}/observed-threads", src), json!({"kind":"behaviour-workers","source":format!("{:?}", src),"written_num_workers":n,"cpus":cpus,"worker_threads_observed":names.len(),"exit":format!("{:?}", sp.try_status()),
                    "message":format!("num_workers {} is written; the running server has {} worker threads", n, names.len())}));
            }
            sp.kill();
        });
        if let Some(e) = failed.lock().unwrap().take() {
            return Err(e);
        }
        ctx.cov("num_workers_observed_for", json!(ns));
    }
    // observed behaviour: the batch size the server RUNS with equals the written one. The real
    // configuration path (YAML file -> make_config -> Server::new) is used in-process; 2b+1 requests
    // are queued before the first step, so the batches must be exactly {b, b, 1}.
    let behav_n = AtomicU64::new(0);
    {
        crate::inproc::init();
        let bs: Vec<u32> = ctx.tier.pick(vec![1, 2, 3, 5, 6, 7, 12, 31, 33, 63, 64], (1..=64).collect());
        let lt_pk = rtref::crypto::public_key(&rtref::crypto::unhex(BASE_SEED_HEX).try_into().unwrap());
        par_for(bs.len(), 1, |k, _| {
            let b = bs[k] as usize;
            let dir = crate::proc::scratch_dir();
            let mut w = Written::base(8686);
            w.set("batch_size", &b.to_string());
            let path = dir.join("behaviour.yaml");
            let _ = std::fs::write(&path, w.yaml());
            let r = (|| -> Result<Vec<usize>, String> {
                let cfg = roughenough::config::make_config(path.to_str().unwrap()).map_err(|e| format!("{:?}", e))?;
                let std_sock = std::net::UdpSocket::bind("127.0.0.1:0").map_err(|e| e.to_string())?;
                std_sock.set_nonblocking(true).unwrap();
                {
                    use std::os::unix::io::AsRawFd;
                    crate::inproc::set_rcvbuf(std_sock.as_raw_fd(), 8 << 20); // 129 queued datagrams must fit
                }
                let addr = std_sock.local_addr().unwrap();
                let sock = mio::net::UdpSocket::from_socket(std_sock).map_err(|e| e.to_string())?;
                let queue = std::sync::Arc::new(roughenough::stats::StatsQueue::new(4));
                let mut server = crate::util::catch(|| roughenough::server::Server::new(cfg.as_ref(), sock, queue))?;
                let n = 2 * b + 1;
                let clients: Vec<crate::inproc::Client> = (0..n).map(|_| crate::inproc::Client::new()).collect();
                let reqs: Vec<Vec<u8>> = (0..n).map(|i| rtref::responder::std_request(rtref::Version::Classic, &crate::inproc::nonce(0x1600 + i as u64, 64))).collect();
                for (c, r) in clients.iter().zip(&reqs) {
                    c.send(addr, r);
                }
                let mut events = mio::Events::with_capacity(1024);
                for _ in 0..8 {
                    crate::util::catch(|| server.process_events(&mut events))?;
                }
                let mut groups: BTreeMap<Vec<u8>, usize> = BTreeMap::new();
                for (c, r) in clients.iter().zip(&reqs) {
                    for (d, _) in c.drain() {
                        if let Ok(info) = rtref::verifier::authentic(&d, r, rtref::Version::Classic, Some(&lt_pk), rtref::verifier::SERVER_VIEW) {
                            *groups.entry(info.srep_bytes).or_insert(0) += 1;
                        }
                    }
                }
                let mut v: Vec<usize> = groups.values().copied().collect();
                v.sort();
                Ok(v)
            })();
            let _ = std::fs::remove_dir_all(&dir);
            behav_n.fetch_add(1, Relaxed);
            match r {
                Err(e) => ctx.violation("behaviour-probe-failed", "batch_size", "observed-behaviour", json!({"kind":"behaviour","batch_size":b,"error":e})),
                Ok(got) => {
                    let mut want = vec![1, b, b];
                    want.sort();
                    if got != want {
                        ctx.violation("effective-differs-from-written", "batch_size", "observed-behaviour", json!({"kind":"behaviour","batch_size":b,"message":format!("written batch_size {} but {} queued requests were answered in batches {:?} (expected {:?})", b, 2 * b + 1, got, want)}));
                    }
                }
            }
        });
    }
    // observed behaviour: the share of deliberately invalid replies the server PRODUCES matches the
    // written fault_percentage (0 -> none; 10 -> 2..30%; 25 -> 10..45%; 49/50 -> 29/30..69/70% of 600
    // replies; the bands are > 9 sigma wide, so this is a dichotomy, not a rate estimate)
    {
        crate::inproc::init();
        let lt_pk = rtref::crypto::public_key(&rtref::crypto::unhex(BASE_SEED_HEX).try_into().unwrap());
        let plans: Vec<(u32, f64, f64)> = vec![(0, 0.0, 0.0), (10, 0.02, 0.30), (25, 0.10, 0.45), (49, 0.29, 0.69), (50, 0.30, 0.70)];
        par_for(plans.len(), 1, |k, _| {
            let (p, lo, hi) = plans[k];
            let dir = crate::proc::scratch_dir();
            let mut w = Written::base(8686);
            w.set("fault_percentage", &p.to_string());
            let path = dir.join("behaviour-fault.yaml");
            let _ = std::fs::write(&path, w.yaml());
            let r = (|| -> Result<(usize, usize), String> {
                use std::os::unix::io::AsRawFd;
                let cfg = roughenough::config::make_config(path.to_str().unwrap()).map_err(|e| format!("{:?}", e))?;
                let std_sock = std::net::UdpSocket::bind("127.0.0.1:0").map_err(|e| e.to_string())?;
                std_sock.set_nonblocking(true).unwrap();
                crate::inproc::set_rcvbuf(std_sock.as_raw_fd(), 8 << 20);
                let addr = std_sock.local_addr().unwrap();
                let sock = mio::net::UdpSocket::from_socket(std_sock).map_err(|e| e.to_string())?;
                let queue = std::sync::Arc::new(roughenough::stats::StatsQueue::new(4));
                let mut server = crate::util::catch(|| roughenough::server::Server::new(cfg.as_ref(), sock, queue))?;
                let mut events = mio::Events::with_capacity(1024);
                let (mut total, mut invalid) = (0usize, 0usize);
                for round in 0..20 {
                    let clients: Vec<crate::inproc::Client> = (0..30).map(|_| crate::inproc::Client::new()).collect();
                    let reqs: Vec<Vec<u8>> = (0..30).map(|i| rtref::responder::std_request(rtref::Version::Classic, &crate::inproc::nonce(0xfa_0000 + (round * 30 + i) as u64, 64))).collect();
                    for (c, r) in clients.iter().zip(&reqs) {
                        c.send(addr, r);
                    }
                    for _ in 0..6 {
                        crate::util::catch(|| server.process_events(&mut events))?;
                    }
                    for (c, r) in clients.iter().zip(&reqs) {
                        for (d, _) in c.drain() {
                            total += 1;
                            if rtref::verifier::authentic(&d, r, rtref::Version::Classic, Some(&lt_pk), rtref::verifier::SERVER_VIEW).is_err() {
                                invalid += 1;
                            }
                        }
                    }
                }
                Ok((total, invalid))
            })();
            let _ = std::fs::remove_dir_all(&dir);
            behav_n.fetch_add(1, Relaxed);
            match r {
                Err(e) => ctx.violation("behaviour-probe-failed", "fault_percentage", "observed-behaviour", json!({"kind":"behaviour-fault","written_fault_percentage":p,"error":e})),
                Ok((total, invalid)) => {
                    let share = invalid as f64 / total.max(1) as f64;
                    if total < 500 || share < lo || share > hi {
                        ctx.violation("effective-differs-from-written", "fault_percentage", "observed-invalid-share", json!({"kind":"behaviour-fault","written_fault_percentage":p,"replies":total,"invalid":invalid,"share":share,"accepted_band":[lo, hi],
                            "message":format!("fault_percentage {} is written; {} of {} replies were deliberately invalid", p, invalid, total)}));
                    }
                }
            }
        });
    }
    // observed behaviour of status_interval with per-client statistics: the reporter persists a
    // statistics file every status_interval seconds while there is traffic — with 1 a file must
    // appear within 3.5 s, with 600 none may (both sources, real binary)
    {
        let cases: Vec<(u32, Source)> = vec![(1, Source::File), (1, Source::Env), (600, Source::File)];
        let results: Mutex<Vec<(u32, Source, usize, String)>> = Mutex::new(vec![]);
        std::thread::scope(|sc| {
            for (iv, src) in cases.iter().cloned() {
                let results = &results;
                let failed = &failed;
                sc.spawn(move || {
                    let dir = crate::proc::scratch_dir();
                    let dirs = dir.display().to_string();
                    let r = crate::proc::start_serving(
                        &|port| {
                            let mut w = Written::base(port);
                            w.set("num_workers", "1");
                            w.set("client_stats", "on");
                            w.set("persistence_directory", &dirs);
                            w.set("status_interval", &iv.to_string());
                            w
                        },
                        src,
                        1,
                        Duration::from_secs(10),
                    );
                    match r {
                        Err(e) => *failed.lock().unwrap() = Some(e),
                        Ok((mut sp, port)) => {
                            let lt_pk = rtref::crypto::public_key(&rtref::crypto::unhex(BASE_SEED_HEX).try_into().unwrap());
                            let t = std::time::Instant::now();
                            while t.elapsed() < Duration::from_millis(3500) {
                                let _ = crate::proc::probe_workers(port, &lt_pk, 2, 8, false);
                                std::thread::sleep(Duration::from_millis(40));
                            }
                            let files = std::fs::read_dir(&dir).map(|rd| rd.flatten().filter(|e| e.file_name().to_string_lossy().ends_with(".csv.zst")).count()).unwrap_or(0);
                            let shown = sp.stdout().lines().find(|l| l.contains("Status updates every")).unwrap_or("").to_string();
                            results.lock().unwrap().push((iv, src, files, shown));
                            sp.kill();
                        }
                    }
                    let _ = std::fs::remove_dir_all(&dir);
                });
            }
        });
        for (iv, src, files, shown) in results.lock().unwrap().iter() {
            behav_n.fetch_add(1, Relaxed);
            let ok = if *iv == 1 { *files >= 1 } else { *files == 0 };
            if !ok {
                ctx.violation("effective-differs-from-written", "status_interval", "observed-behaviour", json!({"kind":"behaviour","status_interval":iv,"source":format!("{:?}", src),"message":format!("written status_interval {} s: {} statistics file(s) persisted within 3.5 s of traffic (expected {}); server displayed: {}", iv, files, if *iv == 1 { ">= 1" } else { "0" }, shown)}));
            }
        }
    }
    if let Some(e) = failed.lock().unwrap().take() {
        return Err(e);
    }
    let _ = std::fs::remove_dir_all(&pdir);
    ctx.cov("behaviour_probes", json!(behav_n.load(Relaxed)));
    ctx.cov("evaluations", json!(evals.load(Relaxed) + real_n.load(Relaxed)));
    ctx.cov("distinct_nontrivial", json!(nontrivial.load(Relaxed) + real_n.load(Relaxed)));
    ctx.cov("grid_points", json!(g.len()));
    ctx.cov("real_server_starts", json!(real_n.load(Relaxed)));
    ctx.cov("outcome_classes", json!(*classes.lock().unwrap()));
    ctx.cov("exhaustive", json!(true));
    ctx.cov("bound", json!({"deviations": ctx.tier.pick(1, 2), "keys": 10}));
    ctx.cov("rule", json!("configuration grid: for each documented key a boundary value list (minimum-1, minimum, typical, maximum, maximum+1, type-width wrap points 255/256/300/65535/65536/70000 and their modular images, negatives, non-numeric, empty; seed strings of length 62/63/66, non-hex, upper-case; client_stats spellings; missing required keys; an unknown file key); every (key,value) as ONE deviation from each of two valid bases (minimal; every optional key set, incl. per-client statistics with a writable directory) through the real make_config + is_valid_config in a probe process, from the YAML file and from the environment (thorough: all pairs of numeric deviations); plus the real server binary started on every 1-deviation point. Oracle (reference semantics of the documented keys): outcome is refused, or accepted with every getter equal to the written value; documented in-range values must be accepted; out-of-range/missing/unknown must be refused; file and ENV agree; the real binary refuses exactly what the probe refuses and displays the probe's values; observed behaviour: a Server built through the real file configuration path answers 2b+1 queued requests in batches of exactly {b, b, 1} for the written batch_size b; with per-client statistics the real binary persists a statistics file within 3.5 s of traffic for status_interval 1 and none for 600."));
    ctx.sample(json!({"key":"port","value":"70000","source":"File","expect":"refused"}));
    ctx.sample(json!({"key":"num_workers","value":"4","source":"Env","expect":"accepted, effective 4"}));
    ctx.assume("environment variable names follow the README table's pattern ROUGHENOUGH_<KEY>; num_workers/client_stats/persistence_directory are documented in the ServerConfig trait docs");
    Ok(())
}

pub fn replay_case(c: &Value) -> Result<Option<String>, String> {
    if c["kind"] != "probe" {
        return Err("replay of this case kind: re-run the check".into());
    }
    let mut w = Written { pairs: vec![] };
    for p in c["written"].as_array().ok_or("written")? {
        let s = p.as_str().unwrap_or("");
        if let Some((k, v)) = s.split_once('=') {
            w.pairs.push((k.to_string(), v.to_string()));
        }
    }
    let src = if c["source"] == "Env" { Source::Env } else { Source::File };
    let o = cfgprobe(&w, src)?;
    let key = c["key"].as_str().unwrap_or("");
    let lit = c["value"].as_str().unwrap_or("");
    let want = grid("").into_iter().find(|g| g.0 == key && g.1 == lit).map(|g| g.2).unwrap_or(Want::Either);
    Ok(judge(&w, &o, &[(key, want)]).map(|(a, b, m)| format!("{} {} {}", a, b, m)))
}
