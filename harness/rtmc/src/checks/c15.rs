//! C15 — every documented in-range configuration yields a fully serving server.
//!   part 1: configuration product on the real binary (E-PROC b)
//!   part 2: start-up schedules (E-SCHED)                      -> sched.rs
//!   part 3: health-check event orders on an in-process Server (E-STATE)

use crate::ev::{Ctx, Tier};
use crate::inproc::{nonce, Client, Srv, SrvCfg};
use crate::proc::{free_port, health_probe, probe_workers, ServerProc, Source, Written, BASE_SEED_HEX, HTTP_RESPONSE};
use crate::util::par_for;
use rtref::crypto;
use serde_json::{json, Value};
use std::collections::{BTreeMap, BTreeSet};
use std::io::Read;
use std::net::TcpStream;
use std::sync::atomic::{AtomicU64, Ordering::Relaxed};
use std::sync::Mutex;
use std::time::Duration;

#[derive(Clone, Debug, PartialEq, Eq, PartialOrd, Ord)]
pub struct Point {
    pub workers: usize,
    pub health: bool,
    pub batch: u8,
    pub fault: u8,
    pub interval: u32,
    pub stats: bool,
    pub env: bool,
}

impl Point {
    fn factors(&self) -> [usize; 7] {
        [self.workers, self.health as usize, self.batch as usize, self.fault as usize, self.interval as usize, self.stats as usize, self.env as usize]
    }
    pub fn to_json(&self) -> Value {
        json!({"num_workers":self.workers,"health_check_port":self.health,"batch_size":self.batch,"fault_percentage":self.fault,"status_interval":self.interval,"client_stats":self.stats,"source":if self.env {"ENV"} else {"file"}})
    }
}

fn levels() -> Vec<Vec<usize>> {
    vec![(1..=16).collect(), vec![0, 1], vec![1, 2, 63, 64], vec![0, 1, 50], vec![1, 10, 600], vec![0, 1], vec![0, 1]]
}

fn point_of(v: &[usize]) -> Point {
    Point { workers: v[0], health: v[1] == 1, batch: v[2] as u8, fault: v[3] as u8, interval: v[4] as u32, stats: v[5] == 1, env: v[6] == 1 }
}

pub fn full_product() -> Vec<Point> {
    let l = levels();
    let mut out = vec![];
    let mut idx = vec![0usize; l.len()];
    loop {
        out.push(point_of(&idx.iter().enumerate().map(|(i, &k)| l[i][k]).collect::<Vec<_>>()));
        let mut i = 0;
        loop {
            idx[i] += 1;
            if idx[i] < l[i].len() {
                break;
            }
            idx[i] = 0;
            i += 1;
            if i == l.len() {
                return out;
            }
        }
    }
}

/// Greedy all-pairs covering array over the same factors.
pub fn pairwise() -> Vec<Point> {
    let l = levels();
    let all = full_product();
    let mut uncovered: BTreeSet<(usize, usize, usize, usize)> = BTreeSet::new();
    for a in 0..l.len() {
        for b in a + 1..l.len() {
            for &x in &l[a] {
                for &y in &l[b] {
                    uncovered.insert((a, x, b, y));
                }
            }
        }
    }
    let mut chosen = vec![];
    while !uncovered.is_empty() {
        let mut best = (0usize, 0usize);
        for (i, p) in all.iter().enumerate() {
            let f = p.factors();
            let mut c = 0;
            for a in 0..7 {
                for b in a + 1..7 {
                    if uncovered.contains(&(a, f[a], b, f[b])) {
                        c += 1;
                    }
                }
            }
            if c > best.0 {
                best = (c, i);
            }
        }
        let f = all[best.1].factors();
        for a in 0..7 {
            for b in a + 1..7 {
                uncovered.remove(&(a, f[a], b, f[b]));
            }
        }
        chosen.push(all[best.1].clone());
    }
    chosen
}

/// Requests of both protocols queued on one worker's socket while the whole server process is stopped
/// (SIGSTOP), so that the worker finds them together when it runs again (SIGCONT): each of them must be
/// answered. Returns (requests sent, requests left unanswered).
fn mixed_batch_probe(sp: &ServerProc, n: usize) -> (usize, usize) {
    use rtref::Version::{Classic, Ietf13};
    let addr: std::net::SocketAddr = format!("127.0.0.1:{}", sp.port).parse().unwrap();
    sp.signal(libc::SIGSTOP);
    let stopped = |pid: u32| std::fs::read_to_string(format!("/proc/{}/stat", pid)).map(|s| s.rsplit(')').next().map(|r| r.trim_start().starts_with('T')).unwrap_or(false)).unwrap_or(false);
    let t0 = std::time::Instant::now();
    while !stopped(sp.pid) && t0.elapsed() < Duration::from_millis(500) {
        std::thread::sleep(Duration::from_millis(2));
    }
    let plans: Vec<Vec<rtref::Version>> = (0..(2 * n + 2).min(8)).map(|k| match k % 3 { 0 => vec![Classic, Ietf13], 1 => vec![Ietf13, Classic], _ => vec![Ietf13, Classic, Ietf13] }).collect();
    let socks: Vec<std::net::UdpSocket> = plans.iter().map(|_| std::net::UdpSocket::bind("127.0.0.1:0").unwrap()).collect();
    let mut sent = 0;
    for (si, (s, plan)) in socks.iter().zip(&plans).enumerate() {
        for (k, v) in plan.iter().enumerate() {
            let req = rtref::responder::std_request(*v, &nonce(0x3b00_0000 + (si * 16 + k) as u64, v.nonce_len()));
            if s.send_to(&req, addr).is_ok() {
                sent += 1;
            }
        }
    }
    sp.signal(libc::SIGCONT);
    let mut got = 0;
    let mut buf = [0u8; 4096];
    let deadline = std::time::Instant::now() + Duration::from_millis(4000);
    for (s, plan) in socks.iter().zip(&plans) {
        let mut mine = 0;
        while mine < plan.len() {
            let left = deadline.saturating_duration_since(std::time::Instant::now());
            if left.is_zero() {
                break;
            }
            s.set_read_timeout(Some(left.max(Duration::from_millis(1)))).unwrap();
            match s.recv_from(&mut buf) {
                Ok(_) => mine += 1,
                Err(e) if e.kind() == std::io::ErrorKind::Interrupted => continue,
                Err(_) => break,
            }
        }
        got += mine.min(plan.len());
    }
    (sent, sent.saturating_sub(got))
}

pub struct StartObs {
    /// requests of a mixed classic/IETF group queued on one socket that were left unanswered
    pub mixed_unanswered: (usize, usize),
    pub exited: Option<(Option<i32>, Option<i32>)>,
    pub blocks: usize,
    pub live_workers: BTreeSet<String>,
    pub reporter_thread: bool,
    pub serving_keys: usize,
    pub unauthentic: usize,
    pub health: Option<Result<Vec<u8>, String>>,
    pub panicked: bool,
    pub stderr_head: Vec<String>,
    pub stderr_full: String,
}

pub fn observe_start(w: &Written, src: Source, n: usize, hport: Option<u16>, fault: bool) -> Result<StartObs, String> {
    // an external process grabbing one of our ports between the free-port test and the bind is a
    // machinery matter: move to fresh ports and start again
    let mut w = w.clone();
    let mut hport = hport;
    for _ in 0..3 {
        let o = observe_start_once(&w, src, n, hport, fault)?;
        let ports: Vec<u16> = w.get("port").and_then(|p| p.parse().ok()).into_iter().chain(hport).collect();
        if o.exited.is_some() && crate::proc::external_port_collision(&o.stderr_full, &ports) {
            w.set("port", &free_port().to_string());
            if hport.is_some() {
                let h = free_port();
                w.set("health_check_port", &h.to_string());
                hport = Some(h);
            }
            continue;
        }
        return Ok(o);
    }
    observe_start_once(&w, src, n, hport, fault)
}

fn observe_start_once(w: &Written, src: Source, n: usize, hport: Option<u16>, fault: bool) -> Result<StartObs, String> {
    let t0 = std::time::Instant::now();
    let timing = std::env::var("VERIF_TIMING").is_ok();
    let mut sp = ServerProc::start(w, src, &[])?;
    let blocks = sp.wait_started(n, Duration::from_secs(20));
    let t_started = t0.elapsed().as_secs_f64();
    // settle: a dying worker takes a moment to unwind
    std::thread::sleep(Duration::from_millis(30));
    let exited = sp.try_status();
    let names = sp.thread_names();
    let live_workers: BTreeSet<String> = names.iter().filter(|x| x.starts_with("worker-")).cloned().collect();
    let reporter_thread = names.iter().any(|x| x.starts_with("stats-reporting"));
    let lt_pk = crypto::public_key(&crypto::unhex(BASE_SEED_HEX).try_into().unwrap());
    let (keys, _sent, bad) = if exited.is_none() { probe_workers(sp.port, &lt_pk, n, 48 * n + 32, fault) } else { (BTreeMap::new(), 0, 0) };
    let t_probed = t0.elapsed().as_secs_f64();
    // a burst of requests sent back-to-back before any reply is read (every worker's socket holds a
    // queue when it wakes), then every worker must still be alive and serving
    let bsz: usize = w.get("batch_size").and_then(|b| b.parse().ok()).unwrap_or(64);
    let (keys, bad) = if exited.is_none() && !keys.is_empty() && bsz <= 2 {
        // each socket's datagrams all reach one worker (SO_REUSEPORT hashes the source port): 16*b+8
        // requests from one socket queue up on that worker faster than it drains them
        let addr: std::net::SocketAddr = format!("127.0.0.1:{}", sp.port).parse().unwrap();
        let socks: Vec<std::net::UdpSocket> = (0..4).map(|_| std::net::UdpSocket::bind("127.0.0.1:0").unwrap()).collect();
        for (si, s) in socks.iter().enumerate() {
            for k in 0..(16 * bsz + 8) {
                let v = if (k + si) % 2 == 0 { rtref::Version::Classic } else { rtref::Version::Ietf13 };
                let req = rtref::responder::std_request(v, &nonce(0xb0057 + (si * 1000 + k) as u64, v.nonce_len()));
                let _ = s.send_to(&req, addr);
            }
        }
        std::thread::sleep(Duration::from_millis(80));
        drop(socks);
        if sp.try_status().is_some() {
            (BTreeMap::new(), bad)
        } else {
            let (k2, _s2, b2) = probe_workers(sp.port, &lt_pk, n, 48 * n + 32, fault);
            (k2, bad + b2)
        }
    } else {
        (keys, bad)
    };
    let mixed_unanswered = if sp.try_status().is_none() && !keys.is_empty() { mixed_batch_probe(&sp, n) } else { (0, 0) };
    let exited = sp.try_status();
    let names = sp.thread_names();
    let live_workers: BTreeSet<String> = names.iter().filter(|x| x.starts_with("worker-")).cloned().collect();
    let health = if exited.is_none() { hport.map(|p| health_probe(p, Duration::from_secs(2))) } else { None };
    let se = sp.stderr();
    let obs = StartObs {
        mixed_unanswered,
        exited,
        blocks,
        live_workers,
        reporter_thread,
        serving_keys: keys.len(),
        unauthentic: bad,
        health,
        panicked: se.contains("panicked"),
        stderr_full: se.clone(),
        stderr_head: se.lines().filter(|l| l.contains("panicked") || l.contains("Error") || l.contains("error")).take(3).map(|s| s.to_string()).collect(),
    };
    sp.kill();
    if timing && t0.elapsed().as_secs_f64() > 4.0 {
        eprintln!("    slow point n={} fault={} health={}: started {:.1}s probed {:.1}s total {:.1}s keys {}", n, fault, hport.is_some(), t_started, t_probed, t0.elapsed().as_secs_f64(), obs.serving_keys);
    }
    Ok(obs)
}

fn written_for(p: &Point, port: u16, hport: Option<u16>, pdir: &str) -> Written {
    let mut w = Written::base(port);
    w.set("num_workers", &p.workers.to_string());
    if let Some(h) = hport {
        w.set("health_check_port", &h.to_string());
    }
    w.set("batch_size", &p.batch.to_string());
    w.set("fault_percentage", &p.fault.to_string());
    w.set("status_interval", &p.interval.to_string());
    if p.stats {
        w.set("client_stats", "on");
        w.set("persistence_directory", pdir);
    }
    w
}

fn judge_start(ctx: &Ctx, o: &StartObs, n: usize, health: bool, stats: bool, detail: &dyn Fn(String) -> Value, class: &str) {
    if let Some((code, sig)) = o.exited {
        ctx.violation("start-failed", if o.stderr_full.contains("failed to bind TCP listener") { "health-listener-bind" } else { "other" }, class, detail(format!("server exited during start-up: code {:?} signal {:?}", code, sig)));
        return;
    }
    let want: BTreeSet<String> = (0..n).map(|i| format!("worker-{}", i)).collect();
    if !want.is_subset(&o.live_workers) || o.serving_keys < n {
        let site = if o.stderr_full.contains("failed to bind TCP listener") { "health-listener-bind" } else if o.panicked { "worker-panic" } else { "other" };
        ctx.violation("fewer-live-workers", site, class, detail(format!("configured {} workers; live worker threads {:?}; distinct delegated keys answering {}; start-up blocks {}", n, o.live_workers.len(), o.serving_keys, o.blocks)));
    } else if o.panicked {
        ctx.violation("panic-output", "stderr", class, detail("panic text on stderr".into()));
    }
    if o.mixed_unanswered.1 > 0 {
        ctx.violation("request-unanswered", "mixed-protocol-group", class, detail(format!("classic and IETF requests queued together on workers' sockets (server stopped with SIGSTOP while they were sent, then continued): {} of {} left unanswered by a live server", o.mixed_unanswered.1, o.mixed_unanswered.0)));
    }
    if o.unauthentic > 0 {
        ctx.violation("unauthentic-reply", "reply", class, detail(format!("{} replies failed verification with fault_percentage 0", o.unauthentic)));
    }
    if health {
        match &o.health {
            Some(Ok(b)) if b == HTTP_RESPONSE.as_bytes() => {}
            Some(Ok(b)) => ctx.violation("health-check-reply-differs", "health", class, detail(format!("got {:?}", String::from_utf8_lossy(b)))),
            Some(Err(e)) => ctx.violation("health-check-unanswered", "health", class, detail(e.clone())),
            None => {}
        }
    }
    // (the statement says nothing about the statistics reporter thread; its presence is recorded
    // in the evidence only — an earlier version of this check demanded it and raced with main)
    let _ = stats;
}

// ---------------------------------------------------------------------------------------------
// part 3: health-check event orders in-process

#[derive(Clone, Copy, Debug, PartialEq, Eq)]
enum HEv {
    Connect,
    Send,
    Step,
    /// a health-check connection the peer aborts (RST via SO_LINGER 0) right after the handshake,
    /// as load-balancer probes do: the worker meets a connection that is already dead
    ConnectAbort,
    /// a UDP datagram that is not a request (zero-length / a short probe)
    Junk,
    /// a health-check connection whose peer closes its sending side right away (`nc host port
    /// </dev/null`, shutdown(SHUT_WR)) and waits for the answer: it is owed the response like any other
    ConnectHalfClose,
}

fn health_history(h: &[HEv]) -> Result<Option<(String, String)>, String> {
    health_history_bs(h, 64)
}

fn health_history_bs(h: &[HEv], batch_size: u8) -> Result<Option<(String, String)>, String> {
    let mut srv = Srv::new(&SrvCfg { health: true, batch_size, ..Default::default() })?;
    let haddr = srv.health_addr.unwrap();
    let lt_pk = crypto::public_key(&srv.cfg.seed);
    let mut conns: Vec<TcpStream> = vec![];
    let mut udp: Vec<(Client, Vec<u8>)> = vec![];
    for (k, e) in h.iter().enumerate() {
        match e {
            HEv::Connect => match crate::util::tcp_connect(&haddr, Duration::from_secs(2)) {
                Ok(s) => conns.push(s),
                Err(e) => return Ok(Some(("health-connect-refused".into(), format!("event {}: {}", k, e)))),
            },
            HEv::ConnectAbort => match crate::util::tcp_connect(&haddr, Duration::from_secs(2)) {
                Ok(s) => {
                    use std::os::unix::io::AsRawFd;
                    let lg = libc::linger { l_onoff: 1, l_linger: 0 };
                    unsafe {
                        libc::setsockopt(s.as_raw_fd(), libc::SOL_SOCKET, libc::SO_LINGER, &lg as *const _ as *const libc::c_void, std::mem::size_of::<libc::linger>() as libc::socklen_t);
                    }
                    drop(s); // close() with linger 0 sends RST
                }
                Err(e) => return Ok(Some(("health-connect-refused".into(), format!("event {}: {}", k, e)))),
            },
            HEv::ConnectHalfClose => match crate::util::tcp_connect(&haddr, Duration::from_secs(2)) {
                Ok(s) => {
                    let _ = s.shutdown(std::net::Shutdown::Write);
                    conns.push(s);
                }
                Err(e) => return Ok(Some(("health-connect-refused".into(), format!("event {}: {}", k, e)))),
            },
            HEv::Junk => {
                let c = Client::new();
                c.send(srv.addr, if k % 2 == 0 { &[][..] } else { &b"probe"[..] });
            }
            HEv::Send => {
                let c = Client::new();
                let req = rtref::responder::std_request(rtref::Version::Classic, &nonce(0x1500 + k as u64, 64));
                c.send(srv.addr, &req);
                udp.push((c, req));
            }
            HEv::Step => {
                if let Err(p) = srv.step() {
                    return Ok(Some(("panic".into(), p)));
                }
            }
        }
    }
    // quiescence: the loop keeps being driven (as the real worker loop does every 100 ms). The
    // kernel may complete a loopback handshake a little after connect() returned, so the loop is
    // driven until every connection has been served and closed, or a deadline passes; a connection
    // the server leaves behind stays unserved however long the loop is driven.
    for s in conns.iter_mut() {
        s.set_nonblocking(true).unwrap();
    }
    let mut got: Vec<Vec<u8>> = vec![vec![]; conns.len()];
    let mut eof: Vec<bool> = vec![false; conns.len()];
    let deadline = std::time::Instant::now() + Duration::from_secs(4);
    let mut rounds = 0;
    loop {
        if let Err(p) = srv.step() {
            return Ok(Some(("panic".into(), p)));
        }
        rounds += 1;
        for (i, s) in conns.iter_mut().enumerate() {
            let mut buf = [0u8; 256];
            while !eof[i] {
                match s.read(&mut buf) {
                    Ok(0) => eof[i] = true,
                    Ok(n) => got[i].extend_from_slice(&buf[..n]),
                    Err(e) if e.kind() == std::io::ErrorKind::Interrupted => continue,
                    Err(_) => break,
                }
            }
        }
        if rounds >= 3 && (eof.iter().all(|e| *e) || std::time::Instant::now() > deadline) {
            break;
        }
        if rounds >= 3 {
            std::thread::sleep(Duration::from_millis(10));
        }
    }
    for i in 0..conns.len() {
        if got[i] != HTTP_RESPONSE.as_bytes() || !eof[i] {
            return Ok(Some(("health-connection-not-served".into(), format!("connection #{} of {}: got {} bytes, closed={} after {} idle iterations of the event loop", i, h.iter().filter(|e| **e == HEv::Connect || **e == HEv::ConnectHalfClose).count(), got[i].len(), eof[i], rounds))));
        }
    }
    for (c, req) in &udp {
        let got = c.drain();
        if got.len() != 1 || rtref::verifier::authentic(&got[0].0, req, rtref::Version::Classic, Some(&lt_pk), rtref::verifier::SERVER_VIEW).is_err() {
            return Ok(Some(("time-request-not-served".into(), format!("{} replies", got.len()))));
        }
    }
    Ok(None)
}

pub fn run(ctx: &Ctx) -> Result<(), String> {
    ctx.set_level("model_checking");
    crate::inproc::init();
    let evals = AtomicU64::new(0);
    let failed: Mutex<Option<String>> = Mutex::new(None);
    let classes: Mutex<BTreeMap<String, u64>> = Mutex::new(BTreeMap::new());
    let pdir = crate::proc::scratch_dir();
    let pdir_s = pdir.display().to_string();

    // part 1
    let points = match ctx.tier {
        Tier::Quick => pairwise(),
        Tier::Thorough => full_product(),
    };
    // heavy points (16 workers with per-client stats) limit parallelism by memory, not CPU
    let dead_starts = AtomicU64::new(0);
    par_for(points.len(), 1, |k, _| {
        let p = &points[k];
        // a tree on which a dozen configurations already failed to serve is broken; the remaining
        // points would add the same finding at the price of their timeouts
        if dead_starts.load(Relaxed) >= 12 {
            return;
        }
        let port = free_port();
        let hport = if p.health { Some(free_port()) } else { None };
        let w = written_for(p, port, hport, &pdir_s);
        let src = if p.env { Source::Env } else { Source::File };
        match observe_start(&w, src, p.workers, hport, p.fault > 0) {
            Err(e) => *failed.lock().unwrap() = Some(e),
            Ok(o) => {
                evals.fetch_add(1, Relaxed);
                if o.exited.is_some() || o.serving_keys < p.workers {
                    dead_starts.fetch_add(1, Relaxed);
                }
                let class = format!("{}{}", if p.health { "health_check_port set" } else { "no health check" }, if p.workers >= 2 { " && num_workers>=2" } else { " && num_workers=1" });
                let cls = format!("{}:{}", class, if o.exited.is_some() { "exited".to_string() } else { format!("{}of{}", o.serving_keys.min(p.workers), if o.serving_keys >= p.workers { "N" } else { "fewer" }) });
                *classes.lock().unwrap().entry(cls).or_insert(0) += 1;
                let pj = p.to_json();
                let se = o.stderr_head.clone();
                judge_start(ctx, &o, p.workers, p.health, p.stats, &|m| json!({"kind":"start","point":pj,"message":m,"stderr":se}), &class);
            }
        }
    });
    if let Some(e) = failed.lock().unwrap().take() {
        return Err(e);
    }
    ctx.lap("part 1 configuration points done");
    // the repository's own example.cfg, verbatim when its ports are free
    {
        let repo = std::env::var("VERIF_REPO").unwrap_or_else(|_| "/repo".into());
        let text = std::fs::read_to_string(format!("{}/example.cfg", repo)).map_err(|e| format!("example.cfg: {}", e))?;
        let mut w = Written { pairs: vec![] };
        for l in text.lines() {
            if let Some((k, v)) = l.split_once(':') {
                w.pairs.push((k.trim().to_string(), v.trim().to_string()));
            }
        }
        let busy = |p: u16| std::net::UdpSocket::bind(("127.0.0.1", p)).is_err() || std::net::TcpListener::bind(("127.0.0.1", p)).is_err();
        let mut remapped = false;
        if let Some(p) = w.get("port").and_then(|p| p.parse::<u16>().ok()) {
            if busy(p) {
                w.set("port", &free_port().to_string());
                remapped = true;
            }
        }
        if let Some(p) = w.get("health_check_port").and_then(|p| p.parse::<u16>().ok()) {
            if busy(p) {
                w.set("health_check_port", &free_port().to_string());
                remapped = true;
            }
        }
        let n = w.get("num_workers").and_then(|n| n.parse().ok()).unwrap_or_else(|| std::thread::available_parallelism().map(|n| n.get()).unwrap_or(1));
        let hport = w.get("health_check_port").and_then(|p| p.parse::<u16>().ok());
        let seed_ok = w.get("seed") == Some(BASE_SEED_HEX);
        if !seed_ok {
            return Err("example.cfg seed differs from the harness base seed; update BASE_SEED_HEX".into());
        }
        let o = observe_start(&w, Source::File, n, hport, false)?;
        evals.fetch_add(1, Relaxed);
        let class = format!("{}{}", if hport.is_some() { "health_check_port set" } else { "no health check" }, if n >= 2 { " && num_workers>=2" } else { " && num_workers=1" });
        let wj = w.to_json();
        judge_start(ctx, &o, n, hport.is_some(), false, &|m| json!({"kind":"start","point":"example.cfg","written":wj,"ports_remapped":remapped,"message":m}), &class);
        ctx.cov("example_cfg", json!({"workers": n, "ports_remapped": remapped, "serving_keys": o.serving_keys}));
    }
    let _ = std::fs::remove_dir_all(&pdir);

    ctx.lap("example.cfg done");
    // part 3: all sequences of length <= 5 over {connect_tcp, send(valid), step}
    let hist_n = AtomicU64::new(0);
    let transitions = AtomicU64::new(0);
    {
        let al = [HEv::Connect, HEv::Send, HEv::Step, HEv::ConnectAbort, HEv::Junk];
        let maxlen = ctx.tier.pick(5usize, 6);
        let mut hs = vec![];
        for l in 1..=maxlen {
            for mut idx in 0..5usize.pow(l as u32) {
                let mut h = vec![];
                for _ in 0..l {
                    h.push(al[idx % 5]);
                    idx /= 5;
                }
                hs.push(h);
            }
        }
        par_for(hs.len(), 4, |k, _| {
            hist_n.fetch_add(1, Relaxed);
            transitions.fetch_add(hs[k].len() as u64 + 3, Relaxed);
            // histories with datagrams that are not requests run with batch_size 1 (one stray fills
            // a whole batch); the others with the default
            let bs = if hs[k].iter().any(|e| *e == HEv::Junk) { 1 } else { 64 };
            match health_history_bs(&hs[k], bs) {
                Err(e) => *failed.lock().unwrap() = Some(e),
                Ok(None) => {}
                Ok(Some((clause, msg))) => {
                    let nconn = hs[k].iter().filter(|e| **e == HEv::Connect).count();
                    let burst = hs[k].windows(2).any(|w| w[0] == HEv::Connect && w[1] == HEv::Connect) || nconn >= 2;
                    ctx.violation(&clause, "handle_health_check", if burst { "connections>=2" } else { "single-connection" }, json!({"kind":"health-history","events":hs[k].iter().map(|e| format!("{:?}", e)).collect::<Vec<_>>(),"message":msg}));
                }
            }
        });
    }
    // half-closed connections: all sequences of length <= 4 over {half-closed connect, connect, send, step}
    {
        let al = [HEv::ConnectHalfClose, HEv::Connect, HEv::Send, HEv::Step];
        let mut hs = vec![];
        for l in 1..=4usize {
            for mut idx in 0..4usize.pow(l as u32) {
                let mut h = vec![];
                for _ in 0..l {
                    h.push(al[idx % 4]);
                    idx /= 4;
                }
                if h.contains(&HEv::ConnectHalfClose) {
                    hs.push(h);
                }
            }
        }
        par_for(hs.len(), 4, |k, _| {
            hist_n.fetch_add(1, Relaxed);
            transitions.fetch_add(hs[k].len() as u64 + 3, Relaxed);
            match health_history_bs(&hs[k], 64) {
                Err(e) => *failed.lock().unwrap() = Some(e),
                Ok(None) => {}
                Ok(Some((clause, msg))) => ctx.violation(&clause, "handle_health_check", "half-closed-connection", json!({"kind":"health-history","events":hs[k].iter().map(|e| format!("{:?}", e)).collect::<Vec<_>>(),"message":msg})),
            }
        });
    }
    // connection bursts: k connections pending when the worker handles the event (k around any
    // plausible per-event bound), alone and mixed with time requests
    {
        let ks: Vec<usize> = ctx.tier.pick(vec![2, 3, 8, 15, 16, 17, 31, 32, 33, 64, 100], (2..=130).collect());
        let mut hs: Vec<Vec<HEv>> = vec![];
        for &k in &ks {
            let mut h = vec![HEv::Connect; k];
            h.push(HEv::Step);
            hs.push(h.clone());
            let mut h2 = vec![HEv::Send];
            h2.extend(vec![HEv::Connect; k]);
            h2.push(HEv::Send);
            hs.push(h2);
            // two bursts separated by a step
            let mut h3 = vec![HEv::Connect; k];
            h3.push(HEv::Step);
            h3.extend(vec![HEv::Connect; k]);
            hs.push(h3);
        }
        par_for(hs.len(), 1, |k, _| {
            hist_n.fetch_add(1, Relaxed);
            transitions.fetch_add(hs[k].len() as u64 + 3, Relaxed);
            match health_history(&hs[k]) {
                Err(e) => *failed.lock().unwrap() = Some(e),
                Ok(None) => {}
                Ok(Some((clause, msg))) => {
                    let nconn = hs[k].iter().filter(|e| **e == HEv::Connect).count();
                    ctx.violation(&clause, "handle_health_check", if nconn > 16 { "connections>16" } else { "connections>=2" }, json!({"kind":"health-history","events":hs[k].iter().map(|e| format!("{:?}", e)).collect::<Vec<_>>(),"message":msg}));
                }
            }
        });
    }
    if let Some(e) = failed.lock().unwrap().take() {
        return Err(e);
    }
    // per-client statistics: two workers sharing the statistics queue (capacity 2W), every assignment
    // of 6 rounds (request, step, hand-off) to the workers x every position of the reporter's pass:
    // every worker stays alive and answers (deterministic counterpart of the status_interval points)
    {
        let (w, r) = (2usize, 6usize);
        let n = w.pow(r as u32) * (r + 1);
        par_for(n, 8, |code, _| {
            let drain = code % (r + 1);
            let mut a = code / (r + 1);
            let ws: Vec<usize> = (0..r).map(|_| { let x = a % w; a /= w; x }).collect();
            let drain_after = if drain == r { None } else { Some(drain) };
            hist_n.fetch_add(1, Relaxed);
            transitions.fetch_add(3 * r as u64 + w as u64, Relaxed);
            match super::c18::shared_queue_history(w, &ws, drain_after) {
                Err(e) => *failed.lock().unwrap() = Some(e),
                Ok(None) => {}
                Ok(Some((clause, msg))) => ctx.violation(if clause == "panic" { "fewer-live-workers" } else { &clause }, "worker-panic", "client_stats on/statistics hand-off", json!({"kind":"shared-queue","workers":w,"worker_per_round":ws,"reporter_drains_after_round":drain_after,"message":msg})),
            }
        });
        if let Some(e) = failed.lock().unwrap().take() {
            return Err(e);
        }
    }
    ctx.lap("part 3 health histories done");
    // part 2: start-up schedules under the controlled scheduler
    let sched = crate::sched::c15_startup_schedules(ctx)?;
    ctx.lap("part 2 start-up schedules done");
    // TLA+ lifecycle model (invariant NoWorkerLostBeforeSignal among others) bound to the
    // implementation by replaying a transition cover of its state graph
    let model = crate::sched::lifecycle_conformance(ctx, 2, true)?;
    ctx.cov("lifecycle_model", model);
    ctx.lap("lifecycle model done");

    ctx.cov("states", json!(classes.lock().unwrap().len() as u64 + hist_n.load(Relaxed) + sched.states));
    ctx.cov("transitions", json!(transitions.load(Relaxed) + sched.transitions + evals.load(Relaxed)));
    ctx.cov("traces_validated_against_impl", json!(evals.load(Relaxed) + hist_n.load(Relaxed) + sched.executions));
    ctx.cov("evaluations", json!(evals.load(Relaxed) + hist_n.load(Relaxed) + sched.executions));
    ctx.cov("distinct_nontrivial", json!(evals.load(Relaxed) + hist_n.load(Relaxed) + sched.executions));
    ctx.cov("configuration_points", json!(points.len()));
    ctx.cov("configuration_points_started", json!(evals.load(Relaxed)));
    ctx.cov("health_histories", json!(hist_n.load(Relaxed)));
    ctx.cov("startup_schedules", sched.to_json());
    ctx.cov("outcome_classes", json!(*classes.lock().unwrap()));
    ctx.cov("exhaustive", json!(sched.caps_hit.is_empty()));
    ctx.cov("caps_hit", json!(sched.caps_hit));
    ctx.cov("bound", json!({"configuration_space": ctx.tier.pick("all-pairs covering array of the 4608-point product", "full 4608-point product"), "health_history_len": ctx.tier.pick(5, 6)}));
    ctx.cov("rule", json!("(1) real server binary started on every point of the documented option space (num_workers 1..=16 x health_check_port absent/present x batch_size {1,2,63,64} x fault_percentage {0,1,50} x status_interval {1,10,600} x client_stats off/on+directory x file/ENV; quick: greedy all-pairs covering array; thorough: full product) and on the repository's example.cfg: process alive, thread names worker-0..N-1 (+stats-reporting iff client_stats), N distinct delegated keys answer authentic replies on the UDP port — before and, for batch_size <= 2, after bursts of 16*batch_size+8 requests from each of 4 sockets (each socket's traffic lands on one worker) —, the health port answers the fixed HTTP 200 bytes, no panic text; (2) start-up schedules under the controlled scheduler (see startup_schedules); (3) all sequences of length <= L over {connect_tcp, send(valid request), step, connect_tcp-then-abort(RST), send(datagram that is not a request)} on a real in-process Server with the health port on, driven to quiescence: every accepted TCP connection received exactly the fixed response and was closed, every UDP request answered; plus bursts of k connections (quick k in {2,..,100}, thorough every k 2..=130) pending before one step, alone, mixed with requests, and twice."));
    ctx.sample(json!({"kind":"start","point":{"num_workers":16,"health_check_port":true,"batch_size":63,"fault_percentage":1,"status_interval":10,"client_stats":true,"source":"ENV"}}));
    ctx.sample(json!({"kind":"health-history","events":["Connect","Connect","Send","Step"]}));
    ctx.assume("SO_REUSEPORT spreads 48*N+32 client sockets over all N workers (probability of missing a live worker < 1e-15)");
    Ok(())
}

pub fn replay_case(c: &Value) -> Result<Option<String>, String> {
    match c["kind"].as_str() {
        Some("schedule") => crate::sched::replay_schedule(c),
        Some("health-history") => {
            crate::inproc::init();
            let h: Vec<HEv> = c["events"].as_array().ok_or("events")?.iter().map(|e| match e.as_str() { Some("Connect") => HEv::Connect, Some("Send") => HEv::Send, Some("ConnectAbort") => HEv::ConnectAbort, Some("ConnectHalfClose") => HEv::ConnectHalfClose, Some("Junk") => HEv::Junk, _ => HEv::Step }).collect();
            let bs = if h.iter().any(|e| *e == HEv::Junk) { 1 } else { 64 };
            let r = crate::util::on_named_thread("worker-0", move || health_history_bs(&h, bs))?;
            Ok(r.map(|(a, b)| format!("{} {}", a, b)))
        }
        Some("start") if c["point"].is_object() => {
            let p = &c["point"];
            let pt = Point { workers: p["num_workers"].as_u64().unwrap_or(1) as usize, health: p["health_check_port"].as_bool().unwrap_or(false), batch: p["batch_size"].as_u64().unwrap_or(64) as u8, fault: p["fault_percentage"].as_u64().unwrap_or(0) as u8, interval: p["status_interval"].as_u64().unwrap_or(600) as u32, stats: p["client_stats"].as_bool().unwrap_or(false), env: p["source"] == "ENV" };
            let pdir = crate::proc::scratch_dir();
            let port = free_port();
            let hport = if pt.health { Some(free_port()) } else { None };
            let w = written_for(&pt, port, hport, &pdir.display().to_string());
            let o = observe_start(&w, if pt.env { Source::Env } else { Source::File }, pt.workers, hport, pt.fault > 0)?;
            let _ = std::fs::remove_dir_all(&pdir);
            if o.exited.is_some() || o.serving_keys < pt.workers {
                Ok(Some(format!("exited {:?}, serving {} of {}", o.exited, o.serving_keys, pt.workers)))
            } else {
                Ok(None)
            }
        }
        _ => Err("replay of this case kind: re-run the check".into()),
    }
}
