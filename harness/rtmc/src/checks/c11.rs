//! C11 (grid part) — signed midpoint is the clock in the protocol's unit with a 5 s radius.

use crate::ev::{Ctx, Tier};
use crate::util::{catch, hex, par_for};
use roughenough::key::OnlineKey;
use roughenough::Tag;
use rtref::{codec, crypto, Version};
use serde_json::{json, Value};
use std::sync::atomic::{AtomicU64, Ordering::Relaxed};
use std::time::{Duration, UNIX_EPOCH};

/// Check one make_srep output. Returns Some(clause, message) on violation.
pub fn check_srep(v: Version, out_sig: &[u8], srep_b: &[u8], online_pk: &[u8], secs: u64, nanos: u32, root: &[u8]) -> Option<(String, String)> {
    let srep = match codec::decode(srep_b) {
        Ok(s) => s,
        Err(e) => return Some(("srep-decode".into(), format!("{:?}", e))),
    };
    let want_midp = match v {
        Version::Classic => secs * 1_000_000 + (nanos as u64) / 1000,
        Version::Ietf13 => secs,
    };
    let want_radi: u32 = match v {
        Version::Classic => 5_000_000,
        Version::Ietf13 => 5,
    };
    let midp = srep.get("MIDP").map(|b| b.to_vec());
    if midp.as_deref() != Some(&want_midp.to_le_bytes()[..]) {
        return Some(("midp-not-clock".into(), format!("MIDP {:?} want {}", midp.map(|m| hex(&m)), want_midp)));
    }
    if srep.get("RADI") != Some(&want_radi.to_le_bytes()[..]) {
        return Some(("radius-not-5s".into(), format!("RADI {:?}", srep.get("RADI").map(hex))));
    }
    if srep.get("ROOT") != Some(root) {
        return Some(("root-not-echoed".into(), "ROOT".into()));
    }
    if v == Version::Ietf13 {
        if srep.get("VER") != Some(&rtref::proto::VER_IETF13[..]) {
            return Some(("srep-ver".into(), format!("{:?}", srep.get("VER").map(hex))));
        }
        match srep.get("VERS") {
            Some(vs) if vs.len() % 4 == 0 && vs.chunks(4).any(|c| c == rtref::proto::VER_IETF13) => {}
            other => return Some(("srep-vers".into(), format!("{:?}", other.map(hex)))),
        }
    }
    let mut m = v.srep_ctx().to_vec();
    m.extend_from_slice(srep_b);
    if !crypto::verify(online_pk, &m, out_sig) {
        return Some(("srep-sig-invalid".into(), "SIG".into()));
    }
    None
}

pub fn grid(tier: Tier) -> Vec<(u64, u32)> {
    let y2200 = 7_258_118_400u64;
    let y9999 = 253_402_300_799u64;
    let secs = [0u64, 1, 59, 60, 1_000_000_000, (1 << 31) - 1, 1 << 31, (1u64 << 32) - 1, 1 << 32, y2200, y9999, 1 << 40];
    let nanos = [0u32, 1, 999, 1000, 1001, 499_999_999, 999_999, 1_000_000, 999_999_000, 999_999_999];
    let mut g = vec![];
    for s in secs {
        for n in nanos {
            g.push((s, n));
        }
    }
    if tier == Tier::Thorough {
        // every second of one leap-year day (2024-02-29) x {0, 999999999}
        let base = 1_709_164_800u64;
        for s in 0..86400 {
            g.push((base + s, 0));
            g.push((base + s, 999_999_999));
        }
    }
    g
}

pub fn run_grid_part(ctx: &Ctx, evals: &AtomicU64, nontrivial: &AtomicU64) {
    let g = grid(ctx.tier);
    par_for(g.len(), 64, |k, _| {
        let (secs, nanos) = g[k];
        for v in [Version::Classic, Version::Ietf13] {
          // the root is an opaque value to the signer: one of this version's width and one of the other's
          for rw in [v.node_width(), 96 - v.node_width()] {
            evals.fetch_add(1, Relaxed);
            nontrivial.fetch_add(1, Relaxed);
            let root: Vec<u8> = (0..rw).map(|i| (i as u64 * 3 + secs) as u8).collect();
            let r = catch(|| {
                let mut ok = OnlineKey::new();
                let pk = ok.make_dele().get_field(Tag::PUBK).unwrap().to_vec();
                // two SREPs on the same key: the second must be independent of the first
                let _first = ok.make_srep(super::c10::rv(v), UNIX_EPOCH + Duration::new(secs / 2, 7), &root);
                let m = ok.make_srep(super::c10::rv(v), UNIX_EPOCH + Duration::new(secs, nanos), &root);
                (pk, m.get_field(Tag::SIG).map(|s| s.to_vec()), m.get_field(Tag::SREP).map(|s| s.to_vec()), m.num_fields())
            });
            let detail = |m: String| json!({"kind":"grid","version":v.name(),"secs":secs,"nanos":nanos,"root_len":rw,"message":m});
            match r {
                Err(p) => ctx.violation("panic", "make_srep", v.name(), detail(p)),
                Ok((pk, Some(sig), Some(srep), 2)) => {
                    if let Some((clause, msg)) = check_srep(v, &sig, &srep, &pk, secs, nanos, &root) {
                        ctx.violation(&clause, "make_srep", v.name(), detail(msg));
                    }
                }
                Ok(_) => ctx.violation("srep-shape", "make_srep", v.name(), detail("missing SIG/SREP".into())),
            }
          }
        }
    });
    ctx.cov("clock_grid_points", json!(g.len()));
}

pub fn replay_case(c: &Value) -> Result<Option<String>, String> {
    if c["kind"] != "grid" {
        return Err("replay of this case kind: re-run the check".into());
    }
    let v = if c["version"] == "classic" { Version::Classic } else { Version::Ietf13 };
    let secs = c["secs"].as_u64().ok_or("secs")?;
    let nanos = c["nanos"].as_u64().ok_or("nanos")? as u32;
    let root = vec![9u8; c["root_len"].as_u64().map(|l| l as usize).unwrap_or(v.node_width())];
    let mut ok = OnlineKey::new();
    let pk = ok.make_dele().get_field(Tag::PUBK).unwrap().to_vec();
    let m = ok.make_srep(super::c10::rv(v), UNIX_EPOCH + Duration::new(secs, nanos), &root);
    Ok(check_srep(v, m.get_field(Tag::SIG).unwrap(), m.get_field(Tag::SREP).unwrap(), &pk, secs, nanos, &root).map(|(a, b)| format!("{} {}", a, b)))
}

// ---------------------------------------------------------------------------------------------
// full check: grid + live bracket

pub fn run(ctx: &Ctx) -> Result<(), String> {
    use super::c09;
    use crate::inproc::{Srv, SrvCfg};
    use std::sync::Mutex;
    ctx.set_level("exploration");
    crate::inproc::init();
    let evals = AtomicU64::new(0);
    let nontrivial = AtomicU64::new(0);
    run_grid_part(ctx, &evals, &nontrivial);
    // live: every reply of the C09 histories bracketed by the harness clock
    let al = c09::alphabet();
    let depth = ctx.tier.pick(4usize, 5);
    let lt_pk = crypto::public_key(&crate::inproc::DEFAULT_SEED);
    let failed: Mutex<Option<String>> = Mutex::new(None);
    let live = AtomicU64::new(0);
    // mid-step arrivals: a request that reaches the socket while the worker is inside a wake-up (at
    // the polled / collected / sent point) is answered by a later batch of that wake-up; its
    // midpoint is the clock at THAT batch's signing, so not earlier than the request's send time
    let mut inject_hist: Vec<Vec<c09::Ev>> = vec![];
    {
        let pre = [c09::Ev::Req(0, Version::Classic), c09::Ev::Req(1, Version::Classic), c09::Ev::Req(0, Version::Ietf13)];
        let mut prefixes: Vec<Vec<c09::Ev>> = vec![vec![]];
        for a in pre {
            prefixes.push(vec![a]);
            for b in pre {
                prefixes.push(vec![a, b]);
            }
        }
        for p in &prefixes {
            for pt in 0..3u8 {
                for sock in 0..2usize {
                    for v in [Version::Classic, Version::Ietf13] {
                        let mut h = p.clone();
                        h.push(c09::Ev::StepInject(pt, sock, v));
                        inject_hist.push(h);
                    }
                }
            }
        }
    }
    for bs in [1u8, 2, 3] {
        let cfg = SrvCfg { batch_size: bs, ..Default::default() };
        let n = al.len().pow(depth as u32) + inject_hist.len();
        par_for(n, 16, |idx, _| {
            let nplain = al.len().pow(depth as u32);
            let h = if idx < nplain { c09::history_from_index(idx, depth, &al) } else { inject_hist[idx - nplain].clone() };
            let mut srv = match Srv::new(&cfg) {
                Ok(s) => s,
                Err(e) => {
                    *failed.lock().unwrap() = Some(e);
                    return;
                }
            };
            let mut obs = c09::run_events(&mut srv, &h, 2, false);
            let _ = c09::judge(&mut obs, &lt_pk, false);
            evals.fetch_add(1, Relaxed);
            for (ix, (_, v, info)) in obs.infos.iter().enumerate() {
                let (t_sent, t_recv) = obs.info_times[ix];
                live.fetch_add(1, Relaxed);
                nontrivial.fetch_add(1, Relaxed);
                let unit_us: u64 = match v {
                    Version::Classic => 1,
                    Version::Ietf13 => 1_000_000,
                };
                let want_radi: u32 = match v {
                    Version::Classic => 5_000_000,
                    Version::Ietf13 => 5,
                };
                let detail = |m: String| json!({"kind":"live","version":v.name(),"history":c09::hist_json(&cfg, &h),"midp":info.midp,"radi":info.radi,"t_before_us":obs.t_before_us,"t_after_us":obs.t_after_us,"message":m});
                if info.radi != want_radi {
                    ctx.violation("radius-not-5s", "reply", v.name(), detail("RADI".into()));
                }
                // the batch was signed after this request was sent and before its reply was received;
                // MIDP is the clock reading at signing in the protocol's unit (floor), so
                // (midp+1)*unit > t_sent and midp*unit <= t_recv
                let lo = info.midp.saturating_mul(unit_us);
                let hi = (info.midp + 1).saturating_mul(unit_us);
                if !(lo <= t_recv && hi > t_sent) {
                    ctx.violation("midp-not-clock", "reply", v.name(), detail(format!("midpoint outside the bracket [request sent {}, reply received {}] (us)", t_sent, t_recv)));
                }
                // and the true time of signing lies within midpoint +/- radius
                let r_us = (info.radi as u64).saturating_mul(unit_us);
                if !(lo.saturating_sub(r_us) <= t_recv && hi.saturating_add(r_us) >= t_sent) {
                    ctx.violation("true-time-outside-radius", "reply", v.name(), detail("true time not within midpoint +/- radius".into()));
                }
            }
        });
    }
    if let Some(e) = failed.lock().unwrap().take() {
        return Err(e);
    }
    // the real server binary started under several local time zones: the midpoint is the clock in
    // the protocol's unit since the Unix epoch whatever the zone the process runs in
    let mut zones_done = vec![];
    {
        use crate::proc::{free_port, ServerProc, Source, Written, BASE_SEED_HEX};
        let pk = crypto::public_key(&crypto::unhex(BASE_SEED_HEX).try_into().unwrap());
        let mut zones = vec!["UTC", "EST5EDT", "JST-9", "<+0545>-5:45"];
        if std::path::Path::new("/usr/share/zoneinfo/America/New_York").exists() {
            zones.push("America/New_York");
        }
        if std::path::Path::new("/usr/share/zoneinfo/Australia/Lord_Howe").exists() {
            zones.push("Australia/Lord_Howe");
        }
        let now_us = || std::time::SystemTime::now().duration_since(std::time::UNIX_EPOCH).unwrap().as_micros() as u64;
        for tz in zones {
            let mut served = false;
            for _attempt in 0..3 {
                let port = free_port();
                let mut w = Written::base(port);
                w.set("num_workers", "1");
                let mut sp = ServerProc::start(&w, Source::File, &[("TZ".to_string(), tz.to_string())])?;
                sp.wait_started(1, std::time::Duration::from_secs(10));
                if sp.try_status().is_some() {
                    sp.kill();
                    continue; // port taken meanwhile: another port
                }
                let addr: std::net::SocketAddr = format!("127.0.0.1:{}", port).parse().unwrap();
                for v in [Version::Classic, Version::Ietf13] {
                    let sock = std::net::UdpSocket::bind("127.0.0.1:0").map_err(|e| e.to_string())?;
                    sock.set_read_timeout(Some(std::time::Duration::from_secs(3))).unwrap();
                    let req = rtref::responder::std_request(v, &crate::inproc::nonce(0xc11_7a + zones_done.len() as u64, v.nonce_len()));
                    let t_sent = now_us();
                    let _ = sock.send_to(&req, addr);
                    let mut buf = [0u8; 4096];
                    let got = sock.recv_from(&mut buf);
                    let t_recv = now_us();
                    evals.fetch_add(1, Relaxed);
                    nontrivial.fetch_add(1, Relaxed);
                    let detail = |m: String| json!({"kind":"process-tz","tz":tz,"version":v.name(),"t_sent_us":t_sent,"t_recv_us":t_recv,"message":m});
                    match got {
                        Err(e) => ctx.violation("no-reply", "server-process", &format!("{}/TZ", v.name()), detail(format!("no reply: {}", e))),
                        Ok((l, _)) => match rtref::verifier::authentic(&buf[..l], &req, v, Some(&pk), rtref::verifier::SERVER_VIEW) {
                            Err(c) => ctx.violation("reply-not-authentic", c, &format!("{}/TZ", v.name()), detail(c.to_string())),
                            Ok(info) => {
                                let unit_us: u64 = if v == Version::Classic { 1 } else { 1_000_000 };
                                let lo = info.midp.saturating_mul(unit_us);
                                let hi = (info.midp + 1).saturating_mul(unit_us);
                                if !(lo <= t_recv && hi > t_sent) {
                                    ctx.violation("midp-not-clock", "server-process", &format!("{}/local-time-zone", v.name()), detail(format!("midpoint {} (x{} us) outside the bracket [request sent {}, reply received {}] with TZ={}", info.midp, unit_us, t_sent, t_recv, tz)));
                                }
                            }
                        },
                    }
                }
                sp.kill();
                served = true;
                break;
            }
            if !served {
                return Err(format!("real server did not start under TZ={}", tz));
            }
            zones_done.push(tz);
        }
    }
    ctx.cov("server_process_time_zones", json!(zones_done));
    ctx.cov("evaluations", json!(evals.load(Relaxed)));
    ctx.cov("distinct_nontrivial", json!(nontrivial.load(Relaxed)));
    ctx.cov("live_replies_bracketed", json!(live.load(Relaxed)));
    ctx.cov("exhaustive", json!(true));
    ctx.cov("rule", json!("grid: make_srep(version, clock, root) for clock seconds {0,1,59,60,1e9,2^31-1,2^31,2^32-1,2^32,year 2200,year 9999,2^40} x nanos {0,1,999,1000,1001,499999999,999999,1000000,999999000,999999999} (thorough: + every second of 2024-02-29 x {0,999999999}) x both versions x root widths {32, 64 bytes}, second SREP on a key that already signed one: MIDP == floor(clock / unit) (microseconds classic, seconds IETF), RADI == 5 s in that unit, ROOT echoed, IETF VER/VERS present, SIG verifies under the online key with the response context. Live: every authentic reply of all C09 event histories of the tier's depth (batch_size 1, 2 and 3), plus 156 histories per batch size that end with a request arriving INSIDE a wake-up (at the polled / collected / sent hook point, after 0..2 queued requests), is bracketed per reply by harness clock readings taken just before its request was sent (for a mid-step arrival: at the hook point) and when the reply was drained (after the step that produced it). Process: the real server binary started under TZ in {UTC, EST5EDT, JST-9, <+0545>-5:45, America/New_York, Australia/Lord_Howe}: one reply per protocol, same bracket."));
    ctx.sample(json!({"kind":"grid","version":"classic","secs":2147483648u64,"nanos":999999999}));
    ctx.sample(json!({"kind":"live","version":"ietf13","events":["I0","C1","step","I1"]}));
    ctx.assume("the harness and the in-process server read the same system clock; the clock does not step backwards during a history");
    Ok(())
}
