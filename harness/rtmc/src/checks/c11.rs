//! C11 (grid part) — signed midpoint is the clock in the protocol's unit with a 5 s radius.

use crate::ev::{Ctx, Tier};
use crate::util::{catch, hex, par_for};
use roughenough::key::OnlineKey;
use roughenough::Tag;
use rtref::{codec, crypto, Version};
use serde_json::{json, Value};
use std::sync::atomic::{AtomicU64, Ordering::Relaxed};
use std::time::{Duration, UNIX_EPOCH};

/// Check one make_srep output. Returns Some(clause, message) on violation.
pub fn check_srep(v: Version, out_sig: &[u8], srep_b: &[u8], online_pk: &[u8], secs: u64, nanos: u32, root: &[u8]) -> Option<(String, String)> {
    let srep = match codec::decode(srep_b) {
        Ok(s) => s,
        Err(e) => return Some(("srep-decode".into(), format!("{:?}", e))),
    };
    let want_midp = match v {
        Version::Classic => secs * 1_000_000 + (nanos as u64) / 1000,
        Version::Ietf13 => secs,
    };
    let want_radi: u32 = match v {
        Version::Classic => 5_000_000,
        Version::Ietf13 => 5,
    };
    let midp = srep.get("MIDP").map(|b| b.to_vec());
    if midp.as_deref() != Some(&want_midp.to_le_bytes()[..]) {
        return Some(("midp-not-clock".into(), format!("MIDP {:?} want {}", midp.map(|m| hex(&m)), want_midp)));
    }
    if srep.get("RADI") != Some(&want_radi.to_le_bytes()[..]) {
        return Some(("radius-not-5s".into(), format!("RADI {:?}", srep.get("RADI").map(hex))));
    }
    if srep.get("ROOT") != Some(root) {
        return Some(("root-not-echoed".into(), "ROOT".into()));
    }
    if v == Version::Ietf13 {
        if srep.get("VER") != Some(&rtref::proto::VER_IETF13[..]) {
            return Some(("srep-ver".into(), format!("{:?}", srep.get("VER").map(hex))));
        }
        match srep.get("VERS") {
            Some(vs) if vs.len() % 4 == 0 && vs.chunks(4).any(|c| c == rtref::proto::VER_IETF13) => {}
            other => return Some(("srep-vers".into(), format!("{:?}", other.map(hex)))),
        }
    }
    let mut m = v.srep_ctx().to_vec();
    m.extend_from_slice(srep_b);
    if !crypto::verify(online_pk, &m, out_sig) {
        return Some(("srep-sig-invalid".into(), "SIG".into()));
    }
    None
}

pub fn grid(tier: Tier) -> Vec<(u64, u32)> {
    let y2200 = 7_258_118_400u64;
    let y9999 = 253_402_300_799u64;
    let secs = [0u64, 1, 59, 60, 1_000_000_000, (1 << 31) - 1, 1 << 31, (1u64 << 32) - 1, 1 << 32, y2200, y9999, 1 << 40];
    let nanos = [0u32, 1, 999, 1000, 1001, 499_999_999, 999_999, 1_000_000, 999_999_000, 999_999_999];
    let mut g = vec![];
    for s in secs {
        for n in nanos {
            g.push((s, n));
        }
    }
    if tier == Tier::Thorough {
        // every second of one leap-year day (2024-02-29) x {0, 999999999}
        let base = 1_709_164_800u64;
        for s in 0..86400 {
            g.push((base + s, 0));
            g.push((base + s, 999_999_999));
        }
    }
    g
}

pub fn run_grid_part(ctx: &Ctx, evals: &AtomicU64, nontrivial: &AtomicU64) {
    let g = grid(ctx.tier);
    par_for(g.len(), 64, |k, _| {
        let (secs, nanos) = g[k];
        for v in [Version::Classic, Version::Ietf13] {
            evals.fetch_add(1, Relaxed);
            nontrivial.fetch_add(1, Relaxed);
            let root: Vec<u8> = (0..v.node_width()).map(|i| (i as u64 * 3 + secs) as u8).collect();
            let r = catch(|| {
                let mut ok = OnlineKey::new();
                let pk = ok.make_dele().get_field(Tag::PUBK).unwrap().to_vec();
                // two SREPs on the same key: the second must be independent of the first
                let _first = ok.make_srep(super::c10::rv(v), UNIX_EPOCH + Duration::new(secs / 2, 7), &root);
                let m = ok.make_srep(super::c10::rv(v), UNIX_EPOCH + Duration::new(secs, nanos), &root);
                (pk, m.get_field(Tag::SIG).map(|s| s.to_vec()), m.get_field(Tag::SREP).map(|s| s.to_vec()), m.num_fields())
            });
            let detail = |m: String| json!({"kind":"grid","version":v.name(),"secs":secs,"nanos":nanos,"message":m});
            match r {
                Err(p) => ctx.violation("panic", "make_srep", v.name(), detail(p)),
                Ok((pk, Some(sig), Some(srep), 2)) => {
                    if let Some((clause, msg)) = check_srep(v, &sig, &srep, &pk, secs, nanos, &root) {
                        ctx.violation(&clause, "make_srep", v.name(), detail(msg));
                    }
                }
                Ok(_) => ctx.violation("srep-shape", "make_srep", v.name(), detail("missing SIG/SREP".into())),
            }
        }
    });
    ctx.cov("clock_grid_points", json!(g.len()));
}

pub fn replay_case(c: &Value) -> Result<Option<String>, String> {
    if c["kind"] != "grid" {
        return Err("replay of this case kind: re-run the check".into());
    }
    let v = if c["version"] == "classic" { Version::Classic } else { Version::Ietf13 };
    let secs = c["secs"].as_u64().ok_or("secs")?;
    let nanos = c["nanos"].as_u64().ok_or("nanos")? as u32;
    let root = vec![9u8; v.node_width()];
    let mut ok = OnlineKey::new();
    let pk = ok.make_dele().get_field(Tag::PUBK).unwrap().to_vec();
    let m = ok.make_srep(super::c10::rv(v), UNIX_EPOCH + Duration::new(secs, nanos), &root);
    Ok(check_srep(v, m.get_field(Tag::SIG).unwrap(), m.get_field(Tag::SREP).unwrap(), &pk, secs, nanos, &root).map(|(a, b)| format!("{} {}", a, b)))
}
