//! C12 — IETF requests answered iff they name a supported version and this server (E-STATE).

use super::c07::{classify, Expect, Prober};
use crate::ev::Ctx;
use crate::inproc::{nonce, Client, SrvCfg};
use crate::util::{hex, hex_trunc, par_for};
use rtref::proto::VER_IETF13;
use rtref::responder::ietf_request;
use rtref::verifier::{authentic, SERVER_VIEW};
use rtref::{crypto, Version};
use serde_json::{json, Value};
use std::collections::BTreeMap;
use std::sync::atomic::{AtomicU64, Ordering::Relaxed};
use std::sync::Mutex;

const VERS: [[u8; 4]; 5] = [VER_IETF13, [0, 0, 0, 0], [0x01, 0, 0, 0x80], [0x0b, 0, 0, 0x80], [0xff, 0xff, 0xff, 0xff]];

#[derive(Clone)]
struct Case {
    ver: Option<Vec<u8>>, // None = VER tag absent
    srv: Option<Vec<u8>>,
    label: String,
    /// additional tags around the request's own: 0 none, 1 SIG (sorts before VER), 2 SIG + DELE
    /// (before VER / between NONC and ZZZZ), 3 PAD (after ZZZZ)
    extra: u8,
}

fn build(c: &Case, n: u64) -> Vec<u8> {
    if c.extra > 0 {
        let mut pairs: Vec<(&str, Vec<u8>)> = vec![("NONC", nonce(n, 32))];
        if let Some(v) = &c.ver {
            pairs.push(("VER", v.clone()));
        }
        if let Some(s) = &c.srv {
            pairs.push(("SRV", s.clone()));
        }
        match c.extra {
            1 => pairs.push(("SIG", vec![0x51; 64])),
            2 => {
                pairs.push(("SIG", vec![0x51; 64]));
                pairs.push(("DELE", vec![0x52; 8]));
            }
            _ => pairs.push(("PAD", vec![0x53; 8])),
        }
        let k = pairs.len() + 1;
        let used = 12 + 4 + 4 * (k - 1) + 4 * k + pairs.iter().map(|p| p.1.len()).sum::<usize>();
        pairs.push(("ZZZZ", vec![0u8; 1024 - used]));
        return rtref::codec::frame(&rtref::codec::Msg::from_pairs(&pairs).encode());
    }
    match &c.ver {
        Some(v) => ietf_request(v, c.srv.as_deref(), &nonce(n, 32), 1024),
        None => {
            // VER tag absent: SRV?, NONC, ZZZZ
            let mut pairs: Vec<(&str, Vec<u8>)> = vec![("NONC", nonce(n, 32))];
            if let Some(s) = &c.srv {
                pairs.push(("SRV", s.clone()));
            }
            let k = pairs.len() + 1;
            let used = 12 + 4 + 4 * (k - 1) + 4 * k + pairs.iter().map(|p| p.1.len()).sum::<usize>();
            pairs.push(("ZZZZ", vec![0u8; 1024 - used]));
            rtref::codec::frame(&rtref::codec::Msg::from_pairs(&pairs).encode())
        }
    }
}

/// (batch_size, requests arriving together, server first handles a full batch of 64 valid requests,
/// a valid classic request of another client shares the batch: 0 no, 1 queued first, 2 queued last)
const MODES: [(u8, usize, bool, u8); 8] = [(64, 1, false, 0), (1, 1, false, 0), (2, 2, false, 0), (4, 4, false, 0), (64, 1, true, 0), (64, 1, false, 1), (64, 1, false, 2), (2, 1, false, 1)];

/// A burst of 64 valid requests (both protocols) queued before the first step: one completely full
/// batch of the default size. All must be answered.
fn prime(p: &mut Prober) -> Result<(), String> {
    let cs: Vec<Client> = (0..64).map(|_| Client::new()).collect();
    for (k, c) in cs.iter().enumerate() {
        let v = if k % 2 == 0 { Version::Classic } else { Version::Ietf13 };
        c.send(p.srv.addr, &rtref::responder::std_request(v, &nonce(0xc12_0000 + k as u64, v.nonce_len())));
    }
    p.srv.settle().map_err(|e| format!("priming burst panicked: {}", e))?;
    for c in &cs {
        let _ = c.drain();
    }
    Ok(())
}

pub fn run(ctx: &Ctx) -> Result<(), String> {
    ctx.set_level("model_checking");
    crate::inproc::init();
    let seed = crate::inproc::DEFAULT_SEED;
    let lt_pk = crypto::public_key(&seed);
    let srv_ok = crypto::srv_value(&lt_pk).to_vec();
    let other_srv = crypto::srv_value(&crypto::public_key(&[0x33; 32])).to_vec();
    let maxlen = ctx.tier.pick(6usize, 7);
    let mut cases: Vec<Case> = vec![];
    // truth table: every VER list of length 0..=maxlen over 5 values (+ VER absent) x SRV {absent, correct, wrong}
    let srvs: Vec<(&str, Option<Vec<u8>>)> = vec![("absent", None), ("correct", Some(srv_ok.clone())), ("wrong", Some(other_srv.clone()))];
    for (sl, s) in &srvs {
        cases.push(Case { ver: None, srv: s.clone(), label: format!("ver-absent/srv-{}", sl), extra: 0 });
        for len in 0..=maxlen {
            for mut idx in 0..5usize.pow(len as u32) {
                let mut v = vec![];
                for _ in 0..len {
                    v.extend_from_slice(&VERS[idx % 5]);
                    idx /= 5;
                }
                cases.push(Case { ver: Some(v), srv: s.clone(), label: format!("verlist/srv-{}", sl), extra: 0 });
            }
        }
    }
    // the same table for lists of length <= 2 with additional tags around the request's own (the
    // position of VER / SRV / NONC among the fields changes; the verdict must not)
    for extra in 1..=3u8 {
        for (sl, s) in &srvs {
            cases.push(Case { ver: None, srv: s.clone(), label: format!("ver-absent/srv-{}/extra-tags", sl), extra });
            for len in 0..=2usize {
                for mut idx in 0..5usize.pow(len as u32) {
                    let mut v = vec![];
                    for _ in 0..len {
                        v.extend_from_slice(&VERS[idx % 5]);
                        idx /= 5;
                    }
                    cases.push(Case { ver: Some(v), srv: s.clone(), label: format!("verlist/srv-{}/extra-tags", sl), extra });
                }
            }
        }
    }
    // lists of unknown version numbers whose BYTES contain 0c 00 00 80 across an entry boundary (the
    // list is a list of 4-byte entries, not a byte string to search)
    for shift in 1..4usize {
        // a || b contains the draft-13 bytes at byte offset `shift`
        let mut ab = vec![0u8; 8];
        ab[shift..shift + 4].copy_from_slice(&VER_IETF13);
        let (a, b) = (ab[..4].to_vec(), ab[4..].to_vec());
        let unknown = [0x01u8, 0, 0, 0x80];
        let lists: Vec<Vec<u8>> = vec![
            [a.clone(), b.clone()].concat(),
            [vec![0u8; 4], a.clone(), b.clone()].concat(),
            [a.clone(), b.clone(), vec![0u8; 4]].concat(),
            [unknown.to_vec(), a.clone(), b.clone()].concat(),
            [unknown.to_vec(), unknown.to_vec(), a.clone(), b.clone()].concat(),
            [a.clone(), b.clone(), a.clone(), b.clone()].concat(),
        ];
        for l in lists {
            for (sl, s) in &srvs {
                cases.push(Case { ver: Some(l.clone()), srv: s.clone(), label: format!("verlist-cross-boundary/srv-{}", sl), extra: 0 });
            }
        }
    }
    // unknown version numbers that differ from draft-13 (0x8000000c) in a few bits or in byte order:
    // equal low / high half, one bit off, byte-swapped, shifted
    for x in [0x0000_000cu32, 0x0001_000c, 0x7fff_000c, 0x8001_000c, 0xffff_000c, 0x8000_0000, 0x8000_000d, 0x8000_0008, 0x8000_010c, 0x8000_00c0, 0x0c00_0080, 0x0000_800c, 0x800c_0000] {
        let xb = x.to_le_bytes().to_vec();
        let unknown = vec![0x01u8, 0, 0, 0x80];
        for l in [xb.clone(), [xb.clone(), unknown.clone()].concat(), [unknown.clone(), xb.clone()].concat(), [vec![0u8; 4], xb.clone()].concat(), [xb.clone(), xb.clone(), xb.clone(), xb.clone()].concat()] {
            for (sl, s) in &srvs {
                cases.push(Case { ver: Some(l.clone()), srv: s.clone(), label: format!("verlist-near-miss-number/srv-{}", sl), extra: 0 });
            }
        }
    }
    let table_n = cases.len();
    // minimal list: SRV under every single-bit corruption, wrong lengths, another server's value
    for bit in 0..256 {
        let mut s = srv_ok.clone();
        s[bit / 8] ^= 1 << (bit % 8);
        cases.push(Case { ver: Some(VER_IETF13.to_vec()), srv: Some(s), label: "srv-bitflip".into(), extra: 0 });
    }
    for l in [0usize, 4, 28, 36, 64] {
        let mut s = srv_ok.clone();
        s.resize(l, 0x11);
        cases.push(Case { ver: Some(VER_IETF13.to_vec()), srv: Some(s), label: "srv-length".into(), extra: 0 });
    }
    // a VER value that is not a multiple of 4 cannot be encoded (values are aligned); a trailing
    // partial list is therefore outside the wire format and not part of the space.

    let classes: Mutex<BTreeMap<String, u64>> = Mutex::new(BTreeMap::new());
    let transitions = AtomicU64::new(0);
    let failed: Mutex<Option<String>> = Mutex::new(None);
    let shards = crate::util::nthreads() * 2;
    // The table is run on long-lived servers in several states: default batch size, one request per
    // poll cycle; batch sizes 1, 2 and 4 with the requests arriving in groups that fill a batch
    // exactly (every collect ends because the batch is full); and a server that has first handled
    // a burst of 64 valid requests (one full batch of the default size).
    for &(bs, group, primed, companion) in MODES.iter() {
        par_for(shards, 1, |sh, _| {
            let cfg = SrvCfg { batch_size: bs, ..Default::default() };
            let fresh = |primed: bool| -> Result<Prober, String> {
                let mut p = Prober::new(&cfg)?;
                if primed {
                    prime(&mut p)?;
                }
                Ok(p)
            };
            let mut p = match fresh(primed) {
                Ok(p) => p,
                Err(e) => {
                    *failed.lock().unwrap() = Some(e);
                    return;
                }
            };
            let mut local: BTreeMap<String, u64> = BTreeMap::new();
            let mine: Vec<usize> = (sh..cases.len()).step_by(shards).collect();
            for chunk in mine.chunks(group) {
                let ds: Vec<Vec<u8>> = chunk.iter().map(|&i| build(&cases[i], i as u64)).collect();
                let cls_: Vec<Client> = ds.iter().map(|_| Client::new()).collect();
                let comp = Client::new();
                let comp_req = rtref::responder::std_request(Version::Classic, &nonce(0xc12_8000_0000 + chunk[0] as u64, 64));
                if companion == 1 {
                    comp.send(p.srv.addr, &comp_req);
                }
                for (cl, d) in cls_.iter().zip(&ds) {
                    cl.send(p.srv.addr, d);
                }
                if companion == 2 {
                    comp.send(p.srv.addr, &comp_req);
                }
                transitions.fetch_add(2 + ds.len() as u64, Relaxed);
                let mode = json!({"batch_size": bs, "arriving_together": group, "after_full_batch_of_64": primed, "classic_request_of_another_client_in_the_batch": (["no", "queued first", "queued last"][companion as usize])});
                if let Err(pn) = p.srv.settle() {
                    ctx.violation("panic", "request-gate", &cases[chunk[0]].label, json!({"kind":"request-group","mode":mode,"datagrams":ds.iter().map(|d| hex(d)).collect::<Vec<_>>(),"panic":pn}));
                    p = match fresh(primed) {
                        Ok(p) => p,
                        Err(e) => {
                            *failed.lock().unwrap() = Some(e);
                            return;
                        }
                    };
                    continue;
                }
                for ((&i, d), cl) in chunk.iter().zip(&ds).zip(&cls_) {
                    let c = &cases[i];
                    let got: Vec<Vec<u8>> = cl.drain().into_iter().map(|x| x.0).collect();
                    let exp = classify(d, &srv_ok);
                    let label = if bs == 64 && !primed && companion == 0 { c.label.clone() } else { format!("{}@bs{}{}{}", c.label, bs, if primed { "-after-full-batch" } else { "" }, ["", "+classic-first", "+classic-last"][companion as usize]) };
                    let detail = |msg: String| json!({"kind":"request-group","mode":mode,"index_in_group":chunk.iter().position(|x| *x == i),"label":c.label,"ver":c.ver.as_ref().map(|v| hex(v)),"srv":c.srv.as_ref().map(|v| hex(v)),"datagrams":ds.iter().map(|d| hex(d)).collect::<Vec<_>>(),"message":msg});
                    let cls = match exp {
                        Expect::MustAnswer(_) => {
                            if got.len() != 1 {
                                ctx.violation("no-reply", "request-gate", &label, detail(format!("draft-13 among the first four VER entries, SRV absent/correct: {} replies", got.len())));
                            }
                            "must-answer"
                        }
                        Expect::May(_) => "may-answer",
                        Expect::MustNot => {
                            if !got.is_empty() {
                                let why = if c.srv.as_ref().map(|s| *s != srv_ok).unwrap_or(false) { "srv-mismatch" } else { "no-supported-version" };
                                ctx.violation("answered-unsupported", why, &label, detail(format!("{} replies", got.len())));
                            }
                            "must-not-answer"
                        }
                    };
                    for r in &got {
                        // reply verifies and states draft-13 + VERS inside the signed part (SERVER_VIEW checks both)
                        if let Err(cl) = authentic(r, d, Version::Ietf13, Some(&lt_pk), SERVER_VIEW) {
                            ctx.violation("reply-not-authentic", cl, &label, detail(format!("reference verifier: {}", cl)));
                        }
                    }
                    *local.entry(format!("{}:{}/{}", label, cls, got.len())).or_insert(0) += 1;
                }
            }
            // the worker is still alive
            match p.sentinel() {
                Ok(true) => {}
                Ok(false) => ctx.violation("sentinel-unanswered", "request-gate", "end-of-shard", json!({"kind":"shard","shard":sh})),
                Err(e) => *failed.lock().unwrap() = Some(e),
            }
            let mut g = classes.lock().unwrap();
            for (k, v) in local {
                *g.entry(k).or_insert(0) += v;
            }
        });
    }
    if let Some(e) = failed.lock().unwrap().take() {
        return Err(e);
    }
    let cls = classes.lock().unwrap().clone();
    ctx.cov("states", json!(cls.len()));
    ctx.cov("transitions", json!(transitions.load(Relaxed)));
    ctx.cov("traces_validated_against_impl", json!(cases.len() * MODES.len()));
    ctx.cov("evaluations", json!(cases.len() * MODES.len()));
    ctx.cov("distinct_nontrivial", json!(cases.len() * MODES.len()));
    ctx.cov("server_states", json!(MODES.iter().map(|m| json!({"batch_size": m.0, "arriving_together": m.1, "after_full_batch_of_64": m.2, "classic_companion": m.3})).collect::<Vec<_>>()));
    ctx.cov("truth_table_rows", json!(table_n));
    ctx.cov("outcome_classes", json!(cls));
    ctx.cov("exhaustive", json!(true));
    ctx.cov("bound", json!({"ver_list_len_max": maxlen, "ver_alphabet": VERS.iter().map(|v| hex(v)).collect::<Vec<_>>(), "srv_bitflips": 256}));
    ctx.cov("rule", json!(format!("truth table: every VER list of length 0..={} over {{draft-13, classic 0, 0x80000001, 0x8000000b, 0xffffffff}} plus VER absent, x SRV {{absent, correct, another server's}}; lists of unknown numbers whose bytes spell the draft-13 number across an entry boundary; lists with unknown numbers that differ from draft-13 in a few bits, in one half, or in byte order; the lists of length <= 2 again with additional tags (SIG before VER; SIG and DELE; PAD after ZZZZ) that move VER/SRV/NONC to other field positions; for the minimal list SRV under each of the 256 single-bit corruptions and lengths 0/4/28/36/64. Each request is one transition on a long-running real in-process Server (one per shard, alive-check by sentinel at the end); the whole table runs in five server states: batch_size 64 one request per poll cycle, batch_size 1/2/4 with requests arriving in groups that fill the batch exactly, and batch_size 64 after a full batch of 64 valid requests. Oracle (3-valued): must answer iff draft-13 among the first four entries and SRV absent/correct; must not answer if the list lacks draft-13 or SRV differs; may if draft-13 only at position >= 5; every reply authentic with SREP.VER = draft-13 and VERS containing it.", maxlen)));
    ctx.sample(json!({"ver":"0b000080 00000000 0c000080","srv":"absent","expect":"must-answer"}));
    ctx.sample(json!({"ver":"00000000 x4 then 0c000080","srv":"correct","expect":"may-answer"}));
    ctx.sample(json!({"ver":"0c000080","srv":"bit 17 flipped","expect":"must-not-answer"}));
    Ok(())
}

pub fn replay_case(c: &Value) -> Result<Option<String>, String> {
    if c["kind"].as_str() == Some("request-group") {
        let ds: Vec<Vec<u8>> = c["datagrams"].as_array().ok_or("datagrams")?.iter().map(|h| crypto::unhex(h.as_str().unwrap_or(""))).collect();
        let bs = c["mode"]["batch_size"].as_u64().unwrap_or(64) as u8;
        let primed = c["mode"]["after_full_batch_of_64"].as_bool().unwrap_or(false);
        let companion = match c["mode"]["classic_request_of_another_client_in_the_batch"].as_str() {
            Some("queued first") => 1,
            Some("queued last") => 2,
            _ => 0,
        };
        let lt_pk = crypto::public_key(&crate::inproc::DEFAULT_SEED);
        let srv_ok = crypto::srv_value(&lt_pk);
        return crate::util::on_named_thread("worker-0", move || {
            let mut p = Prober::new(&SrvCfg { batch_size: bs, ..Default::default() })?;
            if primed {
                prime(&mut p)?;
            }
            // the recorded group is replayed twice: state left behind by the first round meets the second
            for round in 0..2 {
                let cls: Vec<Client> = ds.iter().map(|_| Client::new()).collect();
                let comp = Client::new();
                let comp_req = rtref::responder::std_request(Version::Classic, &nonce(0xc12_9000_0000 + round as u64, 64));
                if companion == 1 {
                    comp.send(p.srv.addr, &comp_req);
                }
                for (cl, d) in cls.iter().zip(&ds) {
                    cl.send(p.srv.addr, d);
                }
                if companion == 2 {
                    comp.send(p.srv.addr, &comp_req);
                }
                if let Err(pn) = p.srv.settle() {
                    return Ok(Some(format!("panic {}", pn)));
                }
                for (cl, d) in cls.iter().zip(&ds) {
                    let n = cl.drain().len();
                    match classify(d, &srv_ok) {
                        Expect::MustAnswer(_) if n != 1 => return Ok(Some(format!("round {}: must answer, {} replies", round, n))),
                        Expect::MustNot if n != 0 => return Ok(Some(format!("round {}: must not answer, {} replies", round, n))),
                        _ => {}
                    }
                }
            }
            Ok(None)
        });
    }
    let h = c["hex"].as_str().ok_or("hex")?;
    if h.contains("..(") {
        // rebuild from ver/srv
        let ver = c["ver"].as_str().map(crypto::unhex);
        let srv = c["srv"].as_str().map(crypto::unhex);
        let case = Case { ver, srv, label: "replay".into(), extra: 0 };
        let d = build(&case, 1);
        return replay_bytes(&d);
    }
    replay_bytes(&crypto::unhex(h))
}

fn replay_bytes(d: &[u8]) -> Result<Option<String>, String> {
    let lt_pk = crypto::public_key(&crate::inproc::DEFAULT_SEED);
    let srv_ok = crypto::srv_value(&lt_pk);
    crate::util::on_named_thread("worker-0", || {
        let mut p = Prober::new(&SrvCfg::default())?;
        let out = p.probe(d)?;
        let exp = classify(d, &srv_ok);
        let n = out.replies.len();
        Ok(match exp {
            Expect::MustAnswer(_) if n != 1 => Some(format!("must answer, {} replies", n)),
            Expect::MustNot if n != 0 => Some(format!("must not answer, {} replies", n)),
            _ => None,
        })
    })
}
