//! C01 — client never reports an unauthentic response as verified (E-PROC a), and
//! C03 — the project's own client accepts every honest response and prints its midpoint.

use crate::ev::{Ctx, Tier};
use crate::inproc::nonce;
use crate::proc::{printed_times, run_client, ClientRun};
use crate::util::{hex, hex_trunc, par_for, Rng};
use rtref::codec::{self, Msg};
use rtref::responder::{honest_parts, std_request, Identity, Parts, Stamp};
use rtref::verifier::{authentic, CLIENT_VIEW};
use rtref::{crypto, Version};
use serde_json::{json, Value};
use std::collections::BTreeMap;
use std::sync::atomic::{AtomicU64, Ordering::Relaxed};
use std::sync::Mutex;

/// Freshness oracle: every request the client ever sends (within one multi-request run, and across
/// all runs of this check) must carry a nonce not seen before. Returns the nonce if it is a repeat.
pub fn note_nonce(seen: &Mutex<std::collections::HashSet<Vec<u8>>>, v: Version, req: &[u8]) -> Option<Vec<u8>> {
    let n = rtref::verifier::request_leaf_and_nonce(v, req).map(|x| x.1)?;
    let mut g = seen.lock().unwrap();
    if g.contains(&n) {
        return Some(n);
    }
    g.insert(n);
    None
}

pub fn s1() -> Identity {
    Identity::new(0x21, 0x55)
}
pub fn s2() -> Identity {
    Identity::new(0x99, 0x0e)
}

/// A tamper operator: a name and how to produce the datagram from the honest parts.
#[derive(Clone, Debug)]
pub enum Op {
    Honest,
    FlipBit(usize),
    SetField(&'static str, &'static str), // field, variant
    Truncate(usize),
    Extend(usize),
    Resign(&'static str),
    CrossProtocol(&'static str),
    OtherRequest(&'static str),
    Raw(&'static str),
    /// A signed field carries a value that must make the client refuse; the value that would make it
    /// accept is offered as an UNSIGNED tag of the same name in another container ("top" level of the
    /// reply or the "cert" container). (field, container)
    Shadow(&'static str, &'static str),
}

impl Op {
    pub fn name(&self) -> String {
        match self {
            Op::Honest => "honest".into(),
            Op::FlipBit(b) => format!("flipbit:{}", b),
            Op::SetField(f, v) => format!("set:{}:{}", f, v),
            Op::Truncate(l) => format!("truncate:{}", l),
            Op::Extend(l) => format!("extend:{}", l),
            Op::Resign(w) => format!("resign:{}", w),
            Op::CrossProtocol(w) => format!("crossproto:{}", w),
            Op::OtherRequest(w) => format!("otherreq:{}", w),
            Op::Raw(w) => format!("raw:{}", w),
            Op::Shadow(f, c) => format!("shadow:{}:in-{}", f, c),
        }
    }
    pub fn family(&self) -> &'static str {
        match self {
            Op::Honest => "honest",
            Op::FlipBit(_) => "T1-bitflip",
            Op::SetField(..) => "T2-field",
            Op::Resign(_) => "T3T4-resigned",
            Op::CrossProtocol(_) => "T5-cross-protocol",
            Op::OtherRequest(_) => "T6-cross-request",
            Op::Truncate(_) | Op::Extend(_) => "T7-length",
            Op::Raw(_) => "T8-raw",
            Op::Shadow(..) => "T9-unsigned-shadow-tag",
        }
    }
}

pub struct Scenario {
    pub v: Version,
    pub n: usize,
    pub i: usize,
    pub stamp: Stamp,
}

/// Build the batch (request datagrams) with the client's request at position i.
pub fn batch_for(v: Version, n: usize, i: usize, req: &[u8]) -> Vec<Vec<u8>> {
    (0..n).map(|k| if k == i { req.to_vec() } else { std_request(v, &nonce(0x7700 + k as u64, v.nonce_len())) }).collect()
}

fn le64(x: u64) -> Vec<u8> {
    x.to_le_bytes().to_vec()
}

/// Apply `op` to the honest reply for `req`. Returns the datagram to send.
pub fn apply(op: &Op, sc: &Scenario, req: &[u8], prev_honest: &[u8]) -> Vec<u8> {
    let v = sc.v;
    let id = s1();
    let batch = batch_for(v, sc.n, sc.i, req);
    let honest = honest_parts(v, &id, &batch, sc.i, sc.stamp);
    let w = v.node_width();
    match op {
        Op::Honest => honest.datagram(),
        Op::FlipBit(b) => {
            let mut d = honest.datagram();
            if b / 8 < d.len() {
                d[b / 8] ^= 1 << (b % 8);
            }
            d
        }
        Op::Truncate(l) => {
            let mut d = honest.datagram();
            d.truncate(*l);
            d
        }
        Op::Extend(l) => {
            let mut d = honest.datagram();
            d.extend(std::iter::repeat(0u8).take(*l));
            d
        }
        Op::SetField(f, var) => {
            let mut p: Parts = honest.clone();
            match (*f, *var) {
                // not a tamper: the classic reply in its original layout, without the NONC echo
                ("NONC", "omit") => p.omit_nonc = true,
                ("SIG", "zero") => p.sig = vec![0; 64],
                ("SIG", "random") => p.sig = Rng(77).bytes(64),
                ("SIG", "over-other-srep") => {
                    let mut q = honest.clone();
                    q.srep.set("MIDP", le64(sc.stamp.midp + 1));
                    q.sign_srep(v, &id.online_seed);
                    p.sig = q.sig;
                }
                ("SIG", "by-s2") => {
                    let mut q = honest.clone();
                    q.sign_srep(v, &s2().online_seed);
                    p.sig = q.sig;
                }
                // a genuine signature value reused in the other role
                ("SIG", "copy-of-certsig") => p.sig = p.cert_sig.clone(),
                ("CERTSIG", "copy-of-sig") => p.cert_sig = p.sig.clone(),
                ("CERTSIG", "zero") => p.cert_sig = vec![0; 64],
                ("CERTSIG", "random") => p.cert_sig = Rng(78).bytes(64),
                ("CERTSIG", "over-other-dele") => {
                    let mut q = honest.clone();
                    q.dele.set("MAXT", le64(u64::MAX - 1));
                    q.sign_dele(v, &id.lt_seed);
                    p.cert_sig = q.cert_sig;
                }
                ("CERTSIG", "by-s2") => {
                    let mut q = honest.clone();
                    q.sign_dele(v, &s2().lt_seed);
                    p.cert_sig = q.cert_sig;
                }
                ("PATH", "drop-last") => {
                    let l = p.path.len().saturating_sub(w);
                    p.path.truncate(l);
                }
                ("PATH", "drop-first") => {
                    if p.path.len() >= w {
                        p.path.drain(..w);
                    }
                }
                ("PATH", "append") => p.path.extend(vec![0u8; w]),
                ("PATH", "swap") => {
                    if p.path.len() >= 2 * w {
                        let a = p.path[..w].to_vec();
                        let b = p.path[w..2 * w].to_vec();
                        p.path[..w].copy_from_slice(&b);
                        p.path[w..2 * w].copy_from_slice(&a);
                    } else {
                        p.path.extend(vec![1u8; w]);
                    }
                }
                ("PATH", "zero-element") => {
                    if p.path.len() >= w {
                        for b in p.path[..w].iter_mut() {
                            *b = 0;
                        }
                    } else {
                        p.path = vec![0u8; w];
                    }
                }
                ("PATH", "half-element") => p.path.extend(vec![0u8; w / 2]),
                ("INDX", "other") => p.indx = (((sc.i + 1) % sc.n.max(2)) as u32).to_le_bytes().to_vec(),
                ("INDX", "sibling") => p.indx = ((sc.i ^ 1) as u32).to_le_bytes().to_vec(),
                ("INDX", "out-of-range") => p.indx = (sc.n as u32).to_le_bytes().to_vec(),
                ("INDX", "max") => p.indx = u32::MAX.to_le_bytes().to_vec(),
                ("MIDP", "plus1") => p.srep.set("MIDP", le64(sc.stamp.midp + 1)),
                ("MIDP", "zero") => p.srep.set("MIDP", le64(0)),
                ("MIDP", "max") => p.srep.set("MIDP", le64(u64::MAX)),
                ("RADI", "zero") => p.srep.set("RADI", vec![0; 4]),
                ("RADI", "max") => p.srep.set("RADI", vec![0xff; 4]),
                ("ROOT", "zero") => p.srep.set("ROOT", vec![0; w]),
                ("ROOT", "leaf-only") => p.srep.set("ROOT", rtref::merkle::leaf(v, &rtref::verifier::request_leaf_and_nonce(v, req).map(|x| x.0).unwrap_or_default())),
                ("VER", "classic") => p.srep.set("VER", vec![0; 4]),
                ("VER", "remove") => p.srep.remove("VER"),
                ("PUBK", "s2") => p.dele.set("PUBK", s2().online_pk().to_vec()),
                ("PUBK", "zero") => p.dele.set("PUBK", vec![0; 32]),
                ("MINT", "after-midp") => p.dele.set("MINT", le64(sc.stamp.midp + 1)),
                ("MAXT", "before-midp") => p.dele.set("MAXT", le64(sc.stamp.midp.saturating_sub(1))),
                ("MAXT", "zero") => p.dele.set("MAXT", le64(0)),
                _ => panic!("unknown SetField {} {}", f, var),
            }
            p.datagram()
        }
        Op::Resign(what) => {
            let mut p = honest.clone();
            match *what {
                // T3: whole chain re-signed consistently by another long-term key S2
                "all-by-s2" => {
                    let o = s2();
                    p.dele.set("PUBK", o.online_pk().to_vec());
                    p.sign_dele(v, &o.lt_seed);
                    p.sign_srep(v, &o.online_seed);
                }
                // S1 delegation intact, SREP signed by an attacker online key not certified by S1
                "srep-by-s2-online" => {
                    p.sign_srep(v, &s2().online_seed);
                }
                // S2 certifies S1's online key
                "dele-by-s2" => {
                    p.sign_dele(v, &s2().lt_seed);
                }
                // T4: valid chain from S1 but window excluding MIDP, properly signed
                "window-before" => {
                    p.dele.set("MAXT", le64(sc.stamp.midp.saturating_sub(1)));
                    p.sign_dele(v, &id.lt_seed);
                }
                "window-after" => {
                    p.dele.set("MINT", le64(sc.stamp.midp + 1));
                    p.sign_dele(v, &id.lt_seed);
                }
                "window-empty" => {
                    p.dele.set("MINT", le64(sc.stamp.midp + 10));
                    p.dele.set("MAXT", le64(sc.stamp.midp.saturating_sub(10)));
                    p.sign_dele(v, &id.lt_seed);
                }
                // empty windows (MINT > MAXT) lying wholly below / wholly above the midpoint
                "window-inverted-below" => {
                    p.dele.set("MINT", le64(sc.stamp.midp.saturating_sub(5)));
                    p.dele.set("MAXT", le64(sc.stamp.midp.saturating_sub(10)));
                    p.sign_dele(v, &id.lt_seed);
                }
                "window-inverted-above" => {
                    p.dele.set("MINT", le64(sc.stamp.midp + 10));
                    p.dele.set("MAXT", le64(sc.stamp.midp + 5));
                    p.sign_dele(v, &id.lt_seed);
                }
                "window-inverted-extremes" => {
                    p.dele.set("MINT", le64(u64::MAX));
                    p.dele.set("MAXT", le64(0));
                    p.sign_dele(v, &id.lt_seed);
                }
                // invented SREP (other midpoint, correct root) carrying the genuine CERT.SIG as its SIG
                "forged-srep-with-certsig" => {
                    p.srep.set("MIDP", le64(1_000_000_000));
                    p.sig = p.cert_sig.clone();
                }
                // genuine CERT.SIG kept over a forged DELE naming the attacker's online key, SREP signed by it
                "forged-dele-keeping-certsig" => {
                    let o = s2();
                    p.dele.set("PUBK", o.online_pk().to_vec());
                    p.srep.set("MIDP", le64(1_000_000_000));
                    p.sign_srep(v, &o.online_seed);
                }
                // genuine delegation (signed by S1) of a "key" that is not a curve point, SREP carrying the
                // degenerate signature (R = neutral element, s = 0)
                "pubk-non-point-neutral-sig" => {
                    p.dele.set("PUBK", crypto::non_point_key().to_vec());
                    p.sign_dele(v, &id.lt_seed);
                    p.sig = crypto::neutral_signature().to_vec();
                }
                "pubk-non-point-zero-sig" => {
                    p.dele.set("PUBK", crypto::non_point_key().to_vec());
                    p.sign_dele(v, &id.lt_seed);
                    p.sig = vec![0u8; 64];
                }
                // properly signed SREP whose ROOT is the all-zero node, with a PATH that is not a whole
                // number of nodes (or absent): nothing the client computes may equal it
                "root-zero-path-ragged-4" | "root-zero-path-half-node" | "root-zero-path-node-plus-1" | "root-zero-path-empty" => {
                    p.srep.set("ROOT", vec![0u8; w]);
                    p.sign_srep(v, &id.online_seed);
                    p.path = match *what {
                        "root-zero-path-ragged-4" => vec![0u8; 4],
                        "root-zero-path-half-node" => vec![0u8; w / 2],
                        "root-zero-path-node-plus-1" => vec![0u8; w + 1],
                        _ => vec![],
                    };
                    p.indx = vec![0u8; 4];
                }
                // properly signed SREP whose ROOT is not a full Merkle node: nothing can bind to it
                "root-empty" | "root-prefix-4" | "root-half" | "root-extended" => {
                    let full = p.srep.get("ROOT").map(|r| r.to_vec()).unwrap_or_default();
                    let r = match *what {
                        "root-empty" => vec![],
                        "root-prefix-4" => full[..4].to_vec(),
                        "root-half" => full[..w / 2].to_vec(),
                        _ => {
                            let mut x = full.clone();
                            x.extend_from_slice(&[0u8; 4]);
                            x
                        }
                    };
                    p.srep.set("ROOT", r);
                    p.sign_srep(v, &id.online_seed);
                }
                // properly signed SREP whose ROOT does not cover the request
                "root-of-other-batch" => {
                    let other: Vec<Vec<u8>> = (0..sc.n).map(|k| std_request(v, &nonce(0x8800 + k as u64, v.nonce_len()))).collect();
                    let q = honest_parts(v, &id, &other, sc.i, sc.stamp);
                    return q.datagram();
                }
                _ => panic!("unknown Resign {}", what),
            }
            p.datagram()
        }
        Op::Shadow(field, container) => {
            let mut p = honest.clone();
            let shadow: Vec<u8> = match *field {
                // SREP signed by an attacker's key; the attacker's key offered as unsigned PUBK
                "PUBK" => {
                    let o = s2();
                    p.srep.set("MIDP", le64(sc.stamp.midp + 3));
                    p.sign_srep(v, &o.online_seed);
                    o.online_pk().to_vec()
                }
                // properly signed delegation whose window excludes the midpoint; a wider bound offered unsigned
                "MINT" => {
                    p.dele.set("MINT", le64(sc.stamp.midp + 1));
                    p.sign_dele(v, &id.lt_seed);
                    le64(0)
                }
                "MAXT" => {
                    p.dele.set("MAXT", le64(sc.stamp.midp.saturating_sub(1)));
                    p.sign_dele(v, &id.lt_seed);
                    le64(u64::MAX)
                }
                // same excluded window; a midpoint inside it offered unsigned
                "MIDP" => {
                    p.dele.set("MINT", le64(sc.stamp.midp + 1));
                    p.dele.set("MAXT", le64(sc.stamp.midp + 100));
                    p.sign_dele(v, &id.lt_seed);
                    le64(sc.stamp.midp + 50)
                }
                // properly signed SREP whose ROOT covers another batch; the right root offered unsigned
                "ROOT" => {
                    let right = p.srep.get("ROOT").map(|r| r.to_vec()).unwrap_or_default();
                    let other: Vec<Vec<u8>> = (0..sc.n).map(|k| std_request(v, &nonce(0x8900 + k as u64, v.nonce_len()))).collect();
                    let q = honest_parts(v, &id, &other, sc.i, sc.stamp);
                    p.srep = q.srep.clone();
                    p.sig = q.sig.clone();
                    right
                }
                // a whole alternative DELE (attacker's key, unsigned) next to the genuine one
                "DELE" => {
                    let o = s2();
                    p.srep.set("MIDP", le64(sc.stamp.midp + 3));
                    p.sign_srep(v, &o.online_seed);
                    let mut d = p.dele.clone();
                    d.set("PUBK", o.online_pk().to_vec());
                    d.encode()
                }
                _ => panic!("unknown Shadow field {}", field),
            };
            match *container {
                "top" => p.top_extra.push((field, shadow)),
                _ => p.cert_extra.push((field, shadow)),
            }
            p.datagram()
        }
        Op::CrossProtocol(what) => {
            let o = v.other();
            match *what {
                // the other version's delegation context on CERT
                "dele-ctx" => {
                    let mut p = honest.clone();
                    p.sign_dele(o, &id.lt_seed);
                    p.datagram()
                }
                // the other version's tree profile (node width / leaf definition), properly signed
                "tree-profile" => {
                    let (leaf_in, _) = rtref::verifier::request_leaf_and_nonce(v, req).unwrap_or_default();
                    // other version's leaf definition: classic hashes the nonce, IETF the whole request
                    let other_leaf = match v {
                        Version::Classic => req.to_vec(),
                        Version::Ietf13 => rtref::codec::unframe(req).and_then(|p| codec::decode(p).ok()).and_then(|m| m.get("NONC").map(|n| n.to_vec())).unwrap_or_default(),
                    };
                    let _ = leaf_in;
                    let mut p = honest.clone();
                    let root = rtref::merkle::leaf(o, &other_leaf);
                    // keep the declared width of this version so that decoding succeeds
                    let mut r = root;
                    r.resize(w, 0);
                    p.srep.set("ROOT", r);
                    p.path = vec![];
                    p.indx = vec![0; 4];
                    p.sign_srep(v, &id.online_seed);
                    p.datagram()
                }
                // whole reply built by the other version's rules (framing included)
                "whole-reply" => {
                    let mut p = honest.clone();
                    p.v = o;
                    p.sign_dele(o, &id.lt_seed);
                    p.datagram()
                }
                // framing only: IETF reply without frame / classic reply with frame
                "framing" => {
                    let mut p = honest.clone();
                    p.v = o;
                    p.datagram()
                }
                _ => panic!("unknown CrossProtocol {}", what),
            }
        }
        Op::OtherRequest(what) => match *what {
            // honest reply for another request in the same batch (other INDX/PATH)
            "same-batch-neighbour" => {
                let n = sc.n.max(2);
                let batch = batch_for(v, n, sc.i.min(n - 1), req);
                let j = (sc.i.min(n - 1) + 1) % n;
                honest_parts(v, &id, &batch, j, sc.stamp).datagram()
            }
            // honest reply for a different request (fresh nonce), single batch
            "other-batch" => {
                let other = std_request(v, &nonce(0x6600, v.nonce_len()));
                honest_parts(v, &id, &[other], 0, sc.stamp).datagram()
            }
            // replay of a genuine response recorded in a previous run
            "replay-previous-run" => prev_honest.to_vec(),
            _ => panic!("unknown OtherRequest {}", what),
        },
        Op::Raw(what) => match *what {
            "empty" => vec![],
            "zeros-4" => vec![0; 4],
            "zeros-1024" => vec![0; 1024],
            "request-echo" => req.to_vec(),
            "random-400" => Rng(5).bytes(400),
            _ => panic!("unknown Raw {}", what),
        },
    }
}

pub fn alphabet(v: Version, honest_len: usize, tier: Tier) -> Vec<Op> {
    let mut ops = vec![Op::Honest];
    for b in 0..honest_len * 8 {
        ops.push(Op::FlipBit(b));
    }
    for (f, vars) in [
        ("SIG", vec!["zero", "random", "over-other-srep", "by-s2", "copy-of-certsig"]),
        ("CERTSIG", vec!["zero", "random", "over-other-dele", "by-s2", "copy-of-sig"]),
        ("PATH", vec!["drop-last", "drop-first", "append", "swap", "zero-element", "half-element"]),
        ("INDX", vec!["other", "sibling", "out-of-range", "max"]),
        ("MIDP", vec!["plus1", "zero", "max"]),
        ("RADI", vec!["zero", "max"]),
        ("ROOT", vec!["zero", "leaf-only"]),
        ("PUBK", vec!["s2", "zero"]),
        ("MINT", vec!["after-midp"]),
        ("MAXT", vec!["before-midp", "zero"]),
    ] {
        for var in vars {
            ops.push(Op::SetField(f, var));
        }
    }
    if v == Version::Ietf13 {
        ops.push(Op::SetField("VER", "classic"));
        ops.push(Op::SetField("VER", "remove"));
    }
    for f in ["PUBK", "MINT", "MAXT", "MIDP", "ROOT", "DELE"] {
        for c in ["top", "cert"] {
            if f == "DELE" && c == "cert" {
                continue; // CERT already holds the genuine DELE: a second one is a duplicate tag (not decodable)
            }
            ops.push(Op::Shadow(f, c));
        }
    }
    for r in ["all-by-s2", "srep-by-s2-online", "dele-by-s2", "window-before", "window-after", "window-empty", "window-inverted-below", "window-inverted-above", "window-inverted-extremes", "root-of-other-batch", "root-empty", "root-prefix-4", "root-half", "root-extended", "forged-srep-with-certsig", "forged-dele-keeping-certsig", "pubk-non-point-neutral-sig", "pubk-non-point-zero-sig", "root-zero-path-ragged-4", "root-zero-path-half-node", "root-zero-path-node-plus-1", "root-zero-path-empty"] {
        ops.push(Op::Resign(r));
    }
    for c in ["dele-ctx", "tree-profile", "whole-reply", "framing"] {
        ops.push(Op::CrossProtocol(c));
    }
    for o in ["same-batch-neighbour", "other-batch", "replay-previous-run"] {
        ops.push(Op::OtherRequest(o));
    }
    let step = if tier == Tier::Thorough { 1 } else { 4 };
    for l in (0..honest_len).step_by(step) {
        ops.push(Op::Truncate(l));
    }
    for l in (4..=64).step_by(4) {
        ops.push(Op::Extend(l));
    }
    for r in ["empty", "zeros-4", "zeros-1024", "request-echo", "random-400"] {
        ops.push(Op::Raw(r));
    }
    ops
}

thread_local! {
    /// when set, `execute` spells the pinned key this way (C03 key-spelling family)
    pub static KEY_SPELLING: std::cell::Cell<Option<u8>> = std::cell::Cell::new(None);
    /// run the client with its other options: message dump, request/response files, no -v, no -z
    pub static ALT_FLAGS: std::cell::Cell<bool> = std::cell::Cell::new(false);
}

pub struct Outcome {
    pub accepted: bool,
    pub times: Vec<(u64, u32)>,
    pub verified_yes: bool,
    pub run: ClientRun,
    pub reply: Vec<u8>,
}

pub fn key_arg(base64: bool) -> String {
    let pk = s1().lt_pk();
    if base64 { crypto::base64(&pk, false, true) } else { hex(&pk) }
}

/// Spellings of the pinned key the client documents/accepts: 0 lower-case hex, 1 base64,
/// 2 upper-case hex, 3 mixed-case hex
pub fn key_spelling(k: u8) -> String {
    let pk = s1().lt_pk();
    match k {
        1 => crypto::base64(&pk, false, true),
        2 => hex(&pk).to_uppercase(),
        3 => hex(&pk).chars().enumerate().map(|(i, c)| if i % 3 == 0 { c.to_ascii_uppercase() } else { c }).collect(),
        _ => hex(&pk),
    }
}

/// One client execution with one tampered reply.
pub fn execute(sc: &Scenario, op: &Op, with_key: Option<bool>, json_out: bool, prev_honest: &[u8]) -> Result<Outcome, String> {
    let proto = if sc.v == Version::Classic { "0" } else { "13" };
    let key = with_key.map(|b| KEY_SPELLING.with(|k| match k.get() {
        Some(sp) => key_spelling(sp),
        None => key_arg(b),
    }));
    let alt = ALT_FLAGS.with(|a| a.get());
    let dir = if alt { Some(crate::proc::scratch_dir()) } else { None };
    let (f1, f2) = match &dir {
        Some(d) => (d.join("requests.bin").display().to_string(), d.join("responses.bin").display().to_string()),
        None => (String::new(), String::new()),
    };
    let mut args: Vec<&str> = if alt { vec!["-d", "-f", "%s %f", "-p", proto, "-t", "5", "-o", &f1, "-O", &f2] } else { vec!["-z", "-v", "-f", "%s %f", "-p", proto, "-t", "5"] };
    if let Some(k) = &key {
        args.push("-k");
        args.push(k);
    }
    if json_out {
        args.push("-j");
    }
    let mut sent = vec![];
    let run = run_client(&args, 1, |reqs| {
        let d = apply(op, sc, &reqs[0].0, prev_honest);
        sent = d.clone();
        vec![vec![d]]
    })?;
    if let Some(d) = &dir {
        let _ = std::fs::remove_dir_all(d);
    }
    let times = printed_times(&run.exit.stdout);
    let accepted = run.exit.code == Some(0) && !times.is_empty();
    let verified_yes = alt || run.exit.stderr.contains("verified=Yes") || run.exit.stdout.contains("\"verified\": true");
    Ok(Outcome { accepted, times, verified_yes, run, reply: sent })
}

fn shapes(tier: Tier) -> Vec<(usize, usize)> {
    match tier {
        Tier::Quick => vec![(1, 0), (3, 2)],
        Tier::Thorough => vec![(1, 0), (2, 1), (3, 2), (5, 4), (8, 3), (64, 63)],
    }
}

pub fn run_c01(ctx: &Ctx) -> Result<(), String> {
    ctx.set_level("exploration");
    let evals = AtomicU64::new(0);
    let nontrivial = AtomicU64::new(0);
    let classes: Mutex<BTreeMap<String, u64>> = Mutex::new(BTreeMap::new());
    let failed: Mutex<Option<String>> = Mutex::new(None);
    let pk = s1().lt_pk();
    let seen_nonces: Mutex<std::collections::HashSet<Vec<u8>>> = Mutex::new(std::collections::HashSet::new());
    let mut baseline = serde_json::Map::new();
    for v in [Version::Classic, Version::Ietf13] {
        // a genuine response recorded in a "previous run" (its request had another nonce)
        let prev_req = std_request(v, &nonce(0x5500, v.nonce_len()));
        let prev_honest = honest_parts(v, &s1(), &[prev_req], 0, Stamp::at(v, 1_700_000_000, 0)).datagram();
        for (n, i) in shapes(ctx.tier) {
            let sc = Scenario { v, n, i, stamp: Stamp::at(v, 1_790_000_000, 123_456) };
            // baseline (0 deviations): honest reply must be accepted, else this half is vacuous
            let base = execute(&sc, &Op::Honest, Some(false), false, &prev_honest)?;
            let honest_len = base.reply.len();
            baseline.insert(format!("{}/n{}i{}", v.name(), n, i), json!(base.accepted));
            if !base.accepted {
                // not a C01 violation (C03's concern), but the exploration below would be vacuous
                ctx.cov(&format!("vacuous_{}", v.name()), json!(true));
            }
            // determinism self-test: same op twice => same verdict
            {
                let a = execute(&sc, &Op::SetField("SIG", "zero"), Some(false), false, &prev_honest)?;
                let b = execute(&sc, &Op::SetField("SIG", "zero"), Some(false), false, &prev_honest)?;
                if a.accepted != b.accepted {
                    return Err("determinism self-test failed (client verdict differs between identical runs)".into());
                }
            }
            let ops = alphabet(v, honest_len, ctx.tier);
            // key given as hex for all, base64 for the non-bitflip operators; JSON output for a subset
            par_for(ops.len(), 8, |k, _| {
                let op = &ops[k];
                // third variant of the structured operators: the client's other options (-d dump, -o/-O
                // request/response files, neither -v nor -z)
                let variants: Vec<(bool, bool, bool)> = if matches!(op, Op::FlipBit(_) | Op::Truncate(_)) { vec![(k % 2 == 0, k % 7 == 0, k % 11 == 0)] } else { vec![(false, false, false), (true, true, false), (false, false, true)] };
                for (b64, js, alt) in variants {
                    ALT_FLAGS.with(|a| a.set(alt));
                    let r = execute(&sc, op, Some(b64), js && !alt, &prev_honest);
                    ALT_FLAGS.with(|a| a.set(false));
                    let out = match r {
                        Ok(o) => o,
                        Err(e) => {
                            *failed.lock().unwrap() = Some(e);
                            return;
                        }
                    };
                    evals.fetch_add(1, Relaxed);
                    let req = &out.run.requests[0].0;
                    if let Some(n) = note_nonce(&seen_nonces, v, req) {
                        ctx.violation("nonce-not-fresh", "request-nonce", "across-runs", json!({"kind":"client","version":v.name(),"op":op.name(),"nonce":hex(&n),"message":"a request repeats the nonce of an earlier run: a recorded genuine response would be accepted for it"}));
                    }
                    let truth = authentic(&out.reply, req, v, Some(&pk), CLIENT_VIEW);
                    let cls = format!("{}:{}:{}", op.family(), if out.accepted { "accepted" } else { "rejected" }, match &truth { Ok(_) => "authentic", Err(c) => c });
                    *classes.lock().unwrap().entry(cls).or_insert(0) += 1;
                    if !matches!(op, Op::Honest) {
                        nontrivial.fetch_add(1, Relaxed);
                    }
                    if out.accepted {
                        if let Err(clause) = truth {
                            ctx.violation("accepted-unauthentic", clause, op.family(),
                                json!({"kind":"client","version":v.name(),"n":n,"i":i,"op":op.name(),"key":if b64 {"base64"} else {"hex"},"json":js,"other_client_options":alt,
                                       "request":hex_trunc(req, 2048),"reply":hex_trunc(&out.reply, 4096),"exit":out.run.exit.code,"stdout":out.run.exit.stdout,"stderr_first":out.run.exit.stderr.lines().take(4).collect::<Vec<_>>(),"failed_clause":clause}));
                        } else if !out.verified_yes {
                            ctx.violation("accepted-with-key-but-not-verified-yes", "client", op.family(), json!({"kind":"client","version":v.name(),"op":op.name(),"stdout":out.run.exit.stdout}));
                        }
                    }
                }
            });
            if let Some(e) = failed.lock().unwrap().take() {
                return Err(e);
            }
        }
        // T6 multi-request: -n 2 and -n 3, all assignment functions socket -> honest reply of request j
        for nreq in [2usize, 3] {
            let total = nreq.pow(nreq as u32);
            let key = key_arg(false);
            let proto = if v == Version::Classic { "0" } else { "13" };
            let nstr = nreq.to_string();
            par_for(total, 1, |code, _| {
                let assign: Vec<usize> = (0..nreq).map(|s| (code / nreq.pow(s as u32)) % nreq).collect();
                let args = ["-z", "-v", "-f", "%s %f", "-p", proto, "-t", "5", "-k", key.as_str(), "-n", nstr.as_str()];
                let mut replies_sent: Vec<Vec<u8>> = vec![];
                let r = run_client(&args, nreq, |reqs| {
                    // each request is the sole member of its own batch; distinct midpoints identify them
                    let honest: Vec<Vec<u8>> = (0..nreq).map(|j| honest_parts(v, &s1(), &[reqs[j].0.clone()], 0, Stamp::at(v, 1_790_000_000 + j as u64, 0)).datagram()).collect();
                    replies_sent = (0..nreq).map(|s| honest[assign[s]].clone()).collect();
                    replies_sent.iter().map(|d| vec![d.clone()]).collect()
                });
                let run = match r {
                    Ok(r) => r,
                    Err(e) => {
                        *failed.lock().unwrap() = Some(e);
                        return;
                    }
                };
                evals.fetch_add(1, Relaxed);
                nontrivial.fetch_add(1, Relaxed);
                for (ri, r) in run.requests.iter().enumerate() {
                    if let Some(n) = note_nonce(&seen_nonces, v, &r.0) {
                        ctx.violation("nonce-not-fresh", "request-nonce", "within-run", json!({"kind":"client-multi","version":v.name(),"nreq":nreq,"request_index":ri,"nonce":hex(&n),
                            "message":"two requests of one multi-request run carry the same nonce: the genuine response to one is accepted for the other"}));
                    }
                }
                // the client processes its sockets in creation order == request arrival order here
                // (it sends in that order); every printed time must belong to an authentic reply
                // delivered before the first failing one.
                let good_prefix = (0..nreq).take_while(|&s| authentic(&replies_sent[s], &run.requests[s].0, v, Some(&pk), CLIENT_VIEW).is_ok()).count();
                let times = printed_times(&run.exit.stdout);
                let all_good = good_prefix == nreq;
                let cls = format!("T6-multi:{}:{}/{}", if run.exit.code == Some(0) { "exit0" } else { "fail" }, times.len(), good_prefix);
                *classes.lock().unwrap().entry(cls).or_insert(0) += 1;
                if times.len() > good_prefix || (run.exit.code == Some(0) && !all_good) {
                    ctx.violation("accepted-unauthentic", "merkle", "T6-cross-request", json!({"kind":"client-multi","version":v.name(),"nreq":nreq,"assignment":assign,"printed_times":times.len(),"authentic_prefix":good_prefix,"exit":run.exit.code,"stdout":run.exit.stdout}));
                }
            });
            if let Some(e) = failed.lock().unwrap().take() {
                return Err(e);
            }
        }
    }
    // history dependence inside one client process: -n 2, the first reply is honest (so whatever the
    // client remembers from a successful verification is in place), the second carries one tamper
    // operator from the structured alphabet (no bit flips / truncations)
    for v in [Version::Classic, Version::Ietf13] {
        let prev_req = std_request(v, &nonce(0x5500, v.nonce_len()));
        let prev_honest = honest_parts(v, &s1(), &[prev_req], 0, Stamp::at(v, 1_700_000_000, 0)).datagram();
        let ops: Vec<Op> = alphabet(v, 8, ctx.tier).into_iter().filter(|o| !matches!(o, Op::FlipBit(_) | Op::Truncate(_) | Op::Extend(_) | Op::Honest)).collect();
        let key = key_arg(false);
        let proto = if v == Version::Classic { "0" } else { "13" };
        par_for(ops.len(), 2, |k, _| {
            let op = &ops[k];
            let args = ["-z", "-v", "-f", "%s %f", "-p", proto, "-t", "5", "-k", key.as_str(), "-n", "2"];
            let sc = Scenario { v, n: 1, i: 0, stamp: Stamp::at(v, 1_790_000_000, 123_456) };
            let mut second = vec![];
            let r = run_client(&args, 2, |reqs| {
                let first = honest_parts(v, &s1(), &[reqs[0].0.clone()], 0, Stamp::at(v, 1_790_000_000, 77)).datagram();
                second = apply(op, &sc, &reqs[1].0, &prev_honest);
                vec![vec![first], vec![second.clone()]]
            });
            let run = match r {
                Ok(r) => r,
                Err(e) => {
                    *failed.lock().unwrap() = Some(e);
                    return;
                }
            };
            evals.fetch_add(1, Relaxed);
            nontrivial.fetch_add(1, Relaxed);
            let truth = authentic(&second, &run.requests[1].0, v, Some(&pk), CLIENT_VIEW);
            let times = printed_times(&run.exit.stdout);
            let cls = format!("after-honest:{}:{}:{}", op.family(), if run.exit.code == Some(0) { "exit0" } else { "fail" }, match &truth { Ok(_) => "authentic", Err(c) => c });
            *classes.lock().unwrap().entry(cls).or_insert(0) += 1;
            if let Err(clause) = truth {
                if times.len() > 1 || run.exit.code == Some(0) {
                    ctx.violation("accepted-unauthentic", clause, &format!("after-honest/{}", op.family()), json!({"kind":"client-multi","version":v.name(),"nreq":2,"op":op.name(),"first_reply":"honest","printed_times":times.len(),"exit":run.exit.code,"stdout":run.exit.stdout,"reply":hex_trunc(&second, 4096),"failed_clause":clause}));
                }
            }
        });
        if let Some(e) = failed.lock().unwrap().take() {
            return Err(e);
        }
    }
    // Replays of GENUINE responses of the real server (current tree) through a recording proxy: the
    // harness sits between the client and a real roughenough-server, forwards the client's requests,
    // and decides which recorded genuine response each request gets. A response that answers an
    // earlier request (of a previous run, or of this run) must be refused. (The reference responder
    // above signs with its own keys and its own idea of the leaf; this part needs no such idea: the
    // replayed bytes are exactly what the real server produced.)
    {
        use crate::proc::{start_serving, Source, Written, BASE_SEED_HEX};
        let rpk = crypto::public_key(&crypto::unhex(BASE_SEED_HEX).try_into().unwrap());
        let (mut sp, port) = start_serving(
            &|port| {
                let mut w = Written::base(port);
                w.set("num_workers", "1");
                w
            },
            Source::File,
            1,
            std::time::Duration::from_secs(20),
        )?;
        let server: std::net::SocketAddr = format!("127.0.0.1:{}", port).parse().unwrap();
        // upstream: one socket per forwarded request, all sent before any reply is read (so the real
        // server may put them into one batch), replies matched by socket
        let ask = |reqs: &[Vec<u8>]| -> Result<Vec<Vec<u8>>, String> {
            let socks: Vec<std::net::UdpSocket> = reqs.iter().map(|_| std::net::UdpSocket::bind("127.0.0.1:0").unwrap()).collect();
            for (s, r) in socks.iter().zip(reqs) {
                s.set_read_timeout(Some(std::time::Duration::from_secs(3))).unwrap();
                s.send_to(r, server).map_err(|e| e.to_string())?;
            }
            let mut out = vec![];
            let mut buf = [0u8; 4096];
            for s in &socks {
                match s.recv_from(&mut buf) {
                    Ok((l, _)) => out.push(buf[..l].to_vec()),
                    Err(e) => return Err(format!("real server did not answer a forwarded request: {}", e)),
                }
            }
            Ok(out)
        };
        let mut proxy_n = 0u64;
        for v in [Version::Classic, Version::Ietf13] {
            let proto = if v == Version::Classic { "0" } else { "13" };
            for b64 in [false, true] {
                let key = if b64 { crypto::base64(&rpk, false, true) } else { crypto::hex(&rpk) };
                // run A: pass-through, recorded
                let args = ["-z", "-v", "-f", "%s %f", "-p", proto, "-t", "5", "-k", key.as_str()];
                let mut recorded: Option<(Vec<u8>, Vec<u8>)> = None;
                let mut upstream_err = None;
                let run_a = run_client(&args, 1, |reqs| match ask(&[reqs[0].0.clone()]) {
                    Ok(mut r) => {
                        let d = r.remove(0);
                        recorded = Some((reqs[0].0.clone(), d.clone()));
                        vec![vec![d]]
                    }
                    Err(e) => {
                        upstream_err = Some(e);
                        vec![vec![]]
                    }
                })?;
                if let Some(e) = upstream_err {
                    sp.kill();
                    return Err(e);
                }
                let (req_a, reply_a) = recorded.unwrap();
                let a_ok = run_a.exit.code == Some(0) && !printed_times(&run_a.exit.stdout).is_empty();
                baseline.insert(format!("real-server-pass-through:{}:{}", v.name(), if b64 { "base64" } else { "hex" }), json!(a_ok));
                proxy_n += 1;
                // run B: a later run gets the recorded response of run A
                let run_b = run_client(&args, 1, |_reqs| vec![vec![reply_a.clone()]])?;
                proxy_n += 1;
                evals.fetch_add(2, Relaxed);
                nontrivial.fetch_add(1, Relaxed);
                let b_acc = run_b.exit.code == Some(0) && !printed_times(&run_b.exit.stdout).is_empty();
                let same_request = run_b.requests[0].0 == req_a;
                *classes.lock().unwrap().entry(format!("real-server-replay:cross-run:{}:{}", v.name(), if b_acc { "accepted" } else { "refused" })).or_insert(0) += 1;
                if same_request {
                    ctx.violation("nonce-not-fresh", "request-nonce", "across-runs", json!({"kind":"client-proxy","version":v.name(),"message":"two runs sent byte-identical requests","request":hex_trunc(&req_a, 2048)}));
                } else if b_acc {
                    ctx.violation("accepted-unauthentic", "merkle", "T6-replay-of-real-server-response/previous-run", json!({"kind":"client-proxy","version":v.name(),"key_form":if b64 { "base64" } else { "hex" },
                        "message":"a genuine response of the real server, recorded in one client run, was accepted as the answer to the (different) request of a later run",
                        "recorded_for_request":hex_trunc(&req_a, 2048),"replayed_to_request":hex_trunc(&run_b.requests[0].0, 2048),"response":hex_trunc(&reply_a, 4096),"exit":run_b.exit.code,"stdout":run_b.exit.stdout}));
                }
                // within one run: -n k, all assignment functions request s -> genuine response of request j
                for nreq in ctx.tier.pick(vec![2usize], vec![2, 3]) {
                    let nstr = nreq.to_string();
                    let margs = ["-z", "-v", "-f", "%s %f", "-p", proto, "-t", "5", "-k", key.as_str(), "-n", nstr.as_str()];
                    for code in 0..nreq.pow(nreq as u32) {
                        let assign: Vec<usize> = (0..nreq).map(|s| (code / nreq.pow(s as u32)) % nreq).collect();
                        let mut upstream_err = None;
                        let run = run_client(&margs, nreq, |reqs| match ask(&reqs.iter().map(|r| r.0.clone()).collect::<Vec<_>>()) {
                            Ok(genuine) => (0..nreq).map(|s| vec![genuine[assign[s]].clone()]).collect(),
                            Err(e) => {
                                upstream_err = Some(e);
                                vec![vec![]; nreq]
                            }
                        })?;
                        if let Some(e) = upstream_err {
                            sp.kill();
                            return Err(e);
                        }
                        proxy_n += 1;
                        evals.fetch_add(1, Relaxed);
                        nontrivial.fetch_add(1, Relaxed);
                        // the genuine response of request j answers request s only if j == s (the
                        // requests of one run differ: checked by nonce freshness above)
                        let good_prefix = (0..nreq).take_while(|&s| assign[s] == s).count();
                        let distinct = (0..nreq).all(|a| (0..a).all(|b| run.requests[a].0 != run.requests[b].0));
                        let times = printed_times(&run.exit.stdout);
                        *classes.lock().unwrap().entry(format!("real-server-replay:within-run:{}:{}/{}", if run.exit.code == Some(0) { "exit0" } else { "fail" }, times.len(), good_prefix)).or_insert(0) += 1;
                        if distinct && (times.len() > good_prefix || (run.exit.code == Some(0) && good_prefix < nreq)) {
                            ctx.violation("accepted-unauthentic", "merkle", "T6-replay-of-real-server-response/within-run", json!({"kind":"client-proxy","version":v.name(),"nreq":nreq,"assignment":assign,"printed_times":times.len(),"authentic_prefix":good_prefix,"exit":run.exit.code,"stdout":run.exit.stdout}));
                        }
                    }
                }
            }
        }
        sp.kill();
        ctx.cov("real_server_proxy_runs", json!(proxy_n));
    }
    // T10: the pinned key is not a curve point (a mistyped key): nothing is authentic under it, whatever
    // the reply carries — a chain signed by an attacker's keys, or degenerate signatures
    {
        let bad = crypto::non_point_key();
        let mut t10 = 0u64;
        for v in [Version::Classic, Version::Ietf13] {
            let proto = if v == Version::Classic { "0" } else { "13" };
            let sc = Scenario { v, n: 1, i: 0, stamp: Stamp::at(v, 1_790_000_000, 5) };
            for b64 in [false, true] {
                let key = if b64 { crypto::base64(&bad, false, true) } else { hex(&bad) };
                for forged in ["cert-neutral-sig/srep-by-attacker", "all-neutral-sig", "honest-s1-chain"] {
                    let args = ["-z", "-v", "-f", "%s %f", "-p", proto, "-t", "5", "-k", key.as_str()];
                    let mut sent = vec![];
                    let run = run_client(&args, 1, |reqs| {
                        let batch = batch_for(v, sc.n, sc.i, &reqs[0].0);
                        let mut p = honest_parts(v, &s1(), &batch, sc.i, sc.stamp);
                        match forged {
                            "cert-neutral-sig/srep-by-attacker" => {
                                let o = s2();
                                p.dele.set("PUBK", o.online_pk().to_vec());
                                p.sign_srep(v, &o.online_seed);
                                p.cert_sig = crypto::neutral_signature().to_vec();
                            }
                            "all-neutral-sig" => {
                                p.dele.set("PUBK", bad.to_vec());
                                p.cert_sig = crypto::neutral_signature().to_vec();
                                p.sig = crypto::neutral_signature().to_vec();
                            }
                            _ => {}
                        }
                        sent = p.datagram();
                        vec![vec![sent.clone()]]
                    })?;
                    t10 += 1;
                    evals.fetch_add(1, Relaxed);
                    nontrivial.fetch_add(1, Relaxed);
                    let acc = run.exit.code == Some(0) && !printed_times(&run.exit.stdout).is_empty();
                    *classes.lock().unwrap().entry(format!("T10-pinned-key-not-a-point:{}:{}", forged, if acc { "accepted" } else { "refused" })).or_insert(0) += 1;
                    if acc {
                        if let Err(c) = authentic(&sent, &run.requests[0].0, v, Some(&bad), CLIENT_VIEW) {
                            ctx.violation("accepted-unauthentic", c, "T10-pinned-key-not-a-point", json!({"kind":"client","version":v.name(),"op":forged,"pinned_key":hex(&bad),"key_form":if b64 { "base64" } else { "hex" },
                                "message":"the pinned key is not the encoding of a curve point, so no signature is valid under it; the client accepted a reply and printed a time",
                                "reply":hex_trunc(&sent, 4096),"request":hex_trunc(&run.requests[0].0, 2048),"exit":run.exit.code,"stdout":run.exit.stdout}));
                        }
                    }
                }
            }
        }
        ctx.cov("pinned_key_not_a_point_runs", json!(t10));
    }
    // T8 sampled random multi-byte mutations
    let mut sampled = 0u64;
    {
        let v = Version::Classic;
        let sc = Scenario { v, n: 3, i: 1, stamp: Stamp::at(v, 1_790_000_000, 1) };
        let cnt = ctx.tier.pick(200usize, 2000);
        let sampled_a = AtomicU64::new(0);
        par_for(cnt, 4, |k, _| {
            let mut rng = Rng(ctx.seed.wrapping_mul(1000003) + k as u64);
            let key = key_arg(false);
            let args = ["-z", "-f", "%s %f", "-p", "0", "-t", "5", "-k", key.as_str()];
            let mut sent = vec![];
            if let Ok(run) = run_client(&args, 1, |reqs| {
                let batch = batch_for(v, sc.n, sc.i, &reqs[0].0);
                let mut d = honest_parts(v, &s1(), &batch, sc.i, sc.stamp).datagram();
                for _ in 0..1 + rng.below(4) {
                    let p = rng.below(d.len() as u64) as usize;
                    d[p] = rng.next() as u8;
                }
                sent = d.clone();
                vec![vec![d]]
            }) {
                sampled_a.fetch_add(1, Relaxed);
                let acc = run.exit.code == Some(0) && !printed_times(&run.exit.stdout).is_empty();
                if acc {
                    if let Err(c) = authentic(&sent, &run.requests[0].0, v, Some(&pk), CLIENT_VIEW) {
                        ctx.violation("accepted-unauthentic", c, "T8-random", json!({"kind":"client","version":"classic","op":"random-mutation","seed":ctx.seed,"k":k,"reply":hex_trunc(&sent, 4096),"request":hex_trunc(&run.requests[0].0, 2048)}));
                    }
                }
            }
        });
        sampled += sampled_a.load(Relaxed);
    }
    ctx.cov("evaluations", json!(evals.load(Relaxed)));
    ctx.cov("distinct_nontrivial", json!(nontrivial.load(Relaxed)));
    ctx.cov("sampled_evaluations", json!(sampled));
    ctx.cov("baseline_accepted", Value::Object(baseline));
    ctx.cov("outcome_classes", json!(*classes.lock().unwrap()));
    ctx.cov("exhaustive", json!(true));
    ctx.cov("bound", json!({"deviations": 1, "batch_shapes": shapes(ctx.tier), "multi_request": [2, 3]}));
    ctx.cov("rule", json!("each case = one execution of the real roughenough-client process (-z -v -f '%s %f' -k <S1 key, hex or base64> -p 0|13 [-j]) against a harness UDP responder that builds the honest reply for the request actually received (reference responder, keys S1) and applies ONE tamper operator: T1 every single bit of the whole datagram; T2 field substitutions on SIG, CERT.SIG, PATH, INDX, SREP.{MIDP,RADI,ROOT,VER}, DELE.{PUBK,MINT,MAXT} without re-signing; T3 chain re-signed by another long-term key; T4 properly signed (by S1) delegation window excluding MIDP, root of another batch, ROOT that is not a full node (empty, 4-byte prefix, half, extended); T5 cross-protocol context/tree/framing; T6 replies for other requests (same batch, other batch, previous run; for -n 2/3 all assignment functions); T7 truncations (quick: every 4 bytes, thorough: every byte) and extensions; raw junk; genuine signature values reused in the other role; T10 a delegated PUBK that is not a curve point with degenerate SREP signatures (R = neutral element, s = 0; all zero), and runs whose PINNED key is not a curve point (attacker-signed chain under a degenerate CERT signature, all-degenerate signatures, the honest chain); T9 a signed field made unacceptable with the acceptable value offered as an unsigned tag of the same name at the top level of the reply or inside the CERT container (PUBK, MINT, MAXT, MIDP, ROOT, DELE); and, with -n 2, every structured operator on the SECOND reply after an honest first one (state remembered by the client process). Also, through a recording proxy in front of a real roughenough-server of the current tree: the genuine response recorded in one run replayed to a later run, and with -n 2 (thorough 3) every assignment of the run's genuine responses to its requests. 0 deviations = honest baseline. Oracle: violation iff the client exits 0 and prints a time while rtref::authentic (client view, pinned key) rejects. Non-trivial = any case with a tamper operator."));
    ctx.sample(json!({"version":"classic","n":3,"i":2,"op":"set:CERTSIG:by-s2","key":"hex"}));
    ctx.sample(json!({"version":"ietf13","n":1,"i":0,"op":"flipbit:1007","key":"base64"}));
    ctx.sample(json!({"version":"classic","nreq":3,"assignment":[1,0,2]}));
    ctx.assume("2^512 signature values are not enumerated; the tamper alphabet has one representative per mechanism named in the property's anchors");
    Ok(())
}

pub fn replay_case(c: &Value) -> Result<Option<String>, String> {
    if c["kind"] != "client" {
        return Err("replay of this case kind: re-run the check".into());
    }
    let v = if c["version"] == "classic" { Version::Classic } else { Version::Ietf13 };
    let n = c["n"].as_u64().unwrap_or(1) as usize;
    let i = c["i"].as_u64().unwrap_or(0) as usize;
    let opname = c["op"].as_str().ok_or("op")?;
    let sc = Scenario { v, n, i, stamp: Stamp::at(v, 1_790_000_000, 123_456) };
    let prev_req = std_request(v, &nonce(0x5500, v.nonce_len()));
    let prev_honest = honest_parts(v, &s1(), &[prev_req], 0, Stamp::at(v, 1_700_000_000, 0)).datagram();
    let base = execute(&sc, &Op::Honest, Some(false), false, &prev_honest)?;
    let ops = alphabet(v, base.reply.len(), Tier::Thorough);
    let op = ops.iter().find(|o| o.name() == opname).ok_or("operator not in alphabet")?;
    let out = execute(&sc, op, Some(c["key"] == "base64"), c["json"].as_bool().unwrap_or(false), &prev_honest)?;
    let truth = authentic(&out.reply, &out.run.requests[0].0, v, Some(&s1().lt_pk()), CLIENT_VIEW);
    Ok(match (out.accepted, truth) {
        (true, Err(cl)) => Some(format!("client accepted, reference verifier rejects at {}", cl)),
        _ => None,
    })
}

// =============================================================================================
// C03

pub fn run_c03(ctx: &Ctx) -> Result<(), String> {
    ctx.set_level("exploration");
    let evals = AtomicU64::new(0);
    let failed: Mutex<Option<String>> = Mutex::new(None);
    let classes: Mutex<BTreeMap<String, u64>> = Mutex::new(BTreeMap::new());
    // (1) reference responder: every batch shape of the tier x midpoints x version x key option
    let mut shapes: Vec<(usize, usize)> = vec![];
    match ctx.tier {
        Tier::Quick => {
            for n in [1usize, 2, 3, 5, 8] {
                for i in 0..n {
                    shapes.push((n, i));
                }
            }
            for i in [0usize, 31, 63] {
                shapes.push((64, i));
            }
        }
        Tier::Thorough => {
            for n in 1..=64usize {
                for i in 0..n {
                    shapes.push((n, i));
                }
            }
        }
    }
    // (secs, sub-second micros)
    let mids: Vec<(u64, u64)> = vec![(0, 0), (0, 1), (1, 999_999), ((1 << 31) - 1, 0), (1 << 31, 500_000), (1_790_000_000, 123_456), (7_258_118_400, 1), (253_402_300_799, 999_999)];
    let mut cases = vec![];
    for v in [Version::Classic, Version::Ietf13] {
        for (si, &(n, i)) in shapes.iter().enumerate() {
            for (mi, &m) in mids.iter().enumerate() {
                // thin the product in the quick tier: every shape with 2 midpoints, every midpoint with 3 shapes
                if ctx.tier == Tier::Quick && !(mi == si % mids.len() || mi == (si + 3) % mids.len() || si < 3) {
                    continue;
                }
                for key in [None, Some(false), Some(true)] {
                    if ctx.tier == Tier::Quick && key == Some(true) && (si + mi) % 3 != 0 {
                        continue;
                    }
                    cases.push((v, n, i, m, key, (si + mi) % 4 == 0, false));
                    // the classic reply as the original protocol lays it out (no NONC echo)
                    if v == Version::Classic && (si + mi) % 2 == 0 {
                        cases.push((v, n, i, m, key, false, true));
                    }
                }
            }
        }
    }
    par_for(cases.len(), 4, |k, _| {
        let (v, n, i, (secs, sub), key, js, no_echo) = cases[k];
        let sc = Scenario { v, n, i, stamp: Stamp::at(v, secs, sub) };
        let out = match execute(&sc, &if no_echo { Op::SetField("NONC", "omit") } else { Op::Honest }, key, js, &[]) {
            Ok(o) => o,
            Err(e) => {
                *failed.lock().unwrap() = Some(e);
                return;
            }
        };
        evals.fetch_add(1, Relaxed);
        let want = match v {
            Version::Classic => (secs, (sub * 1000) as u32),
            Version::Ietf13 => (secs, 0),
        };
        let detail = |msg: String| json!({"kind":"honest","peer":"reference-responder","version":v.name(),"n":n,"i":i,"midpoint":[secs, sub],"key":format!("{:?}", key),"json":js,"reply_without_nonc_echo":no_echo,"message":msg,
            "exit":out.run.exit.code,"stdout":out.run.exit.stdout,"stderr_first":out.run.exit.stderr.lines().take(3).collect::<Vec<_>>(),"reply":hex_trunc(&out.reply, 2048),"request":hex_trunc(&out.run.requests[0].0, 2048)});
        let cls;
        if !out.accepted {
            cls = "rejected";
            ctx.violation("honest-reply-rejected", if out.run.exit.stderr.contains("merkle") { "merkle" } else { "other" }, &format!("{}{}", v.name(), if n > 1 { "/n>=2" } else { "/n=1" }), detail("client failed on an honest reply".into()));
        } else {
            cls = "accepted";
            if out.times != vec![want] {
                ctx.violation("printed-time-differs", "client", v.name(), detail(format!("printed {:?}, signed midpoint converts to {:?}", out.times, want)));
            }
            if out.verified_yes != key.is_some() {
                ctx.violation("verified-flag", "client", v.name(), detail(format!("verified=Yes is {} but key given is {}", out.verified_yes, key.is_some())));
            }
            let idx_ok = out.run.exit.stderr.contains(&format!("merkle_index={})", i)) || out.run.exit.stdout.contains(&format!("\"merkle_index\": {} ", i));
            if !idx_ok {
                ctx.violation("merkle-index-differs", "client", v.name(), detail("printed merkle_index".into()));
            }
        }
        *classes.lock().unwrap().entry(format!("ref:{}:{}", v.name(), cls)).or_insert(0) += 1;
    });
    if let Some(e) = failed.lock().unwrap().take() {
        return Err(e);
    }
    // key spellings: lower/upper/mixed-case hex and base64 must all be accepted as the same key
    {
        let mut kcases = vec![];
        for v in [Version::Classic, Version::Ietf13] {
            for sp in 0..4u8 {
                for (n, i) in [(1usize, 0usize), (5, 2)] {
                    kcases.push((v, sp, n, i));
                }
            }
        }
        par_for(kcases.len(), 1, |k, _| {
            let (v, sp, n, i) = kcases[k];
            let sc = Scenario { v, n, i, stamp: Stamp::at(v, 1_790_000_000, 5) };
            KEY_SPELLING.with(|c| c.set(Some(sp)));
            let r = execute(&sc, &Op::Honest, Some(false), false, &[]);
            KEY_SPELLING.with(|c| c.set(None));
            match r {
                Err(e) => {
                    // a client that sends nothing (e.g. it died parsing the key) is a rejection, not a harness fault
                    if e.contains("client sent 0 of 1 requests") {
                        ctx.violation("honest-reply-rejected", "key-parsing", &format!("{}/key-spelling", v.name()), json!({"kind":"honest","peer":"reference-responder","version":v.name(),"key_spelling":sp,"message":e}));
                    } else {
                        *failed.lock().unwrap() = Some(e);
                    }
                }
                Ok(out) => {
                    evals.fetch_add(1, Relaxed);
                    if !out.accepted || !out.verified_yes {
                        ctx.violation("honest-reply-rejected", "key-parsing", &format!("{}/key-spelling", v.name()), json!({"kind":"honest","peer":"reference-responder","version":v.name(),"key_spelling":(["hex","base64","HEX","mixed-case hex"][sp as usize]),"n":n,"i":i,
                            "exit":out.run.exit.code,"stdout":out.run.exit.stdout,"stderr_first":out.run.exit.stderr.lines().take(3).collect::<Vec<_>>()}));
                    }
                }
            }
        });
        if let Some(e) = failed.lock().unwrap().take() {
            return Err(e);
        }
    }
    // default time format (UTC) against the reference calendar conversion
    for v in [Version::Classic, Version::Ietf13] {
        for &(secs, sub) in &[(0u64, 0u64), (951_782_400, 0), (2_147_483_648, 7), (253_402_300_799, 0)] {
            let sc = Scenario { v, n: 1, i: 0, stamp: Stamp::at(v, secs, sub) };
            let proto = if v == Version::Classic { "0" } else { "13" };
            let run = run_client(&["-z", "-p", proto, "-t", "5"], 1, |reqs| vec![vec![apply(&Op::Honest, &sc, &reqs[0].0, &[])]])?;
            evals.fetch_add(1, Relaxed);
            let want = rtref::time::default_format_utc(secs);
            let got = run.exit.stdout.lines().last().unwrap_or("").trim().to_string();
            // chrono prints "UTC" for %Z of a Utc value
            if run.exit.code != Some(0) || got != want {
                ctx.violation(if run.exit.code != Some(0) { "honest-reply-rejected" } else { "printed-time-differs" }, if run.exit.stderr.contains("merkle") { "merkle" } else { "other" }, &format!("{}/default-format", v.name()),
                    json!({"kind":"honest","peer":"reference-responder","version":v.name(),"secs":secs,"want":want,"got":got,"exit":run.exit.code,"stderr_first":run.exit.stderr.lines().take(3).collect::<Vec<_>>()}));
            }
        }
    }
    // local time zones: without -z the client prints local time. The instant it names must still be
    // the signed midpoint (%s), and the local calendar fields must be the midpoint shifted by the
    // zone's offset at that instant (offsets of the table below are facts of the tz database,
    // cross-checked when the table was written; POSIX TZ strings carry their own offset).
    {
        // (TZ, [(unix seconds, UTC offset in seconds)])
        let ny: Vec<(u64, i64)> = vec![(1_768_478_400, -18000), (1_784_116_800, -14400), (1_772_937_000, -18000), (1_793_496_600, -14400)];
        let fixed = |off: i64| -> Vec<(u64, i64)> { vec![(1_768_478_400, off), (1_784_116_800, off), (1_772_937_000, off), (1_793_496_600, off), (253_402_214_399, off), (86_400, off)] };
        let mut zones: Vec<(&str, Vec<(u64, i64)>)> = vec![("UTC", fixed(0)), ("JST-9", fixed(32400)), ("EST5", fixed(-18000)), ("<+0545>-5:45", fixed(20700))];
        if std::path::Path::new("/usr/share/zoneinfo/Asia/Tokyo").exists() {
            zones.push(("Asia/Tokyo", fixed(32400)));
        }
        if std::path::Path::new("/usr/share/zoneinfo/America/New_York").exists() {
            zones.push(("America/New_York", ny));
        }
        let mut tcases = vec![];
        for (tz, pts) in &zones {
            for (pi, &(secs, off)) in pts.iter().enumerate() {
                for v in [Version::Classic, Version::Ietf13] {
                    for utc_flag in [false, true] {
                        if ctx.tier == Tier::Quick && utc_flag && pi > 1 {
                            continue;
                        }
                        tcases.push((tz.to_string(), secs, off, v, utc_flag));
                    }
                }
            }
        }
        par_for(tcases.len(), 2, |k, _| {
            let (tz, secs, off, v, utc_flag) = tcases[k].clone();
            let sc = Scenario { v, n: 1, i: 0, stamp: Stamp::at(v, secs, 250_000) };
            let proto = if v == Version::Classic { "0" } else { "13" };
            let mut args = vec!["-p", proto, "-t", "5", "-f", "%s %f|%Y-%m-%d %H:%M:%S %z"];
            if utc_flag {
                args.push("-z");
            }
            let run = match crate::proc::run_client_tz(&args, 1, &tz, |reqs| vec![vec![apply(&Op::Honest, &sc, &reqs[0].0, &[])]]) {
                Ok(r) => r,
                Err(e) => {
                    *failed.lock().unwrap() = Some(e);
                    return;
                }
            };
            evals.fetch_add(1, Relaxed);
            let nanos = if v == Version::Classic { 250_000_000u32 } else { 0 };
            let eff = if utc_flag { 0 } else { off };
            let c = rtref::time::civil_from_unix((secs as i64 + eff) as u64);
            let want = format!("{} {:09}|{:04}-{:02}-{:02} {:02}:{:02}:{:02} {}{:02}{:02}", secs, nanos, c.year, c.month, c.day, c.hour, c.min, c.sec, if eff < 0 { '-' } else { '+' }, eff.abs() / 3600, eff.abs() % 3600 / 60);
            let got = run.exit.stdout.lines().last().unwrap_or("").trim().to_string();
            *classes.lock().unwrap().entry(format!("tz:{}:{}", tz, if got == want { "as-expected" } else { "differs" })).or_insert(0) += 1;
            if run.exit.code != Some(0) || got != want {
                ctx.violation(if run.exit.code != Some(0) { "honest-reply-rejected" } else { "printed-time-differs" }, "local-time", &format!("{}/{}", v.name(), if utc_flag { "utc-flag" } else { "local-zone" }),
                    json!({"kind":"honest-tz","peer":"reference-responder","version":v.name(),"tz":tz,"secs":secs,"utc_flag":utc_flag,"want":want,"got":got,"exit":run.exit.code,"stderr_first":run.exit.stderr.lines().take(3).collect::<Vec<_>>()}));
            }
        });
        if let Some(e) = failed.lock().unwrap().take() {
            return Err(e);
        }
        ctx.cov("time_zone_cases", json!({"zones": zones.iter().map(|z| z.0).collect::<Vec<_>>(), "runs": tcases.len()}));
    }
    // (1b) -n k against the reference responder: the k requests form one batch, each gets its honest
    // reply, and the replies are sent in request order or in reverse order (an honest responder owes
    // no particular order across a client's requests)
    {
        let mut mcases = vec![];
        for v in [Version::Classic, Version::Ietf13] {
            for k in ctx.tier.pick(vec![2usize, 3], vec![2, 3, 4, 8]) {
                for reversed in [false, true] {
                    for key in [None, Some(false)] {
                        mcases.push((v, k, reversed, key));
                    }
                }
            }
        }
        par_for(mcases.len(), 2, |c, _| {
            let (v, k, reversed, key) = mcases[c];
            let proto = if v == Version::Classic { "0" } else { "13" };
            let kstr = k.to_string();
            let keyhex = key.map(|b| key_arg(b));
            let mut args: Vec<&str> = vec!["-z", "-v", "-f", "%s %f", "-p", proto, "-t", "5", "-n", &kstr];
            if let Some(kh) = &keyhex {
                args.push("-k");
                args.push(kh);
            }
            let stamp = Stamp::at(v, 1_790_000_000, 42);
            crate::proc::REPLY_ORDER_REVERSED.with(|r| r.set(reversed));
            let run = crate::proc::run_client(&args, k, |reqs| {
                let batch: Vec<Vec<u8>> = reqs.iter().map(|r| r.0.clone()).collect();
                (0..k).map(|i| vec![honest_parts(v, &s1(), &batch, i, stamp).datagram()]).collect()
            });
            crate::proc::REPLY_ORDER_REVERSED.with(|r| r.set(false));
            let run = match run {
                Ok(r) => r,
                Err(e) => {
                    *failed.lock().unwrap() = Some(e);
                    return;
                }
            };
            evals.fetch_add(1, Relaxed);
            let times = printed_times(&run.exit.stdout);
            let ok = run.exit.code == Some(0) && times.len() == k;
            *classes.lock().unwrap().entry(format!("multi:{}:n{}:{}:{}", v.name(), k, if reversed { "reversed" } else { "in-order" }, if ok { "accepted" } else { "rejected" })).or_insert(0) += 1;
            if !ok {
                ctx.violation("honest-reply-rejected", if run.exit.stderr.contains("merkle") { "merkle" } else { "other" }, &format!("{}/n>=2/{}", v.name(), if reversed { "replies-in-reverse-order" } else { "replies-in-order" }),
                    json!({"kind":"honest-multi","peer":"reference-responder","version":v.name(),"n":k,"replies_sent_in_reverse_order":reversed,"key":key.is_some(),"message":format!("{} of {} times printed", times.len(), k),"exit":run.exit.code,"stdout":run.exit.stdout.lines().take(8).collect::<Vec<_>>(),"stderr_first":run.exit.stderr.lines().filter(|l| l.contains("panicked") || l.contains("Nonce")).take(3).collect::<Vec<_>>()}));
            }
        });
        if let Some(e) = failed.lock().unwrap().take() {
            return Err(e);
        }
        ctx.cov("multi_request_runs", json!(mcases.len()));
    }
    // (2) the real server binary as honest peer, -n k so requests really land in batches
    let real_n = crate::proc::c03_real_server_part(ctx, &classes)?;
    let mixed_n = crate::proc::c03_mixed_company_part(ctx, &classes)?;
    ctx.cov("real_server_mixed_company_runs", json!(mixed_n));
    let real_n = real_n + mixed_n;
    ctx.cov("evaluations", json!(evals.load(Relaxed) + real_n));
    ctx.cov("distinct_nontrivial", json!(evals.load(Relaxed) + real_n));
    ctx.cov("outcome_classes", json!(*classes.lock().unwrap()));
    ctx.cov("exhaustive", json!(true));
    ctx.cov("bound", json!({"batch_shapes": shapes.len(), "midpoints": mids.len(), "real_server_runs": real_n}));
    ctx.cov("rule", json!("each case = one execution of the real client against (1) the reference responder placing the client's request at position i of a batch of n (quick: all i for n in {1,2,3,5,8}, i in {0,31,63} for 64; thorough: all 2080 shapes n<=64) with a signed midpoint from {0, 1us, 1.999999s, 2^31-1, 2^31, now, year 2200, 9999-12-31T23:59:59.999999}, version x key option {none, hex, base64} x plain/JSON; classic replies also in the original layout without the NONC echo; the key spelled as lower/upper/mixed-case hex and base64; (1b) -n k against the reference responder (the k requests one batch), replies sent in request order and in reverse order; (2) the real server binary with -n k (batch sizes 64 and 3, 1 and 4 workers), and through a forwarding proxy that queues the client's requests on a stopped (SIGSTOP/SIGCONT) one-worker server together with a request of the other protocol and/or a junk datagram in front of, between or behind them, so that they share one batch. Oracle: exit 0, printed time == signed midpoint converted from the protocol unit (independent calendar conversion for the default format), verified=Yes iff a key was given, merkle_index == i. Local time: the client run under TZ in {UTC, JST-9, EST5, <+0545>-5:45, Asia/Tokyo, America/New_York} with and without -z at instants either side of the 2026 DST changes (including instants whose UTC calendar fields fall into New York's skipped and repeated hour): %s == midpoint and the calendar fields == midpoint + zone offset."));
    ctx.sample(json!({"peer":"reference-responder","version":"ietf13","n":5,"i":3,"midpoint":[2147483648u64, 500000],"key":"hex"}));
    ctx.sample(json!({"peer":"real-server","version":"classic","n":8}));
    Ok(())
}

pub fn replay_case_c03(c: &Value) -> Result<Option<String>, String> {
    if c["kind"] == "honest-tz" {
        let v = if c["version"] == "classic" { Version::Classic } else { Version::Ietf13 };
        let secs = c["secs"].as_u64().ok_or("secs")?;
        let tz = c["tz"].as_str().ok_or("tz")?;
        let utc_flag = c["utc_flag"].as_bool().unwrap_or(false);
        let sc = Scenario { v, n: 1, i: 0, stamp: Stamp::at(v, secs, 250_000) };
        let mut args = vec!["-p", if v == Version::Classic { "0" } else { "13" }, "-t", "5", "-f", "%s %f|%Y-%m-%d %H:%M:%S %z"];
        if utc_flag {
            args.push("-z");
        }
        let run = crate::proc::run_client_tz(&args, 1, tz, |reqs| vec![vec![apply(&Op::Honest, &sc, &reqs[0].0, &[])]])?;
        let got = run.exit.stdout.lines().last().unwrap_or("").trim().to_string();
        return Ok(if run.exit.code == Some(0) && Some(got.as_str()) == c["want"].as_str() { None } else { Some(format!("exit {:?}, printed {:?}, want {}", run.exit.code, got, c["want"])) });
    }
    if c["kind"] != "honest" || c["peer"] != "reference-responder" || c["midpoint"].is_null() {
        return Err("replay of this case kind: re-run the check".into());
    }
    let v = if c["version"] == "classic" { Version::Classic } else { Version::Ietf13 };
    let n = c["n"].as_u64().unwrap_or(1) as usize;
    let i = c["i"].as_u64().unwrap_or(0) as usize;
    let secs = c["midpoint"][0].as_u64().unwrap_or(0);
    let sub = c["midpoint"][1].as_u64().unwrap_or(0);
    let key = match c["key"].as_str() {
        Some("Some(false)") => Some(false),
        Some("Some(true)") => Some(true),
        _ => None,
    };
    let sc = Scenario { v, n, i, stamp: Stamp::at(v, secs, sub) };
    let out = execute(&sc, &if c["reply_without_nonc_echo"].as_bool().unwrap_or(false) { Op::SetField("NONC", "omit") } else { Op::Honest }, key, false, &[])?;
    Ok(if out.accepted { None } else { Some(format!("client rejected an honest reply: {}", out.run.exit.stderr.lines().next().unwrap_or(""))) })
}

#[allow(dead_code)]
fn unused(_: &Msg) {}
