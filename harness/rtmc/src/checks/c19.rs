//! C19 — SIGINT or SIGTERM at any moment stops the server cleanly and promptly.
//!   part 1: signal position sweep under the controlled scheduler (E-SCHED)
//!   part 2: open-loop flood lasso (adversarial environment at batch boundaries)
//!   part 3: wall-clock conformance run (sampled)

use crate::ev::{Ctx, Tier};
use crate::proc::{free_port, ServerProc, Source, Written};
use crate::sched::{explore, EnvAct, Expect, Scenario, SchedSummary, Slot};
use rtref::Version;
use serde_json::{json, Value};
use std::time::{Duration, Instant};

fn env_with_signal(slot: &Slot, n: usize, k: usize, sig: i32, pos: usize) -> Option<Vec<EnvAct>> {
    // requests alternate over workers and protocols
    let mut env = vec![];
    let mut used = std::collections::BTreeSet::new();
    for i in 0..k {
        let w = i % n;
        let c = *slot.map.get(&(n, w))?.iter().find(|c| !used.contains(*c))?;
        used.insert(c);
        env.push(EnvAct::Send(c, if i % 2 == 0 { Version::Classic } else { Version::Ietf13 }));
    }
    env.insert(pos.min(env.len()), EnvAct::Signal(sig));
    Some(env)
}

pub fn run(ctx: &Ctx) -> Result<(), String> {
    ctx.set_level("model_checking");
    crate::inproc::init();
    let mut sched = SchedSummary::default();
    // part 1
    let plans: Vec<(usize, bool, usize, usize)> = ctx.tier.pick(
        // bound 64 = all interleavings at hook granularity
        vec![(1, false, 1, 64), (1, true, 1, 2), (2, false, 2, 1)],
        vec![(1, false, 2, 64), (1, true, 2, 64), (1, false, 3, 3), (2, false, 2, 3), (2, true, 2, 2), (2, false, 3, 2), (4, false, 2, 1)],
    ); // (N, stats, K, bound)
    for (n, stats, k, bound) in plans {
        for (si, sig) in [libc::SIGINT, libc::SIGTERM].into_iter().enumerate() {
            for pos in 0..=k {
                // quick: alternate the signal over positions instead of the full product
                if ctx.tier == Tier::Quick && (pos + si) % 2 != 0 {
                    continue;
                }
                let scn = Scenario {
                    name: format!("shutdown-n{}-stats{}-k{}-{}-pos{}", n, stats as u8, k, if sig == libc::SIGINT { "INT" } else { "TERM" }, pos),
                    workers: n,
                    health: false,
                    stats,
                    batch_size: 2,
                    env: vec![],
                    idle_iteration: false,
                    horizon: 400,
                    expect: Expect::CleanExit,
                    probe_at_end: false,
                };
                let s = explore(ctx, if stats { "client_stats on" } else { "client_stats off" }, &scn, &move |slot: &Slot| env_with_signal(slot, n, k, sig, pos), bound, ctx.tier.pick(1500, 30000), Duration::from_secs(ctx.tier.pick(25, 50)))?;
                sched.merge(s);
            }
        }
    }
    // a second signal while the first is being acted upon (an operator's second Ctrl-C, a service
    // manager's TERM after INT): the second delivery is an environment action like the first and is
    // placed at every point of the shutdown that follows the first
    {
        let plans: Vec<(usize, bool, usize, usize, i32, i32)> = ctx.tier.pick(
            vec![(1, false, 1, 64, libc::SIGINT, libc::SIGTERM), (1, true, 1, 2, libc::SIGTERM, libc::SIGINT)],
            vec![(1, false, 1, 64, libc::SIGINT, libc::SIGTERM), (1, false, 2, 64, libc::SIGTERM, libc::SIGTERM), (1, true, 1, 64, libc::SIGTERM, libc::SIGINT), (2, false, 2, 2, libc::SIGINT, libc::SIGINT), (2, true, 2, 2, libc::SIGINT, libc::SIGTERM)],
        );
        for (n, stats, k, bound, s1, s2) in plans {
            for pos in 0..=k {
                if ctx.tier == Tier::Quick && pos != 0 {
                    continue;
                }
                let name = |s: i32| if s == libc::SIGINT { "INT" } else { "TERM" };
                let scn = Scenario {
                    name: format!("shutdown-n{}-stats{}-k{}-{}-pos{}-then-{}", n, stats as u8, k, name(s1), pos, name(s2)),
                    workers: n,
                    health: false,
                    stats,
                    batch_size: 2,
                    env: vec![],
                    idle_iteration: false,
                    horizon: 400,
                    expect: Expect::CleanExit,
                    probe_at_end: false,
                };
                let s = explore(ctx, if stats { "client_stats on/second-signal" } else { "client_stats off/second-signal" }, &scn, &move |slot: &Slot| {
                    let mut e = env_with_signal(slot, n, k, s1, pos)?;
                    e.push(EnvAct::Signal(s2));
                    Some(e)
                }, bound, ctx.tier.pick(1500, 30000), Duration::from_secs(ctx.tier.pick(25, 50)))?;
                sched.merge(s);
            }
        }
    }
    // a health-check connection that is opened and then left silent and open (a connect-only probe
    // of a load balancer) while the signal arrives: the worker must not wait for that peer
    {
        // (one worker: with several, the kernel picks the listener that gets the connection by the
        // client's ephemeral port, which the controller does not own)
        let plans: Vec<(usize, usize, i32)> = ctx.tier.pick(vec![(1, 64, libc::SIGINT)], vec![(1, 64, libc::SIGINT), (1, 64, libc::SIGTERM)]);
        for (n, bound, sig) in plans {
            let scn = Scenario {
                name: format!("shutdown-n{}-health-silent-connection-{}", n, if sig == libc::SIGINT { "INT" } else { "TERM" }),
                workers: n,
                health: true,
                stats: false,
                batch_size: 2,
                env: vec![],
                idle_iteration: false,
                horizon: 400,
                expect: Expect::CleanExit,
                probe_at_end: false,
            };
            let s = explore(ctx, "client_stats off/open-health-connection", &scn, &move |slot: &Slot| {
                let mut e = env_with_signal(slot, n, 1, sig, 1)?;
                e.insert(0, EnvAct::ConnectTcp);
                Some(e)
            }, bound, ctx.tier.pick(1500, 30000), Duration::from_secs(ctx.tier.pick(25, 50)))?;
            sched.merge(s);
        }
    }
    // a burst that the worker takes in one call of process_events, of sizes around the most it takes
    // per call (16 batches), then silence, then the signal: sends, wait until the worker is back at
    // the top of its loop, signal
    {
        let plans: Vec<(u8, usize, i32)> = ctx.tier.pick(
            vec![(1, 16, libc::SIGINT), (2, 32, libc::SIGTERM)],
            vec![(1, 15, libc::SIGINT), (1, 16, libc::SIGINT), (1, 16, libc::SIGTERM), (1, 17, libc::SIGTERM), (1, 32, libc::SIGINT), (2, 31, libc::SIGINT), (2, 32, libc::SIGTERM), (2, 33, libc::SIGINT)],
        );
        for (bs, k, sig) in plans {
            let scn = Scenario {
                name: format!("shutdown-n1-bs{}-burst{}-idle-{}", bs, k, if sig == libc::SIGINT { "INT" } else { "TERM" }),
                workers: 1,
                health: false,
                stats: false,
                batch_size: bs,
                env: vec![],
                idle_iteration: false,
                horizon: 400 + 8 * k,
                expect: Expect::CleanExit,
                probe_at_end: false,
            };
            let s = explore(ctx, "client_stats off/burst-then-idle", &scn, &move |slot: &Slot| {
                let cs = slot.map.get(&(1, 0))?;
                let mut e: Vec<EnvAct> = (0..k).map(|i| EnvAct::Send(cs[i % cs.len().min(4)], if i % 3 == 0 { Version::Ietf13 } else { Version::Classic })).collect();
                e.push(EnvAct::WaitIdle);
                e.push(EnvAct::Signal(sig));
                Some(e)
            }, 0, ctx.tier.pick(1500, 30000), Duration::from_secs(ctx.tier.pick(25, 50)))?;
            sched.merge(s);
        }
    }
    // part 2: flood lasso
    let lasso = crate::sched::flood_lasso(ctx)?;
    // part 4: TLA+ lifecycle model (TLC: invariants + termination under fairness) bound to the
    // implementation by replaying a transition cover of its state graph under the controller
    let mut model_runs = vec![];
    let mut model_traces = 0u64;
    let mut model_states = 0u64;
    let mut model_trans = 0u64;
    for (n, stats) in ctx.tier.pick(vec![(1usize, true), (2, false)], vec![(1, false), (1, true), (2, false), (2, true), (3, false), (3, true)]) {
        let r = crate::sched::lifecycle_conformance(ctx, n, stats)?;
        model_traces += r["traces_replayed"].as_u64().unwrap_or(0);
        model_states += r["model_states"].as_u64().unwrap_or(0);
        model_trans += r["model_transitions"].as_u64().unwrap_or(0);
        model_runs.push(r);
    }
    ctx.cov("lifecycle_model", json!(model_runs));

    // part 3: wall-clock conformance (sampled): idle and closed-loop, swept delays, both signals
    let mut sampled = vec![];
    {
        let ns: Vec<usize> = ctx.tier.pick(vec![1, 4], vec![1, 4, 16]);
        let delays: Vec<u64> = ctx.tier.pick(vec![0, 50, 130], vec![0, 10, 50, 100, 130, 200, 300]);
        for &nw in &ns {
            for stats in [false, true] {
                for (di, &d) in delays.iter().enumerate() {
                    let sig = if (di + nw) % 2 == 0 { libc::SIGINT } else { libc::SIGTERM };
                    let dir = crate::proc::scratch_dir();
                    let dirs = dir.display().to_string();
                    let (mut sp, port) = crate::proc::start_serving(
                        &|port| {
                            let mut w = Written::base(port);
                            w.set("num_workers", &nw.to_string());
                            if stats {
                                w.set("client_stats", "on");
                                w.set("persistence_directory", &dirs);
                            }
                            w
                        },
                        Source::File,
                        nw,
                        Duration::from_secs(20),
                    )?;
                    if stats {
                        std::thread::sleep(Duration::from_millis(50));
                    }
                    // closed-loop load for the odd delays
                    let lt_pk = rtref::crypto::public_key(&rtref::crypto::unhex(crate::proc::BASE_SEED_HEX).try_into().unwrap());
                    if di % 2 == 1 {
                        let _ = crate::proc::probe_workers(port, &lt_pk, nw + 1, 16, false);
                    }
                    std::thread::sleep(Duration::from_millis(d));
                    let t0 = Instant::now();
                    sp.signal(sig);
                    let ex = sp.wait_exit(Duration::from_secs(10));
                    let secs = t0.elapsed().as_secs_f64();
                    let se = sp.stderr();
                    let ok = matches!(ex, Some((Some(0), _, _))) && secs <= 5.0 && !se.contains("panicked");
                    sampled.push(json!({"num_workers":nw,"client_stats":stats,"delay_ms":d,"signal":if sig == libc::SIGINT {"INT"} else {"TERM"},"exit":format!("{:?}", ex.map(|e| (e.0, e.1))),"seconds":(secs * 1000.0).round() / 1000.0}));
                    if !ok {
                        ctx.violation("wall-clock-shutdown", if ex.is_none() { "no-exit-10s" } else { "unclean" }, if stats { "client_stats on" } else { "client_stats off" },
                            json!({"kind":"wallclock","num_workers":nw,"client_stats":stats,"delay_ms":d,"signal":sig,"exit":format!("{:?}", ex),"seconds":secs,"stderr":se.lines().filter(|l| l.contains("panicked")).take(2).collect::<Vec<_>>()}));
                    }
                    sp.kill();
                    let _ = std::fs::remove_dir_all(&dir);
                }
            }
        }
    }
    // idle reaction time: with the built-in poll timeout (no override) every idle call of the event
    // loop must return promptly, however long the worker has been idle — it is the only thing that
    // brings an idle worker back to the shutdown-flag check ("within a few seconds")
    {
        roughenough::verif::set_poll_override_ms(-1);
        let r = crate::util::on_named_thread("worker-0", || -> Result<Vec<f64>, String> {
            let mut srv = crate::inproc::Srv::new(&crate::inproc::SrvCfg::default())?;
            let mut durs = vec![];
            for _ in 0..ctx.tier.pick(10, 14) {
                let t = Instant::now();
                srv.step()?;
                durs.push(t.elapsed().as_secs_f64());
            }
            Ok(durs)
        });
        roughenough::verif::set_poll_override_ms(0);
        let durs = r?;
        let worst = durs.iter().cloned().fold(0.0f64, f64::max);
        sampled.push(json!({"idle_steps": durs.len(), "idle_step_seconds": durs.iter().map(|d| (d * 1000.0).round() / 1000.0).collect::<Vec<_>>()}));
        if worst > 2.0 {
            ctx.violation("idle-step-too-long", "poll-timeout", "idle", json!({"kind":"idle-steps","seconds":durs,"message":format!("an idle call of process_events took {:.1} s: an idle worker would look at the shutdown flag only that often", worst)}));
        }
    }
    // short status interval with per-client statistics under closed-loop load (sampled): the stats
    // hand-off fires every 100 ms while the reporter drains once a second
    {
        let plans: Vec<(usize, i32)> = ctx.tier.pick(vec![(2, libc::SIGINT)], vec![(1, libc::SIGTERM), (2, libc::SIGINT), (4, libc::SIGTERM)]);
        for (nw, sig) in plans {
            let dir = crate::proc::scratch_dir();
            let dirs = dir.display().to_string();
            let (mut sp, port) = crate::proc::start_serving(
                &|port| {
                    let mut w = Written::base(port);
                    w.set("num_workers", &nw.to_string());
                    w.set("client_stats", "on");
                    w.set("persistence_directory", &dirs);
                    w.set("status_interval", "1");
                    w
                },
                Source::File,
                nw,
                Duration::from_secs(20),
            )?;
            let lt_pk = rtref::crypto::public_key(&rtref::crypto::unhex(crate::proc::BASE_SEED_HEX).try_into().unwrap());
            // closed-loop load from 8 threads that keeps running while the signal is delivered
            let stop = std::sync::atomic::AtomicBool::new(false);
            let answered_a = std::sync::atomic::AtomicUsize::new(0);
            let (ex, secs) = std::thread::scope(|sc| {
                for t in 0..8u64 {
                    let stop = &stop;
                    let answered_a = &answered_a;
                    sc.spawn(move || {
                        let sock = std::net::UdpSocket::bind("127.0.0.1:0").unwrap();
                        sock.set_read_timeout(Some(Duration::from_millis(300))).unwrap();
                        let addr: std::net::SocketAddr = format!("127.0.0.1:{}", port).parse().unwrap();
                        let mut buf = [0u8; 2048];
                        let mut k = 0u64;
                        while !stop.load(std::sync::atomic::Ordering::Relaxed) {
                            k += 1;
                            let req = rtref::responder::std_request(Version::Classic, &crate::inproc::nonce((t << 32) + k, 64));
                            let _ = sock.send_to(&req, addr);
                            if sock.recv_from(&mut buf).is_ok() {
                                answered_a.fetch_add(1, std::sync::atomic::Ordering::Relaxed);
                            }
                        }
                    });
                }
                std::thread::sleep(Duration::from_millis(1600));
                let t0 = Instant::now();
                sp.signal(sig);
                let ex = sp.wait_exit(Duration::from_secs(15));
                let secs = t0.elapsed().as_secs_f64();
                stop.store(true, std::sync::atomic::Ordering::Relaxed);
                (ex, secs)
            });
            let answered = answered_a.load(std::sync::atomic::Ordering::Relaxed);
            let _ = &lt_pk;
            let se = sp.stderr();
            let ok = matches!(ex, Some((Some(0), _, _))) && secs <= 5.0 && !se.contains("panicked");
            sampled.push(json!({"num_workers":nw,"client_stats":true,"status_interval":1,"load":"8 closed-loop clients, still running at the signal","answered":answered,"signal":if sig == libc::SIGINT {"INT"} else {"TERM"},"exit":format!("{:?}", ex.map(|e| (e.0, e.1))),"seconds":(secs * 1000.0).round() / 1000.0}));
            if !ok {
                ctx.violation("wall-clock-shutdown", if ex.is_none() { "no-exit-15s" } else { "slow-or-unclean" }, "client_stats on/status_interval 1",
                    json!({"kind":"wallclock-stats","num_workers":nw,"signal":sig,"exit":format!("{:?}", ex),"seconds":secs,"answered":answered}));
            }
            sp.kill();
            let _ = std::fs::remove_dir_all(&dir);
        }
    }
    // per-client statistics with the shortest status intervals the configuration accepts (sampled):
    // the reporter thread must still notice the shutdown flag
    for (interval, sig) in [("0", libc::SIGINT), ("0", libc::SIGTERM), ("1", libc::SIGINT)] {
        let dir = crate::proc::scratch_dir();
        let dirs = dir.display().to_string();
        let started = crate::proc::start_serving(
            &|port| {
                let mut w = Written::base(port);
                w.set("num_workers", "2");
                w.set("client_stats", "on");
                w.set("persistence_directory", &dirs);
                w.set("status_interval", interval);
                w
            },
            Source::File,
            2,
            Duration::from_secs(20),
        );
        let (mut sp, _port) = match started {
            Ok(x) => x,
            Err(_) if interval == "0" => {
                // a server that refuses status_interval 0 is not this property's concern
                let _ = std::fs::remove_dir_all(&dir);
                continue;
            }
            Err(e) => return Err(e),
        };
        std::thread::sleep(Duration::from_millis(300));
        let t0 = Instant::now();
        sp.signal(sig);
        let ex = sp.wait_exit(Duration::from_secs(10));
        let secs = t0.elapsed().as_secs_f64();
        let se = sp.stderr();
        sampled.push(json!({"num_workers":2,"client_stats":true,"status_interval":interval,"signal":if sig == libc::SIGINT {"INT"} else {"TERM"},"exit":format!("{:?}", ex.map(|e| (e.0, e.1))),"seconds":(secs * 1000.0).round() / 1000.0}));
        if !(matches!(ex, Some((Some(0), _, _))) && secs <= 5.0 && !se.contains("panicked")) {
            ctx.violation("wall-clock-shutdown", if ex.is_none() { "no-exit-10s" } else { "unclean" }, &format!("client_stats on/status_interval {}", interval),
                json!({"kind":"wallclock-interval","status_interval":interval,"signal":sig,"exit":format!("{:?}", ex),"seconds":secs}));
        }
        sp.kill();
        let _ = std::fs::remove_dir_all(&dir);
    }
    // an open, silent health-check connection at the signal (sampled)
    for sig in [libc::SIGINT, libc::SIGTERM] {
        let hport = free_port();
        let (mut sp, _port) = crate::proc::start_serving(
            &|port| {
                let mut w = Written::base(port);
                w.set("num_workers", "2");
                w.set("health_check_port", &hport.to_string());
                w
            },
            Source::File,
            2,
            Duration::from_secs(20),
        )?;
        let conn = crate::util::tcp_connect(&format!("127.0.0.1:{}", hport).parse().unwrap(), Duration::from_secs(2));
        std::thread::sleep(Duration::from_millis(250));
        let t0 = Instant::now();
        sp.signal(sig);
        let ex = sp.wait_exit(Duration::from_secs(10));
        let secs = t0.elapsed().as_secs_f64();
        let se = sp.stderr();
        sampled.push(json!({"num_workers":2,"health_check_port":true,"silent_open_connection":conn.is_ok(),"signal":if sig == libc::SIGINT {"INT"} else {"TERM"},"exit":format!("{:?}", ex.map(|e| (e.0, e.1))),"seconds":(secs * 1000.0).round() / 1000.0}));
        if !(matches!(ex, Some((Some(0), _, _))) && secs <= 5.0 && !se.contains("panicked")) {
            ctx.violation("wall-clock-shutdown", if ex.is_none() { "no-exit-10s" } else { "unclean" }, "open-health-connection",
                json!({"kind":"wallclock-health-connection","signal":sig,"exit":format!("{:?}", ex),"seconds":secs}));
        }
        drop(conn);
        sp.kill();
    }
    // the server launched with SIGHUP or SIGINT inherited as ignored (under nohup; as a background
    // job of a script): SIGINT / SIGTERM still stop it with status 0 (sampled)
    for (ignored, name, sig) in [(libc::SIGHUP, "SIGHUP ignored at launch", libc::SIGTERM), (libc::SIGHUP, "SIGHUP ignored at launch", libc::SIGINT), (libc::SIGINT, "SIGINT ignored at launch", libc::SIGTERM), (libc::SIGINT, "SIGINT ignored at launch", libc::SIGINT)] {
        let mut done = false;
        for _attempt in 0..3 {
            let port = free_port();
            let mut w = Written::base(port);
            w.set("num_workers", "2");
            let mut sp = ServerProc::start_ignoring(&w, &[ignored])?;
            sp.wait_started(2, Duration::from_secs(10));
            if sp.try_status().is_some() {
                sp.kill();
                continue;
            }
            std::thread::sleep(Duration::from_millis(100));
            let t0 = Instant::now();
            sp.signal(sig);
            let ex = sp.wait_exit(Duration::from_secs(10));
            let secs = t0.elapsed().as_secs_f64();
            let se = sp.stderr();
            sampled.push(json!({"num_workers":2,"launch":name,"signal":if sig == libc::SIGINT {"INT"} else {"TERM"},"exit":format!("{:?}", ex.map(|e| (e.0, e.1))),"seconds":(secs * 1000.0).round() / 1000.0}));
            if !(matches!(ex, Some((Some(0), _, _))) && secs <= 5.0 && !se.contains("panicked")) {
                ctx.violation("wall-clock-shutdown", if ex.is_none() { "no-exit-10s" } else { "unclean" }, name,
                    json!({"kind":"wallclock-launch-environment","launch":name,"signal":sig,"exit":format!("{:?}", ex),"seconds":secs}));
            }
            sp.kill();
            done = true;
            break;
        }
        if !done {
            return Err("server did not start with an ignored signal inherited".into());
        }
    }
    // the signal delivered to a WORKER thread (kill -TERM <tid>; which thread the kernel picks for a
    // process-directed signal is its choice), and delivered while the process is stopped (sampled)
    for (how, sig) in [("worker-thread", libc::SIGTERM), ("worker-thread", libc::SIGINT), ("stopped-then-continued", libc::SIGTERM), ("stopped-then-continued", libc::SIGINT)] {
        let (mut sp, _port) = crate::proc::start_serving(
            &|port| {
                let mut w = Written::base(port);
                w.set("num_workers", "3");
                w
            },
            Source::File,
            3,
            Duration::from_secs(20),
        )?;
        std::thread::sleep(Duration::from_millis(150));
        let t0 = Instant::now();
        let mut target = String::new();
        if how == "worker-thread" {
            match sp.tid_of("worker-1") {
                Some(tid) => {
                    target = format!("worker-1 (tid {})", tid);
                    sp.signal_thread(tid, sig);
                }
                None => sp.signal(sig),
            }
        } else {
            sp.signal(libc::SIGSTOP);
            std::thread::sleep(Duration::from_millis(50));
            sp.signal(sig);
            std::thread::sleep(Duration::from_millis(50));
            sp.signal(libc::SIGCONT);
        }
        let ex = sp.wait_exit(Duration::from_secs(10));
        let secs = t0.elapsed().as_secs_f64();
        let se = sp.stderr();
        sampled.push(json!({"num_workers":3,"delivery":how,"target":target,"signal":if sig == libc::SIGINT {"INT"} else {"TERM"},"exit":format!("{:?}", ex.map(|e| (e.0, e.1))),"seconds":(secs * 1000.0).round() / 1000.0}));
        if !(matches!(ex, Some((Some(0), _, _))) && secs <= 5.0 && !se.contains("panicked")) {
            ctx.violation("wall-clock-shutdown", if ex.is_none() { "no-exit-10s" } else { "unclean" }, &format!("signal-delivery/{}", how),
                json!({"kind":"wallclock-delivery","delivery":how,"signal":sig,"exit":format!("{:?}", ex),"seconds":secs,"stderr":se.lines().filter(|l| l.contains("panicked")).take(2).collect::<Vec<_>>()}));
        }
        sp.kill();
    }
    // two signals a short while apart (sampled)
    for (stats, gap_ms, s1, s2) in [(false, 15u64, libc::SIGINT, libc::SIGTERM), (true, 250, libc::SIGTERM, libc::SIGINT), (false, 40, libc::SIGTERM, libc::SIGTERM)] {
        let dir = crate::proc::scratch_dir();
        let dirs = dir.display().to_string();
        let (mut sp, _port) = crate::proc::start_serving(
            &|port| {
                let mut w = Written::base(port);
                w.set("num_workers", "2");
                if stats {
                    w.set("client_stats", "on");
                    w.set("persistence_directory", &dirs);
                }
                w
            },
            Source::File,
            2,
            Duration::from_secs(20),
        )?;
        std::thread::sleep(Duration::from_millis(if stats { 120 } else { 30 }));
        let t0 = Instant::now();
        sp.signal(s1);
        std::thread::sleep(Duration::from_millis(gap_ms));
        sp.signal(s2);
        let ex = sp.wait_exit(Duration::from_secs(10));
        let secs = t0.elapsed().as_secs_f64();
        let se = sp.stderr();
        sampled.push(json!({"num_workers":2,"client_stats":stats,"signals":2,"gap_ms":gap_ms,"exit":format!("{:?}", ex.map(|e| (e.0, e.1))),"seconds":(secs * 1000.0).round() / 1000.0}));
        if !(matches!(ex, Some((Some(0), _, _))) && secs <= 5.0 && !se.contains("panicked")) {
            ctx.violation("wall-clock-shutdown", if ex.is_none() { "no-exit-10s" } else { "unclean" }, if stats { "client_stats on/second-signal" } else { "client_stats off/second-signal" },
                json!({"kind":"wallclock-two-signals","client_stats":stats,"gap_ms":gap_ms,"exit":format!("{:?}", ex),"seconds":secs}));
        }
        sp.kill();
        let _ = std::fs::remove_dir_all(&dir);
    }
    // long idle before the signal (thorough; sampled)
    if ctx.tier == Tier::Thorough {
        for (nw, sig) in [(1usize, libc::SIGTERM), (4, libc::SIGINT)] {
            let (mut sp, _port) = crate::proc::start_serving(
                &|port| {
                    let mut w = Written::base(port);
                    w.set("num_workers", &nw.to_string());
                    w
                },
                Source::File,
                nw,
                Duration::from_secs(20),
            )?;
            std::thread::sleep(Duration::from_secs(8));
            let t0 = Instant::now();
            sp.signal(sig);
            let ex = sp.wait_exit(Duration::from_secs(30));
            let secs = t0.elapsed().as_secs_f64();
            sampled.push(json!({"num_workers":nw,"idle_before_signal_s":8,"signal":if sig == libc::SIGINT {"INT"} else {"TERM"},"exit":format!("{:?}", ex.map(|e| (e.0, e.1))),"seconds":(secs * 1000.0).round() / 1000.0}));
            if !(matches!(ex, Some((Some(0), _, _))) && secs <= 5.0) {
                ctx.violation("wall-clock-shutdown", if ex.is_none() { "no-exit-30s" } else { "slow-or-unclean" }, "long-idle", json!({"kind":"wallclock-idle","num_workers":nw,"signal":sig,"exit":format!("{:?}", ex),"seconds":secs}));
            }
            sp.kill();
        }
    }
    // open-loop flood with the project's own stress client (sampled): the queue is kept non-empty
    {
        let plans: Vec<(usize, i32)> = ctx.tier.pick(vec![(2, libc::SIGINT)], vec![(1, libc::SIGINT), (2, libc::SIGTERM), (4, libc::SIGINT), (8, libc::SIGTERM)]);
        for (senders, sig) in plans {
            let (mut sp, port) = crate::proc::start_serving(
                &|port| {
                    let mut w = Written::base(port);
                    w.set("num_workers", "1");
                    w
                },
                Source::File,
                1,
                Duration::from_secs(20),
            )?;
            let mut kids = vec![];
            for _ in 0..senders {
                let c = std::process::Command::new(crate::proc::repo_bin("roughenough-client"))
                    .args(["-s", "127.0.0.1", &port.to_string()])
                    .stdin(std::process::Stdio::null())
                    .stdout(std::process::Stdio::null())
                    .stderr(std::process::Stdio::null())
                    .spawn()
                    .map_err(|e| format!("spawn stress client: {}", e))?;
                kids.push(c);
            }
            std::thread::sleep(Duration::from_millis(400));
            let t0 = Instant::now();
            sp.signal(sig);
            let ex = sp.wait_exit(Duration::from_secs(15));
            let secs = t0.elapsed().as_secs_f64();
            for mut k in kids {
                let _ = k.kill();
                let _ = k.wait();
            }
            let se = sp.stderr();
            let ok = matches!(ex, Some((Some(0), _, _))) && secs <= 5.0 && !se.contains("panicked");
            sampled.push(json!({"flood_senders":senders,"signal":if sig == libc::SIGINT {"INT"} else {"TERM"},"exit":format!("{:?}", ex.map(|e| (e.0, e.1))),"seconds":(secs * 1000.0).round() / 1000.0}));
            if !ok {
                ctx.violation("wall-clock-shutdown", if ex.is_none() { "no-exit-15s" } else { "slow-or-unclean" }, "open-loop-flood",
                    json!({"kind":"wallclock-flood","senders":senders,"signal":sig,"exit":format!("{:?}", ex),"seconds":secs}));
            }
            sp.kill();
        }
    }
    ctx.cov("states", json!(sched.states + lasso["rounds"].as_u64().unwrap_or(0) + model_states));
    ctx.cov("transitions", json!(sched.transitions + lasso["steps"].as_u64().unwrap_or(0) + model_trans));
    ctx.cov("traces_validated_against_impl", json!(sched.executions + lasso["executions"].as_u64().unwrap_or(0) + model_traces));
    ctx.cov("evaluations", json!(sched.executions + lasso["executions"].as_u64().unwrap_or(0)));
    ctx.cov("distinct_nontrivial", json!(sched.executions + lasso["executions"].as_u64().unwrap_or(0)));
    ctx.cov("controlled_schedules", sched.to_json());
    ctx.cov("flood_lasso", lasso);
    ctx.cov("sampled_wall_clock", json!(sampled));
    ctx.cov("caps_hit", json!(sched.caps_hit));
    ctx.cov("exhaustive", json!(sched.caps_hit.is_empty()));
    ctx.cov("rule", json!("(1) the real server process under the controlled scheduler: N workers, client_stats off/on, K requests; the environment action signal(INT|TERM) is placed at every position of the request program and, being an actor, is interleaved at every point of every explored schedule (iterative preemption bounding). Oracle: after the signal the process exits with status 0 under the fair default continuation within the horizon; no enabled actor while alive = deadlock; horizon exceeded = livelock; no panic text; every datagram a client received is an authentic reply. (2) flood lasso: after the flag is stored an adversarial environment refills the worker's socket with batch_size datagrams (valid / rejected / mixed) before every step of the worker inside process_events (per received datagram, per response, per batch); the worker must reach flag_check within the step bound of a bounded drain (a recurring abstract state without flag_check is a lasso). (4) a TLA+ model of the whole lifecycle (main, N workers, reporter, signal) checked by TLC for its invariants and for termination under weak fairness, bound to the implementation by replaying a transition cover of its state graph under the controller and comparing the enabled-actor sets at every step. A burst of exactly / one fewer / one more than 16 x batch_size requests taken by one worker in one call of process_events, then silence, then the signal (environment: sends, wait until the worker is idle at the top of its loop, signal). A second signal during the shutdown is an environment action too (scenarios named ..-then-INT/TERM): still exit 0. (3) sampled wall-clock runs of the free-running binary (idle / after closed-loop load, swept delays, both signals, client_stats off/on): exit 0 within 5 s."));
    ctx.sample(json!({"kind":"schedule","scenario":"shutdown-n2-stats0-k2-INT-pos1","schedule":["env:send(c1,C)","env:signal(INT)","worker-0@loop_top(0)","worker-0@polled(1)"]}));
    ctx.assume("signal delivery is one atomic environment action: kill(), then wait until the flag store is observed (the handler thread does nothing else)");
    ctx.assume("'a few seconds' is decided in steps (bounded liveness under the fair continuation); wall-clock runs are conformance evidence");
    Ok(())
}

pub fn replay_case(c: &Value) -> Result<Option<String>, String> {
    match c["kind"].as_str() {
        Some("schedule") => crate::sched::replay_schedule(c),
        Some("lasso") => {
            let bs = c["batch_size"].as_u64().unwrap_or(1) as u8;
            let r = crate::sched::flood_lasso_kind(bs, 30, c["datagrams"].as_str().unwrap_or("valid"))?;
            Ok(if r.0 { None } else { Some(format!("flag_check not reached in {} refill rounds", r.1)) })
        }
        _ => Err("replay of this case kind: re-run the check".into()),
    }
}
