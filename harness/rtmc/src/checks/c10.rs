//! C10 (key part) — server identity is a pure function of the seed and certifies every online key.

use super::alphabet::seeds_subset;
use crate::ev::Ctx;
use crate::util::{catch, hex, par_for};
use roughenough::key::{LongTermKey, OnlineKey};
use roughenough::version::Version as RV;
use rtref::{codec, crypto, Version};
use serde_json::{json, Value};
use std::sync::atomic::{AtomicU64, Ordering::Relaxed};

pub fn rv(v: Version) -> RV {
    match v {
        Version::Classic => RV::Google,
        Version::Ietf13 => RV::RfcDraft13,
    }
}

/// Check one CERT (encoded) against the identity of `lt_pk` for `v`. Returns first failing clause.
pub fn check_cert(cert_bytes: &[u8], lt_pk: &[u8], v: Version, expect_online_pk: Option<&[u8]>) -> Result<(u64, u64), String> {
    let cert = codec::decode(cert_bytes).map_err(|e| format!("cert-decode {:?}", e))?;
    if cert.fields.len() != 2 {
        return Err("cert-fields".into());
    }
    let sig = cert.get("SIG").ok_or("cert-no-sig")?;
    let dele_b = cert.get("DELE").ok_or("cert-no-dele")?;
    let dele = codec::decode(dele_b).map_err(|e| format!("dele-decode {:?}", e))?;
    let pubk = dele.get("PUBK").ok_or("dele-no-pubk")?;
    let mint = dele.get("MINT").ok_or("dele-no-mint")?;
    let maxt = dele.get("MAXT").ok_or("dele-no-maxt")?;
    if dele.fields.len() != 3 || pubk.len() != 32 || mint.len() != 8 || maxt.len() != 8 || sig.len() != 64 {
        return Err("dele-shape".into());
    }
    if let Some(e) = expect_online_pk {
        if pubk != e {
            return Err("dele-pubk-not-online-key".into());
        }
    }
    let mut m = v.dele_ctx().to_vec();
    m.extend_from_slice(dele_b);
    if !crypto::verify(lt_pk, &m, sig) {
        return Err("cert-sig-invalid".into());
    }
    let mut m2 = v.other().dele_ctx().to_vec();
    m2.extend_from_slice(dele_b);
    if crypto::verify(lt_pk, &m2, sig) {
        return Err("cert-verifies-under-other-context".into());
    }
    Ok((u64::from_le_bytes(mint.try_into().unwrap()), u64::from_le_bytes(maxt.try_into().unwrap())))
}

pub fn run_key_part(ctx: &Ctx, evals: &AtomicU64, nontrivial: &AtomicU64) {
    let seeds = seeds_subset(ctx.seed, ctx.tier.pick(40, 600));
    let maxlen = ctx.tier.pick(4u32, 5);
    let now = std::time::SystemTime::now().duration_since(std::time::UNIX_EPOCH).unwrap().as_secs();
    par_for(seeds.len(), 1, |si, _| {
        let (seed, _) = seeds[si];
        let want_pk = crypto::public_key(&seed);
        let want_srv = crypto::srv_value(&want_pk);
        let detail = |m: String| json!({"kind":"key","seed":hex(&seed),"message":m});
        // identity is identical across constructions
        for round in 0..3 {
            evals.fetch_add(1, Relaxed);
            match catch(|| {
                let k = LongTermKey::new(&seed);
                (k.public_key(), k.srv_value().to_vec(), LongTermKey::calc_srv_value(&k.public_key()), format!("{}", k))
            }) {
                Ok((pk, srv, srv2, disp)) => {
                    if pk != want_pk {
                        ctx.violation("public-key-differs", "LongTermKey::new", "key", detail(format!("round {} got {}", round, hex(&pk))));
                    }
                    if srv != want_srv || srv2 != want_srv {
                        ctx.violation("srv-differs", "LongTermKey::srv_value", "key", detail(format!("round {} got {} / {}", round, hex(&srv), hex(&srv2))));
                    }
                    if disp != hex(&want_pk) {
                        ctx.violation("display-differs", "LongTermKey::Display", "key", detail(disp));
                    }
                }
                Err(p) => ctx.violation("panic", "LongTermKey::new", "key", detail(p)),
            }
        }
        // all sequences over {make_cert(classic), make_cert(ietf)} of length <= maxlen on ONE key object,
        // interleaved with reads
        for l in 1..=maxlen {
            for mask in 0u32..(1 << l) {
                evals.fetch_add(1, Relaxed);
                nontrivial.fetch_add(1, Relaxed);
                let r = catch(|| {
                    let mut k = LongTermKey::new(&seed);
                    let mut out = vec![];
                    for i in 0..l {
                        let v = if mask >> i & 1 == 1 { Version::Ietf13 } else { Version::Classic };
                        let ok = OnlineKey::new();
                        let opk = ok.make_dele().get_field(roughenough::Tag::PUBK).unwrap().to_vec();
                        let cert = k.make_cert(&rv(v), &ok).encode().unwrap();
                        let pk = k.public_key();
                        let srv = k.srv_value().to_vec();
                        out.push((v, opk, cert, pk, srv));
                    }
                    out
                });
                match r {
                    Err(p) => ctx.violation("panic", "make_cert", "sequence", detail(format!("mask {:b} len {}: {}", mask, l, p))),
                    Ok(out) => {
                        for (pos, (v, opk, cert, pk, srv)) in out.iter().enumerate() {
                            if pk[..] != want_pk[..] || srv[..] != want_srv[..] {
                                ctx.violation("identity-changes", "LongTermKey", "sequence", detail(format!("mask {:b} pos {}", mask, pos)));
                            }
                            match check_cert(cert, &want_pk, *v, Some(opk)) {
                                Ok((mint, maxt)) => {
                                    if !(mint <= now && now * 1_000_000 <= maxt) {
                                        ctx.violation("window-excludes-now", "make_dele", "sequence", detail(format!("mint {} maxt {}", mint, maxt)));
                                    }
                                }
                                Err(c) => ctx.violation(&c, "make_cert", "sequence", json!({"kind":"certseq","seed":hex(&seed),"mask":mask,"len":l,"position":pos,"version":v.name(),"cert":hex(cert)})),
                            }
                        }
                    }
                }
            }
        }
    });
    ctx.cov("seeds", json!(seeds.len()));
    ctx.cov("sampled_seeds", json!(seeds.iter().filter(|s| s.1).count()));
    ctx.cov("cert_sequence_len_max", json!(maxlen));
}

pub fn replay_case(c: &Value) -> Result<Option<String>, String> {
    if c["kind"] == "certseq" {
        let seed: [u8; 32] = crypto::unhex(c["seed"].as_str().ok_or("seed")?).try_into().map_err(|_| "seed")?;
        let mask = c["mask"].as_u64().ok_or("mask")? as u32;
        let l = c["len"].as_u64().ok_or("len")? as u32;
        let want_pk = crypto::public_key(&seed);
        let mut k = LongTermKey::new(&seed);
        for i in 0..l {
            let v = if mask >> i & 1 == 1 { Version::Ietf13 } else { Version::Classic };
            let ok = OnlineKey::new();
            let opk = ok.make_dele().get_field(roughenough::Tag::PUBK).unwrap().to_vec();
            let cert = k.make_cert(&rv(v), &ok).encode().unwrap();
            if let Err(e) = check_cert(&cert, &want_pk, v, Some(&opk)) {
                return Ok(Some(format!("position {}: {}", i, e)));
            }
        }
        return Ok(None);
    }
    Err("replay of this case kind: re-run the check".into())
}
