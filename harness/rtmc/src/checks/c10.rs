//! C10 (key part) — server identity is a pure function of the seed and certifies every online key.

use super::alphabet::seeds_subset;
use crate::ev::Ctx;
use crate::util::{catch, hex, par_for};
use roughenough::key::{LongTermKey, OnlineKey};
use roughenough::version::Version as RV;
use rtref::{codec, crypto, Version};
use serde_json::{json, Value};
use std::sync::atomic::{AtomicU64, Ordering::Relaxed};

pub fn rv(v: Version) -> RV {
    match v {
        Version::Classic => RV::Google,
        Version::Ietf13 => RV::RfcDraft13,
    }
}

/// Check one CERT (encoded) against the identity of `lt_pk` for `v`. Returns first failing clause.
pub fn check_cert(cert_bytes: &[u8], lt_pk: &[u8], v: Version, expect_online_pk: Option<&[u8]>) -> Result<(u64, u64), String> {
    let cert = codec::decode(cert_bytes).map_err(|e| format!("cert-decode {:?}", e))?;
    if cert.fields.len() != 2 {
        return Err("cert-fields".into());
    }
    let sig = cert.get("SIG").ok_or("cert-no-sig")?;
    let dele_b = cert.get("DELE").ok_or("cert-no-dele")?;
    let dele = codec::decode(dele_b).map_err(|e| format!("dele-decode {:?}", e))?;
    let pubk = dele.get("PUBK").ok_or("dele-no-pubk")?;
    let mint = dele.get("MINT").ok_or("dele-no-mint")?;
    let maxt = dele.get("MAXT").ok_or("dele-no-maxt")?;
    if dele.fields.len() != 3 || pubk.len() != 32 || mint.len() != 8 || maxt.len() != 8 || sig.len() != 64 {
        return Err("dele-shape".into());
    }
    if let Some(e) = expect_online_pk {
        if pubk != e {
            return Err("dele-pubk-not-online-key".into());
        }
    }
    let mut m = v.dele_ctx().to_vec();
    m.extend_from_slice(dele_b);
    if !crypto::verify(lt_pk, &m, sig) {
        return Err("cert-sig-invalid".into());
    }
    let mut m2 = v.other().dele_ctx().to_vec();
    m2.extend_from_slice(dele_b);
    if crypto::verify(lt_pk, &m2, sig) {
        return Err("cert-verifies-under-other-context".into());
    }
    Ok((u64::from_le_bytes(mint.try_into().unwrap()), u64::from_le_bytes(maxt.try_into().unwrap())))
}

pub fn run_key_part(ctx: &Ctx, evals: &AtomicU64, nontrivial: &AtomicU64) {
    let seeds = seeds_subset(ctx.seed, ctx.tier.pick(40, 600));
    let maxlen = ctx.tier.pick(3u32, 4);
    let now = std::time::SystemTime::now().duration_since(std::time::UNIX_EPOCH).unwrap().as_secs();
    par_for(seeds.len(), 1, |si, _| {
        let (seed, _) = seeds[si];
        let want_pk = crypto::public_key(&seed);
        let want_srv = crypto::srv_value(&want_pk);
        let detail = |m: String| json!({"kind":"key","seed":hex(&seed),"message":m});
        // identity is identical across constructions
        for round in 0..3 {
            evals.fetch_add(1, Relaxed);
            match catch(|| {
                let k = LongTermKey::new(&seed);
                (k.public_key(), k.srv_value().to_vec(), LongTermKey::calc_srv_value(&k.public_key()), format!("{}", k))
            }) {
                Ok((pk, srv, srv2, disp)) => {
                    if pk != want_pk {
                        ctx.violation("public-key-differs", "LongTermKey::new", "key", detail(format!("round {} got {}", round, hex(&pk))));
                    }
                    if srv != want_srv || srv2 != want_srv {
                        ctx.violation("srv-differs", "LongTermKey::srv_value", "key", detail(format!("round {} got {} / {}", round, hex(&srv), hex(&srv2))));
                    }
                    if disp != hex(&want_pk) {
                        ctx.violation("display-differs", "LongTermKey::Display", "key", detail(disp));
                    }
                }
                Err(p) => ctx.violation("panic", "LongTermKey::new", "key", detail(p)),
            }
        }
        // all sequences of length <= maxlen on ONE key object over {classic, ietf} x {a fresh online
        // key, online key A again, online key B again}, interleaved with reads: a certificate depends
        // on the version and the online key of THIS call only
        for l in 1..=maxlen {
            for code in 0..6usize.pow(l) {
                evals.fetch_add(1, Relaxed);
                nontrivial.fetch_add(1, Relaxed);
                let steps: Vec<usize> = (0..l).map(|i| code / 6usize.pow(i) % 6).collect();
                let r = catch(|| cert_sequence(&seed, &steps));
                match r {
                    Err(p) => ctx.violation("panic", "make_cert", "sequence", detail(format!("steps {:?}: {}", steps, p))),
                    Ok(out) => {
                        for (pos, (v, opk, cert, pk, srv)) in out.iter().enumerate() {
                            if pk[..] != want_pk[..] || srv[..] != want_srv[..] {
                                ctx.violation("identity-changes", "LongTermKey", "sequence", detail(format!("steps {:?} pos {}", steps, pos)));
                            }
                            match check_cert(cert, &want_pk, *v, Some(opk)) {
                                Ok((mint, maxt)) => {
                                    if !(mint <= now && now * 1_000_000 <= maxt) {
                                        ctx.violation("window-excludes-now", "make_dele", "sequence", detail(format!("mint {} maxt {}", mint, maxt)));
                                    }
                                }
                                Err(c) => {
                                    let reused = steps[..pos].iter().any(|s| s / 2 == steps[pos] / 2 && steps[pos] / 2 > 0);
                                    ctx.violation(&c, "make_cert", if reused { "sequence-online-key-certified-before" } else { "sequence" }, json!({"kind":"certseq","seed":hex(&seed),"steps":steps,"position":pos,"version":v.name(),"cert":hex(cert)}))
                                }
                            }
                        }
                    }
                }
            }
        }
    });
    ctx.cov("seeds", json!(seeds.len()));
    ctx.cov("sampled_seeds", json!(seeds.iter().filter(|s| s.1).count()));
    ctx.cov("cert_sequence_len_max", json!(maxlen));
}

/// One LongTermKey, one make_cert per step. Step code: bit 0 = version (0 classic, 1 ietf);
/// code/2 = which online key (0 = a fresh one, 1 = key A, 2 = key B; A and B live for the sequence).
fn cert_sequence(seed: &[u8; 32], steps: &[usize]) -> Vec<(Version, Vec<u8>, Vec<u8>, Vec<u8>, Vec<u8>)> {
    let mut k = LongTermKey::new(seed);
    let fixed = [OnlineKey::new(), OnlineKey::new()];
    let mut out = vec![];
    for &st in steps {
        let v = if st % 2 == 1 { Version::Ietf13 } else { Version::Classic };
        let fresh;
        let ok: &OnlineKey = match st / 2 {
            0 => {
                fresh = OnlineKey::new();
                &fresh
            }
            n => &fixed[n - 1],
        };
        let opk = ok.make_dele().get_field(roughenough::Tag::PUBK).unwrap().to_vec();
        let cert = k.make_cert(&rv(v), ok).encode().unwrap();
        out.push((v, opk, cert, k.public_key(), k.srv_value().to_vec()));
    }
    out
}

/// Batches on one real Responder; 'g' = a request from a receiving socket, 'x' = one whose return
/// address cannot be sent to. Every datagram that arrives must carry a CERT that is a delegation
/// signed by the long-term key under this protocol's context.
#[cfg(feature = "no_responder_api")]
fn responder_with_failed_sends(_v: Version, _batches: &[&str], _bad: std::net::SocketAddr) -> Result<Option<(String, String)>, String> {
    crate::util::RESPONDER_API_SKIPPED.store(true, std::sync::atomic::Ordering::Relaxed);
    Ok(None)
}

#[cfg(not(feature = "no_responder_api"))]
fn responder_with_failed_sends(v: Version, batches: &[&str], bad: std::net::SocketAddr) -> Result<Option<(String, String)>, String> {
    use roughenough::config::MemoryConfig;
    use roughenough::responder::Responder;
    use roughenough::stats::{AggregatedStats, ServerStats};
    crate::inproc::init();
    let std_sock = std::net::UdpSocket::bind("127.0.0.1:0").map_err(|e| e.to_string())?;
    std_sock.set_nonblocking(true).map_err(|e| e.to_string())?;
    let port = std_sock.local_addr().unwrap().port();
    let mut sock = mio::net::UdpSocket::from_socket(std_sock).map_err(|e| e.to_string())?;
    let mut mc = MemoryConfig::new(port);
    mc.seed = crate::inproc::DEFAULT_SEED.to_vec();
    let lt_pk = crypto::public_key(&crate::inproc::DEFAULT_SEED);
    let mut ltk = LongTermKey::new(&mc.seed);
    let mut resp = Responder::new(rv(v), &mc, &mut ltk);
    let mut stats: Box<dyn ServerStats> = Box::new(AggregatedStats::new());
    let good = crate::inproc::Client::new();
    let mut ctr = 0u64;
    for (bi, b) in batches.iter().enumerate() {
        let mut want = 0;
        for ch in b.chars() {
            ctr += 1;
            let nonce = crate::inproc::nonce(0xc10_000 + ctr, v.nonce_len());
            let addr = if ch == 'g' {
                want += 1;
                good.sock.local_addr().unwrap()
            } else {
                bad
            };
            match v {
                Version::Classic => resp.add_classic_request(nonce, addr),
                Version::Ietf13 => {
                    let req = rtref::responder::std_request(v, &nonce);
                    resp.add_ietf_request(&req, nonce, addr)
                }
            }
        }
        resp.send_responses(&mut sock, &mut stats);
        resp.reset();
        let mut got = vec![];
        let deadline = std::time::Instant::now() + std::time::Duration::from_millis(200);
        while got.len() < want && std::time::Instant::now() < deadline {
            got.extend(good.drain());
            if got.len() < want {
                std::thread::sleep(std::time::Duration::from_millis(1));
            }
        }
        if got.len() != want {
            return Ok(Some(("missing-reply".into(), format!("batch {} ({}): {} replies to sendable addresses expected, {} arrived", bi, b, want, got.len()))));
        }
        for (d, _) in got {
            let payload: &[u8] = if d.len() >= 12 && &d[..8] == codec::FRAME_MAGIC { &d[12..] } else { &d[..] };
            let cert = codec::decode_lenient(payload).and_then(|f| f.into_iter().find(|(t, _)| *t == codec::tag("CERT")).map(|(_, c)| c));
            match cert {
                None => return Ok(Some(("no-cert".into(), format!("batch {} ({}): a reply carries no CERT", bi, b)))),
                Some(c) => {
                    if let Err(clause) = check_cert(&c, &lt_pk, v, None) {
                        return Ok(Some((clause, format!("batch {} ({}): the reply's CERT ({} bytes) is not a delegation signed by the long-term key", bi, b, c.len()))));
                    }
                }
            }
        }
    }
    Ok(None)
}

pub fn replay_case(c: &Value) -> Result<Option<String>, String> {
    if c["kind"] == "failed-send-batches" {
        let v = if c["version"] == "classic" { Version::Classic } else { Version::Ietf13 };
        let batches: Vec<String> = c["batches"].as_array().ok_or("batches")?.iter().map(|b| b.as_str().unwrap_or("").to_string()).collect();
        let bad: std::net::SocketAddr = c["unsendable"].as_str().ok_or("unsendable")?.parse().map_err(|_| "unsendable address")?;
        return crate::util::on_named_thread("worker-0", move || {
            let bs: Vec<&str> = batches.iter().map(|b| b.as_str()).collect();
            responder_with_failed_sends(v, &bs, bad).map(|r| r.map(|(a, b)| format!("{} {}", a, b)))
        });
    }
    if c["kind"] == "certseq" && c["steps"].is_array() {
        let seed: [u8; 32] = crypto::unhex(c["seed"].as_str().ok_or("seed")?).try_into().map_err(|_| "seed")?;
        let steps: Vec<usize> = c["steps"].as_array().unwrap().iter().map(|x| x.as_u64().unwrap_or(0) as usize).collect();
        let want_pk = crypto::public_key(&seed);
        for (i, (v, opk, cert, _, _)) in cert_sequence(&seed, &steps).iter().enumerate() {
            if let Err(e) = check_cert(cert, &want_pk, *v, Some(opk)) {
                return Ok(Some(format!("position {}: {}", i, e)));
            }
        }
        return Ok(None);
    }
    if c["kind"] == "certseq" {
        let seed: [u8; 32] = crypto::unhex(c["seed"].as_str().ok_or("seed")?).try_into().map_err(|_| "seed")?;
        let mask = c["mask"].as_u64().ok_or("mask")? as u32;
        let l = c["len"].as_u64().ok_or("len")? as u32;
        let want_pk = crypto::public_key(&seed);
        let mut k = LongTermKey::new(&seed);
        for i in 0..l {
            let v = if mask >> i & 1 == 1 { Version::Ietf13 } else { Version::Classic };
            let ok = OnlineKey::new();
            let opk = ok.make_dele().get_field(roughenough::Tag::PUBK).unwrap().to_vec();
            let cert = k.make_cert(&rv(v), &ok).encode().unwrap();
            if let Err(e) = check_cert(&cert, &want_pk, v, Some(&opk)) {
                return Ok(Some(format!("position {}: {}", i, e)));
            }
        }
        return Ok(None);
    }
    Err("replay of this case kind: re-run the check".into())
}

// ---------------------------------------------------------------------------------------------
// full check: key part + live part (restarts, every emitted reply)

pub fn run(ctx: &Ctx) -> Result<(), String> {
    use super::c09;
    use crate::inproc::{Srv, SrvCfg};
    use std::sync::Mutex;
    ctx.set_level("exploration");
    crate::inproc::init();
    let evals = AtomicU64::new(0);
    let nontrivial = AtomicU64::new(0);
    run_key_part(ctx, &evals, &nontrivial);

    // live: restart histories — Server::new k = 1..=4 times with the same seed, several seeds;
    // every reply of both responders carries a CERT that verifies under the seed's key for its own
    // protocol only, with a window containing the reply's midpoint.
    let seeds = seeds_subset(ctx.seed, ctx.tier.pick(12, 60));
    let al = c09::alphabet();
    let depth = ctx.tier.pick(3usize, 4);
    let certs_seen = AtomicU64::new(0);
    let failed: Mutex<Option<String>> = Mutex::new(None);
    par_for(seeds.len(), 1, |si, _| {
        let (seed, _) = seeds[si];
        let want_pk = crypto::public_key(&seed);
        let mut online_keys = std::collections::BTreeSet::new();
        for restart in 0..4 {
            // restarts 2 and 3 run with fault injection at its maximum: the deliberately invalid
            // replies (shuffled tags, random SIG) still carry a CERT, and it is a certificate
            let fault = if restart >= 2 { 50 } else { 0 };
            let cfg = SrvCfg { batch_size: 2, seed, fault, ..Default::default() };
            // a few event histories per restart (all of them for the first two seeds)
            let n = al.len().pow(depth as u32);
            let stride = if si < 2 { 1 } else { 37 };
            let mut idx = restart;
            // plus histories in which a socket sends several requests of one protocol (the request
            // pool then also offers [0, draft-13] in VER)
            let extra: Vec<Vec<c09::Ev>> = vec![
                vec![c09::Ev::Req(0, Version::Ietf13); 4],
                vec![c09::Ev::Req(0, Version::Ietf13), c09::Ev::Req(0, Version::Ietf13), c09::Ev::Step, c09::Ev::Req(0, Version::Ietf13), c09::Ev::Req(1, Version::Classic)],
                vec![c09::Ev::Req(1, Version::Classic); 4],
            ];
            let mut extra_i = 0;
            while idx < n || extra_i < extra.len() {
                let h = if idx < n { c09::history_from_index(idx, depth, &al) } else { extra_i += 1; extra[extra_i - 1].clone() };
                idx += stride;
                let mut srv = match Srv::new(&cfg) {
                    Ok(s) => s,
                    Err(e) => {
                        *failed.lock().unwrap() = Some(e);
                        return;
                    }
                };
                evals.fetch_add(1, Relaxed);
                let announced = srv.server.get_public_key().to_string();
                if announced != hex(&want_pk) {
                    ctx.violation("announced-key-differs", "Server::get_public_key", "restart", json!({"kind":"restart","seed":hex(&seed),"restart":restart,"announced":announced}));
                }
                let mut obs = c09::run_events(&mut srv, &h, 2, false);
                let _ = c09::judge(&mut obs, &want_pk, false);
                // every datagram received is examined, whether or not C09's matching accepted it
                for (s, rs) in obs.received.iter().enumerate() {
                    // the protocol a reply must belong to is the protocol of the REQUEST: when a socket
                    // sent requests of one protocol only, everything it receives is judged under it
                    let sent_versions: std::collections::BTreeSet<Version> = obs.sent.iter().filter(|x| x.sock == s).filter_map(|x| x.version).collect();
                    for (reply, _) in rs {
                        let framed = reply.len() >= 12 && &reply[..8] == codec::FRAME_MAGIC;
                        let v = if sent_versions.len() == 1 { *sent_versions.iter().next().unwrap() } else if framed { Version::Ietf13 } else { Version::Classic };
                        let payload = if framed { &reply[12..] } else { &reply[..] };
                        // lenient parse: fault injection may have shuffled the tag order
                        let fields = match codec::decode_lenient(payload) {
                            Some(f) => f,
                            None => continue, // C02's concern
                        };
                        let get = |name: &str| fields.iter().find(|(t, _)| *t == codec::tag(name)).map(|(_, v)| v.as_slice());
                        let (cert, srep) = match (get("CERT"), get("SREP")) {
                            (Some(c), Some(s)) => (c, s),
                            _ => continue,
                        };
                        certs_seen.fetch_add(1, Relaxed);
                        nontrivial.fetch_add(1, Relaxed);
                        match check_cert(cert, &want_pk, v, None) {
                            Ok((mint, maxt)) => {
                                let midp = codec::decode(srep).ok().and_then(|x| x.get("MIDP").map(|b| b.to_vec())).and_then(|b| b.try_into().ok()).map(u64::from_le_bytes);
                                if let Some(mp) = midp {
                                    if !(mint <= mp && mp <= maxt) {
                                        ctx.violation("window-excludes-midpoint", "reply-cert", v.name(), json!({"kind":"restart","seed":hex(&seed),"mint":mint,"maxt":maxt,"midp":mp}));
                                    }
                                }
                                if let Ok(c) = codec::decode(cert) {
                                    if let Some(d) = c.get("DELE").and_then(|d| codec::decode(d).ok()) {
                                        online_keys.insert(d.get("PUBK").unwrap().to_vec());
                                    }
                                }
                            }
                            Err(clause) => ctx.violation(&clause, "reply-cert", &format!("{}{}", v.name(), if fault > 0 { "/fault-injection-on" } else { "" }), json!({"kind":"restart","seed":hex(&seed),"restart":restart,"fault_percentage":fault,"socket":s,"events":h.iter().map(|e| e.name()).collect::<Vec<_>>(),"cert":hex(cert)})),
                        }
                    }
                }
            }
        }
        let _ = online_keys;
    });
    if let Some(e) = failed.lock().unwrap().take() {
        return Err(e);
    }
    // replies a responder emits AFTER some of its replies could not be sent: the real Responder driven
    // through its public API, batches whose return addresses include ones send_to fails for; every
    // datagram that arrives (in that batch and in all later ones) carries a certificate
    {
        let bad = super::c17::unsendable_addresses();
        ctx.cov("unsendable_return_addresses", json!(bad.len()));
        if !bad.is_empty() {
            // batch patterns over {g = sendable, x = unsendable}
            let patterns: Vec<Vec<&str>> = vec![vec!["g", "xg", "g"], vec!["x", "g", "g"], vec!["gx", "gg", "g"], vec!["gxg", "g"], vec!["xx", "g", "xg", "gg"]];
            let mut cases = vec![];
            for v in [Version::Classic, Version::Ietf13] {
                for (pi, _) in patterns.iter().enumerate() {
                    for bi in 0..bad.len() {
                        cases.push((v, pi, bi));
                    }
                }
            }
            par_for(cases.len(), 4, |k, _| {
                let (v, pi, bi) = cases[k];
                evals.fetch_add(1, Relaxed);
                nontrivial.fetch_add(1, Relaxed);
                let r = catch(|| responder_with_failed_sends(v, &patterns[pi], bad[bi]));
                let detail = |m: String| json!({"kind":"failed-send-batches","version":v.name(),"batches":patterns[pi],"unsendable":bad[bi].to_string(),"message":m});
                match r {
                    Err(p) => ctx.violation("panic", "send_responses", "after-failed-send", detail(p)),
                    Ok(Err(e)) => *failed.lock().unwrap() = Some(e),
                    Ok(Ok(None)) => {}
                    Ok(Ok(Some((clause, m)))) => ctx.violation(&clause, "reply-cert", &format!("{}/after-failed-send", v.name()), detail(m)),
                }
                certs_seen.fetch_add(patterns[pi].iter().map(|b| b.matches('g').count() as u64).sum::<u64>(), Relaxed);
            });
            if let Some(e) = failed.lock().unwrap().take() {
                return Err(e);
            }
        }
    }
    // the SRV value in use: a request addressed to SHA-512(0xff || pk)[..32] is answered (and one
    // addressed to another value is not), for seeds whose SRV value has a zero / 0xff / white-space
    // byte at either end (found by search)
    {
        let wants: [(&str, usize, u8); 6] = [("srv-ends-in-00", 31, 0), ("srv-begins-with-00", 0, 0), ("srv-ends-in-ff", 31, 0xff), ("srv-ends-in-20", 31, 0x20), ("srv-ends-in-0a", 31, 0x0a), ("srv-begins-with-ff", 0, 0xff)];
        let mut special: Vec<(&str, [u8; 32])> = vec![];
        let mut k = 0u64;
        while special.len() < wants.len() && k < 40000 {
            let seed: [u8; 32] = crypto::sha512(&[b"c10-srv-search", &k.to_le_bytes()])[..32].try_into().unwrap();
            let srv = crypto::srv_value(&crypto::public_key(&seed));
            for (what, at, b) in wants.iter() {
                if srv[*at] == *b && !special.iter().any(|s| s.0 == *what) {
                    special.push((*what, seed));
                }
            }
            k += 1;
        }
        ctx.cov("special_srv_seeds", json!({"found": special.iter().map(|s| s.0).collect::<Vec<_>>(), "searched": k}));
        par_for(special.len(), 1, |j, _| {
            let (what, seed) = special[j];
            let pk = crypto::public_key(&seed);
            let srv = crypto::srv_value(&pk);
            let r = crate::util::on_named_thread("worker-0", move || -> Result<Option<String>, String> {
                let mut s = Srv::new(&SrvCfg { seed, ..Default::default() })?;
                let mut other = srv;
                other[16] ^= 1;
                let cases: Vec<(&str, Vec<u8>, Version, bool)> = vec![
                    ("ietf-with-own-srv", rtref::responder::ietf_request(&rtref::proto::VER_IETF13, Some(&srv), &crate::inproc::nonce(0xc10_5000, 32), 1024), Version::Ietf13, true),
                    ("ietf-without-srv", rtref::responder::ietf_request(&rtref::proto::VER_IETF13, None, &crate::inproc::nonce(0xc10_5001, 32), 1024), Version::Ietf13, true),
                    ("ietf-with-other-srv", rtref::responder::ietf_request(&rtref::proto::VER_IETF13, Some(&other), &crate::inproc::nonce(0xc10_5002, 32), 1024), Version::Ietf13, false),
                    ("classic", rtref::responder::std_request(Version::Classic, &crate::inproc::nonce(0xc10_5003, 64)), Version::Classic, true),
                ];
                for (name, req, v, must) in cases {
                    let c = crate::inproc::Client::new();
                    c.send(s.addr, &req);
                    s.settle().map_err(|p| format!("panic: {}", p))?;
                    let got = c.drain();
                    if must && (got.len() != 1 || rtref::verifier::authentic(&got[0].0, &req, v, Some(&pk), rtref::verifier::SERVER_VIEW).is_err()) {
                        return Ok(Some(format!("{}: {} replies / not authentic under the seed's key", name, got.len())));
                    }
                    if !must && !got.is_empty() {
                        return Ok(Some(format!("{}: answered although addressed to another server", name)));
                    }
                }
                Ok(None)
            });
            evals.fetch_add(4, Relaxed);
            nontrivial.fetch_add(4, Relaxed);
            match r {
                Err(e) => *failed.lock().unwrap() = Some(e),
                Ok(None) => {}
                Ok(Some(msg)) => ctx.violation("srv-value-not-honoured", "request-gate", what, json!({"kind":"srv-addressed","seed":hex(&seed),"srv":hex(&srv),"shape":what,"message":msg})),
            }
        });
        if let Some(e) = failed.lock().unwrap().take() {
            return Err(e);
        }
    }
    // the real server binary started from a configuration FILE and from the environment for seeds
    // whose hex spelling invites a YAML parser to read something else (all decimal digits, leading
    // zeros, upper case): if it starts, the key it announces and certifies with is the key of the
    // written seed
    {
        use crate::proc::{free_port, ServerProc, Source, Written};
        let spellings: Vec<String> = vec![
            format!("{}10", "0".repeat(62)),
            format!("{}123", "0".repeat(61)),
            format!("{}9223372036854775807", "0".repeat(45)),
            format!("{}7", "0".repeat(63)),
            "1234567890123456789012345678901234567890123456789012345678901234".to_string(),
            format!("{}e5", "1".repeat(62)), // reads as a float in exponent notation
            "A32049DA0FFDE0DED92CE10A0230D35FE615EC8461C14986BAA63FE3B3BAC3DB".to_string(),
        ];
        let mut cases = vec![];
        for sp in &spellings {
            for src in [Source::File, Source::Env] {
                cases.push((sp.clone(), src));
            }
        }
        let started = AtomicU64::new(0);
        par_for(cases.len(), 1, |k, _| {
            let (sp, src) = &cases[k];
            let seed: [u8; 32] = match crypto::unhex(&sp.to_lowercase()).try_into() {
                Ok(s) => s,
                Err(_) => return,
            };
            let want_pk = crypto::public_key(&seed);
            let port = free_port();
            let mut w = Written::base(port);
            w.set("seed", sp);
            w.set("num_workers", "1");
            let mut sp_ = match ServerProc::start(&w, *src, &[]) {
                Ok(s) => s,
                Err(e) => {
                    *failed.lock().unwrap() = Some(e);
                    return;
                }
            };
            sp_.wait_started(1, std::time::Duration::from_secs(5));
            evals.fetch_add(1, Relaxed);
            nontrivial.fetch_add(1, Relaxed);
            if sp_.try_status().is_some() {
                return; // start refused: nothing is announced (C16's concern)
            }
            started.fetch_add(1, Relaxed);
            let so = sp_.stdout();
            let announced = so.lines().find(|l| l.contains("Long-term public key")).and_then(|l| l.split(" : ").last()).map(|x| x.trim().to_string());
            let detail = |m: String| json!({"kind":"process-seed-spelling","seed_as_written":sp,"source":format!("{:?}", src),"announced":announced,"want":hex(&want_pk),"message":m});
            if announced.as_deref() != Some(hex(&want_pk).as_str()) {
                ctx.violation("announced-key-differs", "server-process", &format!("{:?}/seed-spelling", src), detail("the running server announces a key that is not the Ed25519 public key of the written seed".into()));
            }
            // and it certifies with that key
            for v in [Version::Classic, Version::Ietf13] {
                let sock = std::net::UdpSocket::bind("127.0.0.1:0").unwrap();
                sock.set_read_timeout(Some(std::time::Duration::from_secs(2))).unwrap();
                let req = rtref::responder::std_request(v, &crate::inproc::nonce(0xc10_5eed + k as u64, v.nonce_len()));
                let _ = sock.send_to(&req, ("127.0.0.1", port));
                let mut buf = [0u8; 4096];
                if let Ok((l, _)) = sock.recv_from(&mut buf) {
                    certs_seen.fetch_add(1, Relaxed);
                    if let Err(c) = rtref::verifier::authentic(&buf[..l], &req, v, Some(&want_pk), rtref::verifier::SERVER_VIEW) {
                        ctx.violation(c, "server-process", &format!("{}/seed-spelling", v.name()), detail(format!("a reply does not verify under the written seed's key: {}", c)));
                    }
                }
            }
            sp_.kill();
        });
        if let Some(e) = failed.lock().unwrap().take() {
            return Err(e);
        }
        ctx.cov("process_seed_spellings", json!({"cases": cases.len(), "servers_that_started": started.load(Relaxed)}));
    }
    // every WORKER of the real server, in the server's documented modes (health-check port,
    // per-client statistics, both, ENV source): each worker announces the seed's key, and the replies
    // of all N workers (N distinct delegated keys) verify under it
    {
        use crate::proc::{free_port, probe_workers, ServerProc, Source, Written};
        // not the repository's example seed (a server that fell back to a built-in seed must differ)
        let seed_hex = "9d61b19deffd5a60ba844af492ec2cc44449c5697b326919703bac031cae7f60";
        let seed: [u8; 32] = crypto::unhex(seed_hex).try_into().unwrap();
        let want_pk = crypto::public_key(&seed);
        let mut modes: Vec<(&str, bool, bool, Source)> = vec![("plain", false, false, Source::File), ("health", true, false, Source::File), ("stats", false, true, Source::File), ("health+stats", true, true, Source::Env)];
        // the server built with the crate's other Cargo feature that builds offline ("fuzzing")
        let fuzz_dir = std::env::var("VERIF_REPO_FUZZ_BIN").ok().map(std::path::PathBuf::from).filter(|d| d.join("roughenough-server").exists());
        if fuzz_dir.is_some() {
            modes.push(("plain/built-with-feature-fuzzing", false, false, Source::File));
            modes.push(("stats/built-with-feature-fuzzing", false, true, Source::Env));
        }
        ctx.cov("feature_fuzzing_build", json!(if fuzz_dir.is_some() { "server built with --features fuzzing: run in 2 modes" } else { "not available (build of that variant failed or bin/check not used): not covered" }));
        par_for(modes.len(), 1, |k, _| {
            let (name, health, stats, src) = modes[k];
            crate::proc::BIN_DIR_OVERRIDE.with(|o| *o.borrow_mut() = if name.ends_with("feature-fuzzing") { fuzz_dir.clone() } else { None });
            let n = 4usize;
            let dir = crate::proc::scratch_dir();
            for _attempt in 0..3 {
                let port = free_port();
                let mut w = Written::base(port);
                w.set("seed", seed_hex);
                w.set("num_workers", &n.to_string());
                if health {
                    w.set("health_check_port", &free_port().to_string());
                }
                if stats {
                    w.set("client_stats", "on");
                    w.set("persistence_directory", &dir.display().to_string());
                }
                let mut sp = match ServerProc::start(&w, src, &[]) {
                    Ok(s) => s,
                    Err(e) => {
                        *failed.lock().unwrap() = Some(e);
                        return;
                    }
                };
                sp.wait_started(n, std::time::Duration::from_secs(10));
                if sp.try_status().is_some() {
                    continue; // port taken meanwhile (start-up failures are C15's concern)
                }
                evals.fetch_add(1, Relaxed);
                nontrivial.fetch_add(1, Relaxed);
                let so = sp.stdout();
                let announced: Vec<String> = so.lines().filter(|l| l.contains("Long-term public key")).filter_map(|l| l.split(" : ").last()).map(|x| x.trim().to_string()).collect();
                let detail = |m: String| json!({"kind":"process-workers","mode":name,"num_workers":n,"seed":seed_hex,"announced":announced,"want":hex(&want_pk),"message":m});
                if announced.iter().any(|a| *a != hex(&want_pk)) {
                    ctx.violation("announced-key-differs", "server-process", &format!("worker-announcement/{}", name), detail("a worker announces a key that is not the Ed25519 public key of the configured seed".into()));
                }
                let (keys, sent, bad) = probe_workers(port, &want_pk, n, 48 * n + 32, false);
                certs_seen.fetch_add(sent as u64, Relaxed);
                if bad > 0 {
                    ctx.violation("dele-sig", "server-process", &format!("worker-replies/{}", name), detail(format!("{} of {} replies do not verify under the configured seed's key ({} workers answered validly)", bad, sent, keys.len())));
                }
                sp.kill();
                break;
            }
            crate::proc::BIN_DIR_OVERRIDE.with(|o| *o.borrow_mut() = None);
            let _ = std::fs::remove_dir_all(&dir);
        });
        if let Some(e) = failed.lock().unwrap().take() {
            return Err(e);
        }
    }
    ctx.cov("evaluations", json!(evals.load(Relaxed)));
    ctx.cov("distinct_nontrivial", json!(nontrivial.load(Relaxed)));
    ctx.cov("reply_certs_checked", json!(certs_seen.load(Relaxed)));
    ctx.cov("restart_seeds", json!(seeds.len()));
    ctx.cov("exhaustive", json!(true));
    ctx.cov("rule", json!("key part: per seed of the structured alphabet (zero, ff, RFC 8032 vectors, single-bit, single-byte-value, seeded random) three constructions give public key == Ed25519(seed) (dalek direct, RFC 8032 anchored) and SRV == SHA-512(0xff||pk)[0..32]; all sequences of length <= L over {make_cert(classic), make_cert(ietf)} x {fresh online key, online key A again, online key B again} on ONE LongTermKey, each CERT = DELE{PUBK(the online key),MINT,MAXT} signed under that version's delegation context and NOT verifying under the other version's. Live part: per seed 4 restarts of a real in-process Server (two with fault_percentage 0, two with 50; replies parsed leniently so that deliberately invalid ones are examined too) x event histories (C09 alphabet); the announced key equals the reference key; the CERT of every datagram emitted by either responder passes the same check and its window contains the reply's MIDP; and the real Responder driven with batches in which some replies cannot be sent (unsendable return addresses): every reply that arrives, in that batch and all later ones, carries such a CERT. SRV in use: for seeds whose SRV value has a 00 / ff / white-space byte at an end, a request addressed to SHA-512(0xff||pk)[..32] is answered and one addressed to another value is not. Process: the real server started from file and ENV with seeds whose hex spelling a YAML parser may read differently (all digits, leading zeros, exponent form, upper case): if it starts, it announces and certifies with the written seed's key; a 4-worker server in the modes plain / health-check port / per-client statistics / both (ENV), and the server built with the Cargo feature `fuzzing` (plain, statistics): every worker's announcement and the replies of all workers verify under the seed's key. Non-trivial = a cert sequence or an emitted reply's CERT."));
    ctx.sample(json!({"kind":"certseq","mask":"0b0110","len":4,"versions":["classic","ietf13","ietf13","classic"]}));
    ctx.sample(json!({"kind":"restart","restarts":4,"events":["C0","I1","step"]}));
    ctx.assume("ed25519-dalek arithmetic trusted (RFC 8032 vectors); seeds are a structured alphabet, not all 2^256");
    Ok(())
}
