//! C07 — server answers only well-formed 1024–1500-byte requests, never amplifying (E-STATE).

use crate::ev::{Ctx, Tier};
use crate::inproc::{nonce, Client, Srv, SrvCfg};
use crate::util::{hex_trunc, par_for, Rng};
use rtref::codec;
use rtref::proto::{MAX_REQ, MIN_REQ, VER_IETF13};
use rtref::responder::{classic_request, ietf_request};
use rtref::verifier::{authentic, SERVER_VIEW};
use rtref::{crypto, Version};
use serde_json::{json, Value};
use std::collections::BTreeMap;
use std::sync::atomic::{AtomicU64, Ordering::Relaxed};
use std::sync::Mutex;

#[derive(Debug, Clone, Copy, PartialEq, Eq)]
pub enum Expect {
    MustAnswer(Version),
    May(Version),
    MustNot,
}

/// Three-valued request classifier written from the C07/C12 statements.
pub fn classify(d: &[u8], srv_value: &[u8]) -> Expect {
    if d.len() < MIN_REQ || d.len() > MAX_REQ {
        return Expect::MustNot;
    }
    if d.len() >= 8 && &d[..8] == codec::FRAME_MAGIC {
        let p = match codec::unframe(d) {
            Some(p) => p,
            None => return Expect::MustNot,
        };
        let m = match codec::decode(p) {
            Ok(m) => m,
            Err(_) => return Expect::MustNot,
        };
        let ver = match m.get("VER") {
            Some(v) => v,
            None => return Expect::MustNot,
        };
        let pos = ver.chunks(4).position(|c| c == VER_IETF13);
        let n = match m.get("NONC") {
            Some(n) => n,
            None => return Expect::MustNot,
        };
        if let Some(s) = m.get("SRV") {
            if s != srv_value {
                return Expect::MustNot;
            }
        }
        // canonical IETF request: VER, [SRV], NONC(32), ZZZZ and nothing else
        let canonical = m.fields.iter().all(|(t, _)| ["VER", "SRV", "NONC", "ZZZZ"].contains(&codec::tag_name(t).as_str()));
        match pos {
            None => Expect::MustNot,
            Some(p) if p < 4 && n.len() == 32 && canonical => Expect::MustAnswer(Version::Ietf13),
            Some(_) => Expect::May(Version::Ietf13),
        }
    } else {
        let m = match codec::decode(d) {
            Ok(m) => m,
            Err(_) => return Expect::MustNot,
        };
        // canonical classic request: NONC(64), PAD and nothing else
        let canonical = m.fields.iter().all(|(t, _)| ["NONC", "PAD"].contains(&codec::tag_name(t).as_str()));
        match m.get("NONC") {
            None => Expect::MustNot,
            Some(n) if n.len() == 64 && canonical => Expect::MustAnswer(Version::Classic),
            Some(_) => Expect::May(Version::Classic),
        }
    }
}

pub struct Prober {
    pub srv: Srv,
    pub lt_pk: [u8; 32],
    pub srv_value: [u8; 32],
    pub sentinel_ctr: u64,
}

pub struct ProbeOut {
    pub replies: Vec<Vec<u8>>,
    pub panic: Option<String>,
    pub sentinel_ok: bool,
}

impl Prober {
    pub fn new(cfg: &SrvCfg) -> Result<Prober, String> {
        let srv = Srv::new(cfg)?;
        let lt_pk = crypto::public_key(&cfg.seed);
        Ok(Prober { srv, lt_pk, srv_value: crypto::srv_value(&lt_pk), sentinel_ctr: 0 })
    }

    /// Send one datagram from a fresh socket, step to quiescence, collect what that socket got;
    /// then a valid sentinel request from another fresh socket proves the worker is alive.
    pub fn probe(&mut self, d: &[u8]) -> Result<ProbeOut, String> {
        let c = Client::new();
        if !c.send(self.srv.addr, d) {
            return Err(format!("send of {} bytes failed", d.len()));
        }
        if let Err(p) = self.srv.settle() {
            return Ok(ProbeOut { replies: vec![], panic: Some(p), sentinel_ok: false });
        }
        let replies: Vec<Vec<u8>> = c.drain().into_iter().map(|x| x.0).collect();
        let ok = self.sentinel()?;
        Ok(ProbeOut { replies, panic: None, sentinel_ok: ok })
    }

    pub fn sentinel(&mut self) -> Result<bool, String> {
        self.sentinel_ctr += 1;
        let v = if self.sentinel_ctr % 2 == 0 { Version::Classic } else { Version::Ietf13 };
        let req = rtref::responder::std_request(v, &nonce(0xfeed_0000_0000 + self.sentinel_ctr, v.nonce_len()));
        let c = Client::new();
        c.send(self.srv.addr, &req);
        if self.srv.settle().is_err() {
            return Ok(false);
        }
        let got = c.drain();
        if self.srv.cfg.fault > 0 {
            return Ok(got.len() == 1);
        }
        Ok(got.len() == 1 && authentic(&got[0].0, &req, v, Some(&self.lt_pk), SERVER_VIEW).is_ok())
    }
}

/// Judge one probe result against the classifier. Returns (class label, violations)
pub fn judge(d: &[u8], out: &ProbeOut, p: &Prober) -> (String, Vec<(String, String, String)>) {
    let mut v = vec![];
    let exp = classify(d, &p.srv_value);
    let class = match exp {
        Expect::MustAnswer(_) => "must-answer",
        Expect::May(_) => "may-answer",
        Expect::MustNot => "must-not-answer",
    };
    if let Some(pn) = &out.panic {
        v.push(("panic".to_string(), class.to_string(), pn.clone()));
        return (format!("{}/panic", class), v);
    }
    if !out.sentinel_ok {
        v.push(("sentinel-unanswered".to_string(), class.to_string(), "valid request after this datagram was not answered correctly".into()));
    }
    let n = out.replies.len();
    match exp {
        Expect::MustNot => {
            if n > 0 {
                let why = if d.len() < MIN_REQ || d.len() > MAX_REQ { "length-out-of-range" } else { "malformed" };
                v.push(("answered-invalid".to_string(), why.to_string(), format!("{} replies to a datagram that must be dropped", n)));
            }
        }
        Expect::MustAnswer(ver) | Expect::May(ver) => {
            if n > 1 {
                v.push(("extra-replies".to_string(), class.to_string(), format!("{} replies", n)));
            }
            if n == 0 && matches!(exp, Expect::MustAnswer(_)) {
                v.push(("no-reply".to_string(), class.to_string(), "canonical request not answered".into()));
            }
            for r in &out.replies {
                if p.srv.cfg.fault == 0 {
                    if let Err(c) = authentic(r, d, ver, Some(&p.lt_pk), SERVER_VIEW) {
                        v.push(("reply-not-authentic".to_string(), class.to_string(), c.to_string()));
                    }
                }
            }
        }
    }
    for r in &out.replies {
        if r.len() > d.len() {
            let nl = nonce_len_of(d).map(|l| if l > 64 { "nonce>64" } else { "nonce<=64" }).unwrap_or("no-nonce");
            v.push(("amplification".to_string(), nl.to_string(), format!("reply {} bytes > request {} bytes", r.len(), d.len())));
        }
    }
    (format!("{}/{}", class, n.min(2)), v)
}

fn nonce_len_of(d: &[u8]) -> Option<usize> {
    let p = if d.len() >= 12 && &d[..8] == codec::FRAME_MAGIC { &d[12..] } else { d };
    codec::decode(p).ok()?.get("NONC").map(|n| n.len())
}

/// Classic request with a nonce of `nl` bytes in a datagram of `total` bytes (PAD may be empty).
fn classic_with_nonce(nl: usize, total: usize) -> Option<Vec<u8>> {
    if total % 4 != 0 || total < 16 + nl {
        return None;
    }
    Some(classic_request(&nonce(nl as u64, nl), total))
}

fn ietf_with_nonce(nl: usize, total: usize) -> Option<Vec<u8>> {
    // frame 12 + header (3 tags: 4 + 8 + 12 = 24) + VER 4 + nonce
    if total % 4 != 0 || total < 12 + 24 + 4 + nl {
        return None;
    }
    Some(ietf_request(&VER_IETF13, None, &nonce(nl as u64 + 7, nl), total))
}

/// The datagram space. Each entry: (family, datagram)
pub fn datagrams(tier: Tier, seed: u64) -> Vec<(&'static str, Vec<u8>)> {
    let mut out: Vec<(&'static str, Vec<u8>)> = vec![];
    let lens: Vec<usize> = match tier {
        Tier::Quick => (0..=2048).chain((2048..65507).step_by(257)).chain(65491..=65507).collect(),
        Tier::Thorough => (0..=65507).collect(),
    };
    let mut rng = Rng(seed ^ 0xc07);
    let random = rng.bytes(65507);
    let creq = classic_request(&nonce(1, 64), 1024);
    let ireq = ietf_request(&VER_IETF13, None, &nonce(2, 32), 1024);
    for &l in &lens {
        // random bytes (fixed pool, prefix of length l)
        out.push(("random", random[..l].to_vec()));
        // valid classic request re-padded to the length (when aligned and large enough), else truncated/extended
        if l % 4 == 0 && l >= 16 + 64 && l <= 4096 {
            out.push(("classic-repadded", classic_request(&nonce(1, 64), l)));
        }
        if l % 4 == 0 && l >= 12 + 32 + 4 + 32 && l <= 4096 {
            out.push(("ietf-repadded", ietf_request(&VER_IETF13, None, &nonce(2, 32), l)));
        }
        if l <= 2100 {
            let mut t = creq.clone();
            t.resize(l, 0x5a);
            out.push(("classic-truncated-or-extended", t));
            let mut t = ireq.clone();
            t.resize(l, 0x5a);
            out.push(("ietf-truncated-or-extended", t));
        }
    }
    // IETF frame-length values on otherwise valid requests of several sizes
    for total in [1024usize, 1028, 1200, 1500] {
        let base = ietf_request(&VER_IETF13, None, &nonce(3, 32), total);
        let real = (total - 12) as u32;
        for fl in [real.wrapping_sub(4), real.wrapping_sub(1), real.wrapping_add(1), real.wrapping_add(4), 0, 1, 4, u32::MAX, real ^ 0x8000_0000, real] {
            let mut d = base.clone();
            d[8..12].copy_from_slice(&fl.to_le_bytes());
            out.push(("ietf-frame-length", d));
        }
    }
    // nonces of every aligned length, minimal enclosing request and 1500-byte request, both protocols
    for nl in (0..=1484usize).step_by(4) {
        for total in [(16 + nl).max(1024), 1500] {
            if let Some(d) = classic_with_nonce(nl, total) {
                out.push(("classic-nonce-length", d));
            }
        }
        for total in [(12 + 24 + 4 + nl).max(1024), 1500] {
            if let Some(d) = ietf_with_nonce(nl, total) {
                out.push(("ietf-nonce-length", d));
            }
        }
    }
    // field mutants
    {
        use rtref::codec::Msg;
        let pad = |m: &Msg, total: usize, padtag: &str| -> Vec<u8> {
            let mut m = m.clone();
            m.set(padtag, vec![]);
            let cur = m.encode().len();
            m.set(padtag, vec![0u8; total - cur]);
            m.encode()
        };
        // classic: missing NONC
        out.push(("field-mutant", pad(&Msg::from_pairs(&[("SIG", vec![0; 64])]), 1024, "PAD")));
        // classic: NONC + extra tags
        out.push(("field-mutant", pad(&Msg::from_pairs(&[("NONC", nonce(9, 64)), ("SIG", vec![0; 64]), ("INDX", vec![0; 4])]), 1024, "PAD")));
        // ietf: VER absent
        out.push(("field-mutant", codec::frame(&pad(&Msg::from_pairs(&[("NONC", nonce(9, 32))]), 1012, "ZZZZ"))));
        // ietf: VER unsupported
        out.push(("field-mutant", ietf_request(&[1, 0, 0, 0x80], None, &nonce(9, 32), 1024)));
        // ietf: NONC absent
        out.push(("field-mutant", codec::frame(&pad(&Msg::from_pairs(&[("VER", VER_IETF13.to_vec())]), 1012, "ZZZZ"))));
        // ietf: SRV wrong
        out.push(("field-mutant", ietf_request(&VER_IETF13, Some(&[0x77; 32]), &nonce(9, 32), 1024)));
        // ietf magic followed by a classic request
        let mut d = b"ROUGHTIM".to_vec();
        d.extend_from_slice(&classic_request(&nonce(9, 64), 1016));
        out.push(("field-mutant", d));
        // classic request with count word 0 (empty message) and trailing bytes
        out.push(("field-mutant", vec![0u8; 1024]));
    }
    // tag order: every permutation of the tag sequence of requests carrying one or both padding
    // tags (and a duplicate tag); only the ascending order is well-formed
    {
        use rtref::codec::Msg;
        fn perms(n: usize) -> Vec<Vec<usize>> {
            if n == 1 {
                return vec![vec![0]];
            }
            let mut out = vec![];
            for p in perms(n - 1) {
                for i in 0..n {
                    let mut q = p.clone();
                    q.insert(i, n - 1);
                    out.push(q);
                }
            }
            out
        }
        let sets: Vec<(bool, Vec<(&str, usize)>)> = vec![
            (false, vec![("NONC", 64), ("PAD", 0)]),
            (false, vec![("NONC", 64), ("ZZZZ", 0)]),
            (false, vec![("NONC", 64), ("ZZZZ", 400), ("PAD", 0)]),
            (false, vec![("SIG", 64), ("NONC", 64), ("PAD", 0)]),
            (false, vec![("NONC", 64), ("NONC", 64), ("PAD", 0)]),
            (true, vec![("VER", 4), ("NONC", 32), ("ZZZZ", 0)]),
            (true, vec![("VER", 4), ("NONC", 32), ("PAD", 0)]),
            (true, vec![("VER", 4), ("NONC", 32), ("ZZZZ", 400), ("PAD", 0)]),
            (true, vec![("VER", 4), ("SRV", 32), ("NONC", 32), ("ZZZZ", 0)]),
            (true, vec![("VER", 4), ("SRV", 32), ("NONC", 32), ("ZZZZ", 400), ("PAD", 0)]),
            (true, vec![("VER", 4), ("VER", 4), ("NONC", 32), ("ZZZZ", 0)]),
        ];
        let lt_pk = crypto::public_key(&SrvCfg::default().seed);
        let srv = crypto::srv_value(&lt_pk);
        for (framed, set) in sets {
            let total = if framed { 1012 } else { 1024 };
            let fixed: usize = set.iter().map(|(_, l)| *l).sum();
            let fill = total - codec::header_len(set.len()) - fixed;
            for p in perms(set.len()) {
                let mut m = Msg::new();
                for &i in &p {
                    let (t, l) = set[i];
                    let v = match t {
                        "VER" => VER_IETF13.to_vec(),
                        "SRV" => srv.to_vec(),
                        "NONC" => nonce(0x7a6 + out.len() as u64, l),
                        _ if l == 0 => vec![0u8; fill],
                        _ => vec![0u8; l],
                    };
                    m.fields.push((codec::tag(t), v));
                }
                let b = m.encode();
                out.push(("tag-order", if framed { codec::frame(&b) } else { b }));
            }
        }
    }
    // the 12-byte frame header of a valid IETF request: every single bit flipped, every byte replaced
    // by 00 / ff / its lower-case form, the magic truncated to its first word
    {
        let base = ietf_request(&VER_IETF13, None, &nonce(0x7f0, 32), 1024);
        for bit in 0..96 {
            let mut d = base.clone();
            d[bit / 8] ^= 1 << (bit % 8);
            out.push(("frame-header", d));
        }
        for pos in 0..12 {
            for v in [0x00u8, 0xff, base[pos].to_ascii_lowercase(), b'X'] {
                if base[pos] != v {
                    let mut d = base.clone();
                    d[pos] = v;
                    out.push(("frame-header", d));
                }
            }
        }
        let mut d = base.clone();
        d[4..8].copy_from_slice(&[0, 0, 0, 0]);
        out.push(("frame-header", d));
    }
    // every header word of a valid request of each shape swept over its range (shared with C08)
    for (_, d) in super::c08::header_sweeps() {
        out.push(("header-sweep", d));
    }
    // VER lists of unknown numbers whose bytes spell the draft-13 number across an entry boundary
    for shift in 1..4usize {
        let mut ab = vec![0u8; 8];
        ab[shift..shift + 4].copy_from_slice(&VER_IETF13);
        ab[0] |= 0x01; // keep both entries non-zero and unknown
        ab[7] |= 0x01;
        let unknown = [0x01u8, 0, 0, 0x80];
        for l in [ab.clone(), [unknown.to_vec(), ab.clone()].concat(), [ab.clone(), unknown.to_vec()].concat(), [ab.clone(), ab.clone()].concat()] {
            out.push(("ietf-version-list", ietf_request(&l, None, &nonce(0x7c0 + out.len() as u64, 32), 1024)));
        }
        let mut plain = vec![0u8; 8];
        plain[shift..shift + 4].copy_from_slice(&VER_IETF13);
        out.push(("ietf-version-list", ietf_request(&plain, None, &nonce(0x7c0 + out.len() as u64, 32), 1024)));
    }
    // framed requests naming every VER list of length <= 3 over {draft-13, classic 0, an unknown number}
    {
        let vs: [[u8; 4]; 3] = [VER_IETF13, [0, 0, 0, 0], [1, 0, 0, 0x80]];
        for len in 0..=3usize {
            for mut idx in 0..3usize.pow(len as u32) {
                let mut v = vec![];
                for _ in 0..len {
                    v.extend_from_slice(&vs[idx % 3]);
                    idx /= 3;
                }
                out.push(("ietf-version-list", ietf_request(&v, None, &nonce(0x77 + out.len() as u64, 32), 1024)));
                out.push(("ietf-version-list", ietf_request(&v, None, &nonce(0x78 + out.len() as u64, 32), 1500)));
            }
        }
    }
    out
}

pub fn run(ctx: &Ctx) -> Result<(), String> {
    ctx.set_level("model_checking");
    crate::inproc::init();
    crate::inproc::kernel_selftest(70)?;
    let ds = datagrams(ctx.tier, ctx.seed);
    let classes: Mutex<BTreeMap<String, u64>> = Mutex::new(BTreeMap::new());
    let nontrivial = AtomicU64::new(0);
    let transitions = AtomicU64::new(0);
    let failed: Mutex<Option<String>> = Mutex::new(None);
    let bss: Vec<u8> = ctx.tier.pick(vec![64], vec![1, 64]);
    for &bs in &bss {
        // shard the datagram list; each shard has its own long-running server
        let shards = crate::util::nthreads() * 4;
        par_for(shards, 1, |sh, _| {
            let mut p = match Prober::new(&SrvCfg { batch_size: bs, ..Default::default() }) {
                Ok(p) => p,
                Err(e) => {
                    *failed.lock().unwrap() = Some(e);
                    return;
                }
            };
            let mut local: BTreeMap<String, u64> = BTreeMap::new();
            let mut i = sh;
            while i < ds.len() {
                let (fam, d) = &ds[i];
                i += shards;
                let out = match p.probe(d) {
                    Ok(o) => o,
                    Err(e) => {
                        *failed.lock().unwrap() = Some(e);
                        return;
                    }
                };
                transitions.fetch_add(6, Relaxed);
                let (class, vs) = judge(d, &out, &p);
                if !class.starts_with("must-not") || d.len() >= MIN_REQ {
                    nontrivial.fetch_add(1, Relaxed);
                }
                *local.entry(format!("{}:{}", fam, class)).or_insert(0) += 1;
                for (clause, cls, msg) in vs {
                    ctx.violation(&clause, "request-gate", &cls, json!({"kind":"datagram","family":fam,"len":d.len(),"batch_size":bs,"hex":hex_trunc(d, 1600),"message":msg}));
                }
                if p.srv.dead {
                    p = match Prober::new(&SrvCfg { batch_size: bs, ..Default::default() }) {
                        Ok(p) => p,
                        Err(e) => {
                            *failed.lock().unwrap() = Some(e);
                            return;
                        }
                    };
                }
            }
            let mut g = classes.lock().unwrap();
            for (k, v) in local {
                *g.entry(k).or_insert(0) += v;
            }
        });
    }
    if let Some(e) = failed.lock().unwrap().take() {
        return Err(e);
    }
    // full batches: batch sizes with maximum-depth paths of maximum-size-nonce (may) and canonical requests
    let full_bs: Vec<u8> = ctx.tier.pick(vec![1, 2, 3, 4, 8, 16, 32, 63, 64], (1..=64).collect());
    let full_n = AtomicU64::new(0);
    par_for(full_bs.len(), 1, |j, _| {
        let bs = full_bs[j];
        for (fam, v, nl, total) in [("full-batch-canonical", Version::Classic, 64usize, 1024usize), ("full-batch-canonical", Version::Ietf13, 32, 1024), ("full-batch-big-nonce", Version::Classic, 640, 1024), ("full-batch-big-nonce", Version::Ietf13, 640, 1024)] {
            let mut srv = match Srv::new(&SrvCfg { batch_size: bs, ..Default::default() }) {
                Ok(s) => s,
                Err(e) => {
                    *failed.lock().unwrap() = Some(e);
                    return;
                }
            };
            let k = bs as usize;
            let clients: Vec<Client> = (0..k).map(|_| Client::new()).collect();
            let reqs: Vec<Vec<u8>> = (0..k)
                .map(|i| match v {
                    Version::Classic => classic_request(&nonce(1000 + i as u64, nl), total),
                    Version::Ietf13 => ietf_request(&VER_IETF13, None, &nonce(2000 + i as u64, nl), total),
                })
                .collect();
            for (c, r) in clients.iter().zip(&reqs) {
                c.send(srv.addr, r);
            }
            transitions.fetch_add(k as u64 + 2, Relaxed);
            if let Err(p) = srv.settle() {
                ctx.violation("panic", "request-gate", fam, json!({"kind":"full-batch","batch_size":bs,"version":v.name(),"nonce_len":nl,"panic":p}));
                continue;
            }
            for (i, c) in clients.iter().enumerate() {
                full_n.fetch_add(1, Relaxed);
                for (r, _) in c.drain() {
                    if r.len() > reqs[i].len() {
                        ctx.violation("amplification", "request-gate", if nl > 64 { "nonce>64" } else { "nonce<=64" }, json!({"kind":"full-batch","batch_size":bs,"version":v.name(),"nonce_len":nl,"request_len":reqs[i].len(),"reply_len":r.len()}));
                    }
                }
            }
        }
    });
    if let Some(e) = failed.lock().unwrap().take() {
        return Err(e);
    }
    // fault injection on (deliberately invalid replies): a long run of requests on ONE server, singly
    // and in full batches; no reply, valid or deliberately invalid, is longer than its request
    let fault_modes: Vec<(u8, u8, usize, usize)> = vec![(1, 50, 40, 1), (64, 50, 6, 64), (3, 25, 30, 3)]; // batch_size, fault, rounds, per round
    let fault_n = AtomicU64::new(0);
    par_for(fault_modes.len() * 2, 1, |j, _| {
        let (bs, fault, rounds, per) = fault_modes[j / 2];
        let v = if j % 2 == 0 { Version::Classic } else { Version::Ietf13 };
        let mut srv = match Srv::new(&SrvCfg { batch_size: bs, fault, ..Default::default() }) {
            Ok(s) => s,
            Err(e) => {
                *failed.lock().unwrap() = Some(e);
                return;
            }
        };
        for round in 0..rounds {
            let clients: Vec<Client> = (0..per).map(|_| Client::new()).collect();
            let reqs: Vec<Vec<u8>> = (0..per).map(|i| rtref::responder::std_request(v, &nonce(0xfa17_0000 + (round * 64 + i) as u64, v.nonce_len()))).collect();
            for (c, r) in clients.iter().zip(&reqs) {
                c.send(srv.addr, r);
            }
            transitions.fetch_add(per as u64 + 2, Relaxed);
            if let Err(p) = srv.settle() {
                ctx.violation("panic", "request-gate", "fault-injection-on", json!({"kind":"fault-run","batch_size":bs,"fault_percentage":fault,"version":v.name(),"round":round,"panic":p}));
                return;
            }
            for (i, c) in clients.iter().enumerate() {
                fault_n.fetch_add(1, Relaxed);
                for (r, _) in c.drain() {
                    if r.len() > reqs[i].len() {
                        ctx.violation("amplification", "request-gate", "fault-injection-on", json!({"kind":"fault-run","batch_size":bs,"fault_percentage":fault,"version":v.name(),"round":round,"request_len":reqs[i].len(),"reply_len":r.len(),
                            "message":"with fault injection on, a reply is longer than the request it answers"}));
                        return;
                    }
                }
            }
        }
    });
    if let Some(e) = failed.lock().unwrap().take() {
        return Err(e);
    }
    ctx.cov("fault_injection_requests", json!(fault_n.load(Relaxed)));
    let cls = classes.lock().unwrap().clone();
    ctx.cov("states", json!(cls.len()));
    ctx.cov("transitions", json!(transitions.load(Relaxed)));
    ctx.cov("traces_validated_against_impl", json!(ds.len() * bss.len() + full_bs.len() * 4));
    ctx.cov("evaluations", json!(ds.len() * bss.len() + full_n.load(Relaxed) as usize));
    ctx.cov("distinct_nontrivial", json!(nontrivial.load(Relaxed)));
    ctx.cov("outcome_classes", json!(cls));
    ctx.cov("exhaustive", json!(true));
    ctx.cov("bound", json!({"lengths": ctx.tier.pick("0..=2048 every length, then every 257th, top 17", "every length 0..=65507"), "nonce_lengths":"every multiple of 4 in 0..=1484", "full_batches": full_bs.len()}));
    ctx.cov("rule", json!("each datagram is one history on a real in-process Server: send from a fresh socket, process_events to quiescence, collect, then a valid sentinel request (alternating protocol) must be answered with an authentic reply. Datagram space: random bytes / valid classic and IETF requests re-padded, truncated, extended at every length of the tier's length set; every frame-length deviation; nonces of every aligned length 0..=1484 in minimal and 1500-byte requests for both protocols; field mutants; framed requests with every VER list of length <= 3 over {draft-13, classic 0, unknown}; full batches (k = batch_size) of canonical and 640-byte-nonce requests; long runs of valid requests on one server with fault_percentage 50 / 25 (singly, batches of 3, full batches of 64). Oracle: 3-valued classifier from the statement (must-answer canonical, may for other nonce lengths / draft-13 beyond the 4th VER entry, must-not otherwise); reply => authentic for that request; always len(reply) <= len(request). states = distinct (family, class, #replies) outcome classes; non-trivial = datagram of length >= 1024 or one that is not must-not."));
    ctx.sample(json!({"family":"classic-nonce-length","nonce_len":1008,"request_len":1024}));
    ctx.sample(json!({"family":"ietf-frame-length","frame_len_field":"real+4","request_len":1024}));
    ctx.sample(json!({"family":"random","len":1500}));
    ctx.assume("loopback UDP delivery is synchronous with send_to (self-tested)");
    Ok(())
}

pub fn replay_case(c: &Value) -> Result<Option<String>, String> {
    if c["kind"] != "datagram" {
        return Err("replay of this case kind: re-run the check".into());
    }
    let h = c["hex"].as_str().ok_or("hex")?;
    if h.contains("..(") {
        return Err("truncated".into());
    }
    let d = crypto::unhex(h);
    let bs = c["batch_size"].as_u64().unwrap_or(64) as u8;
    crate::util::on_named_thread("worker-0", || {
        let mut p = Prober::new(&SrvCfg { batch_size: bs, ..Default::default() })?;
        let out = p.probe(&d)?;
        let (_, vs) = judge(&d, &out, &p);
        Ok(vs.first().map(|v| format!("{} {} {}", v.0, v.1, v.2)))
    })
}
