//! C20 — the long-term seed never appears in anything the server emits.

use super::alphabet::seeds_subset;
use super::c09::{self, Ev};
use crate::ev::{Ctx, Tier};
use crate::inproc::{self, Srv, SrvCfg, LEVELS};
use crate::util::{hex, par_for};
use rtref::crypto;
use rtref::Version;
use serde_json::{json, Value};
use std::sync::atomic::{AtomicU64, Ordering::Relaxed};
use std::sync::Mutex;

pub struct Scanner {
    pub patterns: Vec<(String, Vec<u8>)>,
}

impl Scanner {
    pub fn for_seed(seed: &[u8; 32]) -> Scanner {
        let (scalar, expanded) = crypto::expanded_secret(seed);
        let mut secrets: Vec<(&str, Vec<u8>)> = vec![("seed", seed.to_vec()), ("scalar", scalar.to_vec()), ("expanded-lo", expanded[..32].to_vec()), ("expanded-hi", expanded[32..].to_vec())];
        secrets.dedup_by(|a, b| a.1 == b.1);
        let mut patterns = vec![];
        for (name, s) in secrets {
            patterns.push((format!("{}/raw", name), s.clone()));
            patterns.push((format!("{}/hex", name), crypto::hex(&s).into_bytes()));
            patterns.push((format!("{}/HEX", name), crypto::hex(&s).to_uppercase().into_bytes()));
            patterns.push((format!("{}/base64", name), crypto::base64(&s, false, false).into_bytes()));
            patterns.push((format!("{}/base64url", name), crypto::base64(&s, true, false).into_bytes()));
            // Debug rendering of a byte vector: "[163, 32, 73, ...]"
            let dbg = format!("{:?}", s);
            patterns.push((format!("{}/debug-list", name), dbg[1..dbg.len() - 1].as_bytes().to_vec()));
        }
        Scanner { patterns }
    }
    /// Returns the name of the first pattern found in `hay`.
    pub fn scan(&self, hay: &[u8]) -> Option<&str> {
        // hexadecimal forms are matched whatever the case of each digit
        let lower = hay.to_ascii_lowercase();
        for (n, p) in &self.patterns {
            let h: &[u8] = if n.ends_with("/hex") { &lower } else { hay };
            if p.len() <= h.len() && find(h, p) {
                return Some(n);
            }
        }
        None
    }
}

fn find(hay: &[u8], needle: &[u8]) -> bool {
    if needle.is_empty() || hay.len() < needle.len() {
        return false;
    }
    let first = needle[0];
    let last = hay.len() - needle.len();
    let mut i = 0;
    while i <= last {
        match hay[i..=last].iter().position(|&b| b == first) {
            None => return false,
            Some(p) => {
                i += p;
                if &hay[i..i + needle.len()] == needle {
                    return true;
                }
                i += 1;
            }
        }
    }
    false
}

/// One in-process execution: construct a server from `seed`, run events, scan every log record
/// and every datagram received.
fn scan_execution(ctx: &Ctx, seed: &[u8; 32], cfg: &SrvCfg, evs: &[Ev], level: log::LevelFilter, scanned: &AtomicU64, what: &str) -> Result<(), String> {
    let sc = Scanner::for_seed(seed);
    inproc::capture_start();
    let mut srv = Srv::new(cfg)?;
    // renderings of the key objects the server logs at start-up in the real binary
    log::info!("Long-term public key       : {}", srv.server.get_public_key());
    let mut obs = c09::run_events(&mut srv, evs, 2, false);
    let lt_pk = crypto::public_key(seed);
    let _ = c09::judge(&mut obs, &lt_pk, cfg.fault > 0);
    let logs = inproc::capture_take();
    let detail = |where_: &str, pat: &str| json!({"kind":"scan","what":what,"seed":hex(seed),"level":format!("{}", level),"fault":cfg.fault,"batch_size":cfg.batch_size,"events":evs.iter().map(|e| e.name()).collect::<Vec<_>>(),"where":where_,"pattern":pat});
    for l in &logs {
        scanned.fetch_add(l.len() as u64, Relaxed);
        if let Some(p) = sc.scan(l.as_bytes()) {
            ctx.violation("secret-in-log", p.split('/').next().unwrap_or("?"), &format!("{}", level), detail(&l[..l.len().min(200)], p));
        }
    }
    for rs in &obs.received {
        for (d, _) in rs {
            scanned.fetch_add(d.len() as u64, Relaxed);
            if let Some(p) = sc.scan(d) {
                ctx.violation("secret-in-datagram", p.split('/').next().unwrap_or("?"), "datagram", detail("datagram", p));
            }
        }
    }
    Ok(())
}

pub fn run(ctx: &Ctx) -> Result<(), String> {
    ctx.set_level("model_checking");
    inproc::init();
    let scanned = AtomicU64::new(0);
    let execs = AtomicU64::new(0);
    let transitions = AtomicU64::new(0);
    let failed: Mutex<Option<String>> = Mutex::new(None);

    // planted-seed self-test: the scanner must find the seed when the harness logs it itself
    {
        let seed = inproc::DEFAULT_SEED;
        let sc = Scanner::for_seed(&seed);
        let (scalar, _) = crypto::expanded_secret(&seed);
        let planted = [
            format!("seed is {}", crypto::hex(&seed)),
            format!("seed is {}", crypto::hex(&seed).to_uppercase()),
            format!("k={}=", crypto::base64(&seed, false, true)),
            format!("dbg {:?}", seed.to_vec()),
            format!("scalar {}", crypto::hex(&scalar)),
        ];
        for p in &planted {
            if sc.scan(p.as_bytes()).is_none() {
                return Err(format!("scanner self-test failed on {:?}", p));
            }
        }
        let mut raw = b"xx".to_vec();
        raw.extend_from_slice(&seed);
        if sc.scan(&raw).is_none() || sc.scan(b"nothing to see").is_some() {
            return Err("scanner self-test (raw/negative) failed".into());
        }
    }

    let al = c09::alphabet();
    let seeds = seeds_subset(ctx.seed, ctx.tier.pick(24, 200));
    // (1) seed alphabet x log levels x fixed mixes (valid, invalid, fault-injected)
    let mixes: Vec<Vec<Ev>> = vec![
        vec![Ev::Req(0, Version::Classic), Ev::Req(1, Version::Ietf13), Ev::Bad(0), Ev::Step, Ev::Req(1, Version::Classic), Ev::Req(0, Version::Ietf13), Ev::Bad(1)],
        vec![Ev::Bad(0), Ev::Bad(1), Ev::Req(0, Version::Ietf13)],
    ];
    for level in LEVELS {
        inproc::set_level(level);
        // (2) all C09 event histories of the tier's depth at this level with the default seed
        let depth = ctx.tier.pick(3usize, 4);
        for (fault, bs) in [(0u8, 2u8), (50, 2), (0, 64)] {
            let cfg = SrvCfg { batch_size: bs, fault, ..Default::default() };
            let n = al.len().pow(depth as u32);
            par_for(n, 8, |idx, _| {
                let h = c09::history_from_index(idx, depth, &al);
                execs.fetch_add(1, Relaxed);
                transitions.fetch_add(h.len() as u64 + 3, Relaxed);
                if let Err(e) = scan_execution(ctx, &inproc::DEFAULT_SEED, &cfg, &h, level, &scanned, "event-histories") {
                    *failed.lock().unwrap() = Some(e);
                }
            });
        }
        par_for(seeds.len(), 1, |si, _| {
            let (seed, _) = seeds[si];
            for fault in [0u8, 50] {
                for m in &mixes {
                    let cfg = SrvCfg { batch_size: 2, fault, seed, ..Default::default() };
                    execs.fetch_add(1, Relaxed);
                    transitions.fetch_add(m.len() as u64 + 3, Relaxed);
                    if let Err(e) = scan_execution(ctx, &seed, &cfg, m, level, &scanned, "seed-alphabet") {
                        *failed.lock().unwrap() = Some(e);
                    }
                }
            }
        });
        // (3) C08 datagram classes (malformed, oversized, empty nonce ...) at this level
        {
            let cl = super::c08::alphabet(ctx.seed);
            let seed = inproc::DEFAULT_SEED;
            let sc = Scanner::for_seed(&seed);
            let n = cl.len() * cl.len();
            par_for(n, 4, |k, _| {
                let (a, b) = (k / cl.len(), k % cl.len());
                inproc::capture_start();
                let r = (|| -> Result<Vec<Vec<u8>>, String> {
                    let mut srv = Srv::new(&SrvCfg::default())?;
                    let c1 = crate::inproc::Client::new();
                    let c2 = crate::inproc::Client::new();
                    c1.send(srv.addr, &cl[a].1);
                    c2.send(srv.addr, &cl[b].1);
                    let _ = srv.settle();
                    let mut v: Vec<Vec<u8>> = c1.drain().into_iter().map(|x| x.0).collect();
                    v.extend(c2.drain().into_iter().map(|x| x.0));
                    Ok(v)
                })();
                let logs = inproc::capture_take();
                execs.fetch_add(1, Relaxed);
                transitions.fetch_add(4, Relaxed);
                match r {
                    Err(e) => *failed.lock().unwrap() = Some(e),
                    Ok(ds) => {
                        for l in &logs {
                            scanned.fetch_add(l.len() as u64, Relaxed);
                            if let Some(p) = sc.scan(l.as_bytes()) {
                                ctx.violation("secret-in-log", p.split('/').next().unwrap_or("?"), &format!("{}", level), json!({"kind":"scan","what":"datagram-classes","classes":[cl[a].0, cl[b].0],"level":format!("{}", level),"where":l[..l.len().min(200)],"pattern":p}));
                            }
                        }
                        for d in &ds {
                            scanned.fetch_add(d.len() as u64, Relaxed);
                            if let Some(p) = sc.scan(d) {
                                ctx.violation("secret-in-datagram", p.split('/').next().unwrap_or("?"), "datagram", json!({"kind":"scan","what":"datagram-classes","classes":[cl[a].0, cl[b].0],"pattern":p}));
                            }
                        }
                    }
                }
            });
        }
        if let Some(e) = failed.lock().unwrap().take() {
            inproc::set_level(log::LevelFilter::Off);
            return Err(e);
        }
    }
    inproc::set_level(log::LevelFilter::Off);

    // (4) renderings of key objects (Display/Debug) and every real-binary run: see proc part
    {
        use roughenough::key::{LongTermKey, OnlineKey};
        use roughenough::sign::MsgSigner;
        for (seed, _) in seeds.iter() {
            let sc = Scanner::for_seed(seed);
            let mut k = LongTermKey::new(seed);
            let ok = OnlineKey::new();
            let _ = k.make_cert(&roughenough::version::Version::Google, &ok);
            let s = MsgSigner::from_seed(seed);
            for r in [format!("{}", k), format!("{}", s), format!("{:?}", s)] {
                scanned.fetch_add(r.len() as u64, Relaxed);
                execs.fetch_add(1, Relaxed);
                if let Some(p) = sc.scan(r.as_bytes()) {
                    ctx.violation("secret-in-rendering", p.split('/').next().unwrap_or("?"), "display-debug", json!({"kind":"render","seed":hex(seed),"rendering":r,"pattern":p}));
                }
            }
        }
    }
    // (5) process level: real server binary, both configuration sources, accepted and refused starts
    let proc_runs = crate::proc::c20_process_part(ctx, &scanned)?;

    ctx.cov("states", json!(execs.load(Relaxed)));
    ctx.cov("transitions", json!(transitions.load(Relaxed)));
    ctx.cov("traces_validated_against_impl", json!(execs.load(Relaxed) + proc_runs));
    ctx.cov("evaluations", json!(execs.load(Relaxed) + proc_runs));
    ctx.cov("distinct_nontrivial", json!(execs.load(Relaxed) + proc_runs));
    ctx.cov("bytes_scanned", json!(scanned.load(Relaxed)));
    ctx.cov("process_runs_scanned", json!(proc_runs));
    ctx.cov("log_records", json!(inproc::LOG_RECORDS.load(Relaxed)));
    ctx.cov("exhaustive", json!(true));
    ctx.cov("bound", json!({"seeds": seeds.len(), "log_levels": 6, "event_history_depth": ctx.tier.pick(3, 4), "datagram_class_pairs": 225}));
    ctx.cov("rule", json!("every execution constructs a real in-process Server from the seed with a capturing logger at the given level and scans every log record and every datagram any harness socket receives for the seed, the Ed25519 private scalar and both halves of the expanded key, each in raw, hex, HEX, base64 (std/url) and Rust Debug-list form. Executions: all C09 event histories of the tier's depth x log level Off..Trace x {fault 0, fault 50, batch 64}; seed alphabet x log levels x fault {0,50} x two mixes; all ordered pairs of the C08 datagram classes x log levels; Display/Debug renderings of the key objects; real server binary runs (file and ENV sources; accepted and refused configurations incl. every point of the C16 configuration grid on three bases) with stdout/stderr scanned. A planted-seed self-test guards against a blind scanner."));
    ctx.sample(json!({"what":"event-histories","level":"TRACE","fault":50,"events":["C0","X0","I1"]}));
    ctx.sample(json!({"what":"seed-alphabet","seed":"0100..00","level":"DEBUG"}));
    ctx.assume("secrets embedded at a shifted alignment inside a larger base64 blob are not searched for");
    let _ = Tier::Quick;
    Ok(())
}

pub fn replay_case(_c: &Value) -> Result<Option<String>, String> {
    Err("replay: re-run the check (scan cases depend on fresh online keys)".into())
}
