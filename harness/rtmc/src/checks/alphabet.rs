//! Shared structured alphabets.
use crate::util::Rng;

/// Seed alphabet: all-zero, all-0xff, RFC 8032 vectors, 256 single-bit seeds, 256 single-byte-value
/// seeds, 64 seeded random (the random ones are "sampled"; flagged by the second tuple field).
pub fn seeds(seed: u64) -> Vec<([u8; 32], bool)> {
    let mut v: Vec<([u8; 32], bool)> = vec![([0u8; 32], false), ([0xff; 32], false)];
    for r in rtref::crypto::RFC8032.iter() {
        v.push((rtref::crypto::unhex(r.seed).try_into().unwrap(), false));
    }
    // seeds that are readable text (a pass-phrase, hex digits, an unreplaced placeholder)
    for t in [&b"correct horse battery staple!!!!"[..], &b"0123456789abcdef0123456789abcdef"[..], &b"seed seed seed seed seed seed see"[..32]] {
        v.push((t.try_into().unwrap(), false));
    }
    for bit in 0..256 {
        let mut s = [0u8; 32];
        s[bit / 8] = 1 << (bit % 8);
        v.push((s, false));
    }
    for b in 1..=254u8 {
        v.push(([b; 32], false));
    }
    let mut rng = Rng(seed ^ 0x5eed);
    for _ in 0..64 {
        v.push((rng.bytes(32).try_into().unwrap(), true));
    }
    v
}

/// A spread-out subset of n seeds, always including the first 9 (zero, ff, RFC vectors, text seeds).
pub fn seeds_subset(seed: u64, n: usize) -> Vec<([u8; 32], bool)> {
    const FIXED: usize = 9;
    let all = seeds(seed);
    if n >= all.len() {
        return all;
    }
    let mut out: Vec<([u8; 32], bool)> = all[..FIXED.min(n)].to_vec();
    let rest = &all[FIXED..];
    let want = n.saturating_sub(out.len());
    for k in 0..want {
        out.push(rest[k * rest.len() / want.max(1)]);
    }
    out
}

pub fn canonical_message(len: usize) -> Vec<u8> {
    (0..len).map(|i| ((i * 31 + len * 7) & 0xff) as u8).collect()
}
