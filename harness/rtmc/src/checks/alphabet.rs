//! Shared structured alphabets.
use crate::util::Rng;

/// Seed alphabet: all-zero, all-0xff, RFC 8032 vectors, 256 single-bit seeds, 256 single-byte-value
/// seeds, 64 seeded random (the random ones are "sampled"; flagged by the second tuple field).
pub fn seeds(seed: u64) -> Vec<([u8; 32], bool)> {
    let mut v: Vec<([u8; 32], bool)> = vec![([0u8; 32], false), ([0xff; 32], false)];
    for r in rtref::crypto::RFC8032.iter() {
        v.push((rtref::crypto::unhex(r.seed).try_into().unwrap(), false));
    }
    // seeds that are readable text (a pass-phrase, hex digits, an unreplaced placeholder)
    for t in [&b"correct horse battery staple!!!!"[..], &b"0123456789abcdef0123456789abcdef"[..], &b"seed seed seed seed seed seed see"[..32]] {
        v.push((t.try_into().unwrap(), false));
    }
    // seeds whose first / last bytes have the value of ASCII white space, NUL or a quote character
    // (whatever a text-minded clean-up step might strip)
    for (at, b) in [(31usize, 0x0au8), (31, 0x20), (0, 0x20), (31, 0x00), (0, 0x22), (31, 0x0d)] {
        let mut s: [u8; 32] = core::array::from_fn(|i| (i as u8).wrapping_mul(37).wrapping_add(0x51));
        s[at] = b;
        if at == 31 && b == 0x0d {
            s[30] = 0x0d;
            s[31] = 0x0a;
        }
        v.push((s, false));
    }
    for bit in 0..256 {
        let mut s = [0u8; 32];
        s[bit / 8] = 1 << (bit % 8);
        v.push((s, false));
    }
    for b in 1..=254u8 {
        v.push(([b; 32], false));
    }
    let mut rng = Rng(seed ^ 0x5eed);
    for _ in 0..64 {
        v.push((rng.bytes(32).try_into().unwrap(), true));
    }
    v
}

/// A spread-out subset of n seeds, always including the first 15 (zero, ff, RFC vectors, text seeds, seeds with white-space/NUL/quote bytes at an end).
pub fn seeds_subset(seed: u64, n: usize) -> Vec<([u8; 32], bool)> {
    const FIXED: usize = 15;
    let all = seeds(seed);
    if n >= all.len() {
        return all;
    }
    let mut out: Vec<([u8; 32], bool)> = all[..FIXED.min(n)].to_vec();
    let rest = &all[FIXED..];
    let want = n.saturating_sub(out.len());
    for k in 0..want {
        out.push(rest[k * rest.len() / want.max(1)]);
    }
    out
}

pub fn canonical_message(len: usize) -> Vec<u8> {
    (0..len).map(|i| ((i * 31 + len * 7) & 0xff) as u8).collect()
}
