use crate::ev::Ctx;

pub mod alphabet;
pub mod c01;
pub mod c02;
pub mod c04;
pub mod c07;
pub mod c08;
pub mod c09;
pub mod c12;
pub mod c10;
pub mod c11;
pub mod c13;
pub mod c14;
pub mod c15;
pub mod c16;
pub mod c17;
pub mod c18;
pub mod c19;
pub mod c20;
pub mod codec;

pub fn run(ctx: &Ctx) -> Result<(), String> {
    match ctx.id.as_str() {
        "C01" => c01::run_c01(ctx),
        "C03" => c01::run_c03(ctx),
        "C02" => c02::run(ctx),
        "C04" => c04::run(ctx),
        "C07" => c07::run(ctx),
        "C08" => c08::run(ctx),
        "C09" => c09::run(ctx),
        "C10" => c10::run(ctx),
        "C11" => c11::run(ctx),
        "C12" => c12::run(ctx),
        "C15" => c15::run(ctx),
        "C16" => c16::run(ctx),
        "C17" => c17::run(ctx),
        "C18" => c18::run(ctx),
        "C19" => c19::run(ctx),
        "C20" => c20::run(ctx),
        "C13" => c13::run(ctx),
        "C14" => c14::run(ctx),
        "C05" => codec::run(ctx, codec::Which::C05),
        "C06" => codec::run(ctx, codec::Which::C06),
        other => Err(format!("no check registered for {}", other)),
    }
}

/// Re-execute the cases recorded in a replay file against the current tree, without the explorer.
/// Exit 1 if any case still violates, 0 if none does, 2 on machinery error.
pub fn replay(path: &str) -> i32 {
    let s = match std::fs::read_to_string(path) {
        Ok(s) => s,
        Err(e) => {
            eprintln!("MACHINERY-ERROR cannot read {}: {}", path, e);
            return 2;
        }
    };
    let v: serde_json::Value = match serde_json::from_str(&s) {
        Ok(v) => v,
        Err(e) => {
            eprintln!("MACHINERY-ERROR cannot parse {}: {}", path, e);
            return 2;
        }
    };
    let id = v["property"].as_str().unwrap_or("").to_string();
    let cases = v["cases"].as_array().cloned().unwrap_or_default();
    let mut bad = 0;
    for (k, c) in cases.iter().enumerate() {
        let r: Result<Option<String>, String> = match id.as_str() {
            "C01" => c01::replay_case(c),
            "C03" => c01::replay_case_c03(c),
            "C02" => c02::replay_case(c),
            "C04" => c04::replay_case(c),
            "C07" => c07::replay_case(c),
            "C08" => c08::replay_case(c),
            "C09" => c09::replay_case(c),
            "C10" => c10::replay_case(c),
            "C11" => c11::replay_case(c),
            "C12" => c12::replay_case(c),
            "C15" => c15::replay_case(c),
            "C16" => c16::replay_case(c),
            "C17" => c17::replay_case(c),
            "C18" => c18::replay_case(c),
            "C19" => c19::replay_case(c),
            "C20" => c20::replay_case(c),
            "C13" => c13::replay_case(c),
            "C14" => c14::replay_case(c),
            "C05" => codec::replay_case(c, codec::Which::C05),
            "C06" => codec::replay_case(c, codec::Which::C06),
            _ => Err(format!("no replay for {}", id)),
        };
        match r {
            Ok(Some(msg)) => {
                println!("case {}: STILL VIOLATES: {}", k, msg);
                bad += 1;
            }
            Ok(None) => println!("case {}: holds", k),
            Err(e) => {
                eprintln!("MACHINERY-ERROR replay case {}: {}", k, e);
                return 2;
            }
        }
    }
    if bad > 0 {
        println!("VIOLATION property={} replay={}", id, path);
        1
    } else {
        0
    }
}
