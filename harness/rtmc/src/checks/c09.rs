//! C09 — exactly one response per accepted request, to its sender, for its own nonce (E-STATE).
//! The history runner here is shared by C10/C11/C17/C20 (their oracles over the same histories).

use crate::ev::{Ctx, Tier};
use crate::inproc::{nonce, Client, Srv, SrvCfg};
use crate::util::{hex_trunc, par_for};
use rtref::responder::std_request;
use rtref::verifier::{authentic, Info, SERVER_VIEW};
use rtref::{crypto, Version};
use serde_json::{json, Value};
use std::collections::BTreeSet;
use std::sync::atomic::{AtomicU64, Ordering::Relaxed};
use std::sync::Mutex;
use std::time::{SystemTime, UNIX_EPOCH};

#[derive(Debug, Clone, Copy, PartialEq, Eq, Hash, PartialOrd, Ord)]
pub enum Ev {
    Req(usize, Version), // socket index, protocol
    Bad(usize),
    Step,
    /// one step during which a request from (socket, protocol) arrives when the worker passes the
    /// given hook point for the first time (0 = polled, 1 = collected, 2 = sent)
    StepInject(u8, usize, Version),
    /// the periodic statistics hand-off to the reporter queue (what the status timer triggers)
    Handoff,
}

const POINTS: [&str; 3] = ["polled", "collected", "sent"];

impl Ev {
    pub fn name(&self) -> String {
        match self {
            Ev::Req(s, Version::Classic) => format!("C{}", s),
            Ev::Req(s, Version::Ietf13) => format!("I{}", s),
            Ev::Bad(s) => format!("X{}", s),
            Ev::Step => "step".into(),
            Ev::Handoff => "handoff".into(),
            Ev::StepInject(p, s, v) => format!("step+{}{}@{}", if *v == Version::Classic { "C" } else { "I" }, s, POINTS[*p as usize]),
        }
    }
    pub fn parse(s: &str) -> Option<Ev> {
        if s == "step" {
            return Some(Ev::Step);
        }
        if s == "handoff" {
            return Some(Ev::Handoff);
        }
        if let Some(rest) = s.strip_prefix("step+") {
            let (req, pt) = rest.split_once('@')?;
            let p = POINTS.iter().position(|x| *x == pt)? as u8;
            let (k, n) = req.split_at(1);
            return Some(Ev::StepInject(p, n.parse().ok()?, if k == "C" { Version::Classic } else { Version::Ietf13 }));
        }
        let (k, n) = s.split_at(1);
        let n: usize = n.parse().ok()?;
        match k {
            "C" => Some(Ev::Req(n, Version::Classic)),
            "I" => Some(Ev::Req(n, Version::Ietf13)),
            "X" => Some(Ev::Bad(n)),
            _ => None,
        }
    }
}

pub struct Sent {
    pub sock: usize,
    pub version: Option<Version>, // None = invalid datagram
    pub bytes: Vec<u8>,
    /// harness clock (us since epoch) just before the datagram was sent
    pub t_sent_us: u64,
}

pub struct Obs {
    pub sent: Vec<Sent>,
    /// per socket: datagrams received (in arrival order) with source address
    pub received: Vec<Vec<(Vec<u8>, std::net::SocketAddr)>>,
    pub panic: Option<String>,
    pub t_before_us: u64,
    pub t_after_us: u64,
    pub infos: Vec<(usize, Version, Info)>, // (sent index, version, verified info)
    /// per socket, parallel to `received`: harness clock (us) when the datagram was drained
    pub recv_us: Vec<Vec<u64>>,
    /// (sent index, receive time) for every matched reply, parallel to `infos`
    pub info_times: Vec<(u64, u64)>,
    pub stats: Option<StatsSnap>,
    pub log: Vec<String>,
    pub srv_addr: std::net::SocketAddr,
}

#[derive(Debug, Clone, PartialEq, Eq)]
pub struct StatsSnap {
    pub valid: u64,
    pub classic: u64,
    pub rfc: u64,
    pub invalid: u64,
    pub responses: u64,
    pub classic_resp: u64,
    pub rfc_resp: u64,
    pub bytes: usize,
    pub failed_sends: u64,
    pub health: u64,
}

pub fn snap(s: &dyn roughenough::stats::ServerStats) -> StatsSnap {
    StatsSnap {
        valid: s.total_valid_requests(),
        classic: s.num_classic_requests(),
        rfc: s.num_rfc_requests(),
        invalid: s.total_invalid_requests(),
        responses: s.total_responses_sent(),
        classic_resp: s.num_classic_responses_sent(),
        rfc_resp: s.num_rfc_responses_sent(),
        bytes: s.total_bytes_sent(),
        failed_sends: s.total_failed_send_attempts(),
        health: s.total_health_checks(),
    }
}

fn now_us() -> u64 {
    SystemTime::now().duration_since(UNIX_EPOCH).unwrap().as_micros() as u64
}

/// Nonce pool: the k-th valid request of a protocol on a socket uses pool[(k/2) mod 2], so the first
/// requests of different sockets are byte-identical, a socket's second request is a byte-identical
/// retransmission of its first, its third differs, and its fifth repeats its first.
/// The second pool entry of the IETF protocol names the classic version number before draft-13 in
/// its VER list (still an IETF request: it is framed and offers draft-13 among its first four).
pub fn pool_request(v: Version, k: usize) -> Vec<u8> {
    let p = (k / 2) % 2;
    if v == Version::Ietf13 && p == 1 {
        let mut ver = vec![0u8, 0, 0, 0];
        ver.extend_from_slice(&rtref::proto::VER_IETF13);
        return rtref::responder::ietf_request(&ver, None, &nonce(0x9000 + p as u64, 32), 1024);
    }
    std_request(v, &nonce(0x9000 + p as u64, v.nonce_len()))
}

/// Datagrams that must be rejected. The variant rotates with the event's position in the history
/// and a digest of the whole history, so every variant meets every context across the enumeration:
///  0: right length, not a message (count word 3 followed by garbage offsets)
///  1: an empty datagram; 2: a 7-byte runt
///  3 / 4: over-long (1600 bytes) whose first 1500 bytes are a well-formed classic / IETF request
///  5: a valid classic request cut to 1020 bytes (below the minimum)
///  6: a framed request naming only the classic version number (no supported version for a frame)
///  7 / 8: a valid classic request followed by one / three stray bytes (length not a multiple of 4)
///  9: a well-formed IETF request that names ANOTHER server (foreign SRV value)
///  10 / 11: an IETF request whose SRV value is only the first 16 bytes of the default in-process
///      server's value / is empty (a value that is not this server's)
pub fn bad_datagram(variant: usize) -> Vec<u8> {
    match variant % 15 {
        0 => {
            // right length, not a message
            let mut d = vec![0x03, 0, 0, 0, 0xff, 0xff, 0xff, 0xff];
            d.resize(1024, 0x41);
            d
        }
        1 => vec![],              // empty datagram
        2 => b"ROUGHTI".to_vec(), // 7-byte runt
        3 => {
            let mut d = rtref::responder::classic_request(&nonce(0x9100, 64), 1500);
            d.resize(1600, 0);
            d
        }
        4 => {
            let mut d = rtref::responder::ietf_request(&rtref::proto::VER_IETF13, None, &nonce(0x9101, 32), 1500);
            d.resize(1600, 0);
            d
        }
        6 => rtref::responder::ietf_request(&[0, 0, 0, 0], None, &nonce(0x9103, 32), 1024),
        7 | 8 => {
            let mut d = rtref::responder::classic_request(&nonce(0x9104, 64), 1024);
            d.extend(std::iter::repeat(0x5a).take(if variant % 15 == 7 { 1 } else { 3 }));
            d
        }
        9 => rtref::responder::ietf_request(&rtref::proto::VER_IETF13, Some(&crypto::srv_value(&crypto::public_key(&[0x33; 32]))), &nonce(0x9105, 32), 1024),
        10 => rtref::responder::ietf_request(&rtref::proto::VER_IETF13, Some(&crypto::srv_value(&crypto::public_key(&crate::inproc::DEFAULT_SEED))[..16]), &nonce(0x9106, 32), 1024),
        11 => rtref::responder::ietf_request(&rtref::proto::VER_IETF13, Some(&[]), &nonce(0x9107, 32), 1024),
        // framed requests whose length field disagrees with the bytes that follow the header: a valid
        // request with 4 / 1 trailing bytes, and one whose length field is lowered by 4
        12 | 13 => {
            let mut d = rtref::responder::ietf_request(&rtref::proto::VER_IETF13, None, &nonce(0x9108, 32), 1024);
            d.extend(std::iter::repeat(0u8).take(if variant % 15 == 12 { 4 } else { 1 }));
            d
        }
        14 => {
            let mut d = rtref::responder::ietf_request(&rtref::proto::VER_IETF13, None, &nonce(0x9109, 32), 1024);
            let l = u32::from_le_bytes(d[8..12].try_into().unwrap());
            d[8..12].copy_from_slice(&(l - 4).to_le_bytes());
            d
        }
        _ => {
            let mut d = rtref::responder::classic_request(&nonce(0x9102, 64), 1024);
            d.truncate(1020);
            d
        }
    }
}

pub fn run_events(srv: &mut Srv, evs: &[Ev], nsock: usize, capture_log: bool) -> Obs {
    srv.label = format!("in-process Server batch_size={} fault={} client_stats={} events={:?}", srv.cfg.batch_size, srv.cfg.fault, srv.cfg.client_stats, evs.iter().map(|e| e.name()).collect::<Vec<_>>());
    let per_sock = evs.len() / nsock.max(1);
    let clients: Vec<Client> = (0..nsock).map(|_| if per_sock > 32 { Client::with_big_buffer() } else { Client::new() }).collect();
    let mut counts = vec![[0usize; 2]; nsock];
    let mut sent = vec![];
    let mut panic = None;
    let mut received: Vec<Vec<(Vec<u8>, std::net::SocketAddr)>> = vec![vec![]; nsock];
    let mut recv_us: Vec<Vec<u64>> = vec![vec![]; nsock];
    if capture_log {
        crate::inproc::capture_start();
    }
    let t_before_us = now_us();
    // which rejected kind a `Bad` event sends depends on its position and on the whole history, so
    // that across the enumeration every kind meets every context even in short histories
    let salt: usize = evs.iter().enumerate().map(|(i, e)| (i + 1) * match e { Ev::Req(s, Version::Classic) => 1 + s, Ev::Req(s, Version::Ietf13) => 3 + s, Ev::Bad(s) => 5 + s, Ev::Step => 7, Ev::Handoff => 8, Ev::StepInject(..) => 9 }).sum();
    for (pos, e) in evs.iter().enumerate() {
        match *e {
            Ev::Req(s, v) => {
                let vi = if v == Version::Classic { 0 } else { 1 };
                let b = pool_request(v, counts[s][vi]);
                counts[s][vi] += 1;
                let t = now_us();
                clients[s].send(srv.addr, &b);
                sent.push(Sent { sock: s, version: Some(v), bytes: b, t_sent_us: t });
            }
            Ev::Bad(s) => {
                let b = bad_datagram(pos + salt);
                let t = now_us();
                clients[s].send(srv.addr, &b);
                sent.push(Sent { sock: s, version: None, bytes: b, t_sent_us: t });
            }
            Ev::Step => {
                if let Err(p) = srv.step() {
                    panic = Some(p);
                    break;
                }
                drain_into(&clients, &mut received, &mut recv_us);
            }
            Ev::Handoff => {
                if let Err(p) = srv.handoff_stats() {
                    panic = Some(p);
                    break;
                }
            }
            Ev::StepInject(pt, s, v) => {
                let vi = if v == Version::Classic { 0 } else { 1 };
                let b = pool_request(v, counts[s][vi]);
                counts[s][vi] += 1;
                // the arrival happens inside the step, at the hook point
                let sock = clients[s].sock.try_clone().expect("clone socket");
                let addr = srv.addr;
                let b2 = b.clone();
                let mut t_inject = now_us();
                let fired = std::rc::Rc::new(std::cell::Cell::new(false));
                let fired_at = std::rc::Rc::new(std::cell::Cell::new(0u64));
                let f2 = fired.clone();
                let fa2 = fired_at.clone();
                let want = POINTS[pt as usize];
                roughenough::verif::set_callback(Some(Box::new(move |kind, _| {
                    if kind == want && !f2.get() {
                        f2.set(true);
                        // the request's send time is the moment it is sent: inside the step
                        fa2.set(now_us());
                        let _ = sock.send_to(&b2, addr);
                    }
                })));
                let r = srv.step();
                roughenough::verif::set_callback(None);
                if fired.get() {
                    t_inject = fired_at.get();
                } else {
                    // the point was not passed in this step (e.g. nothing was pending): the arrival
                    // happens right after the step instead
                    t_inject = now_us();
                    clients[s].send(srv.addr, &b);
                }
                sent.push(Sent { sock: s, version: Some(v), bytes: b, t_sent_us: t_inject });
                if let Err(p) = r {
                    panic = Some(p);
                    break;
                }
                drain_into(&clients, &mut received, &mut recv_us);
            }
        }
    }
    if panic.is_none() {
        if let Err(p) = srv.settle() {
            panic = Some(p);
        }
    }
    drain_into(&clients, &mut received, &mut recv_us);
    let t_after_us = now_us();
    let stats = if panic.is_none() { Some(snap(srv.server.verif_stats())) } else { None };
    let log = if capture_log { crate::inproc::capture_take() } else { vec![] };
    Obs { sent, received, panic, t_before_us, t_after_us, infos: vec![], recv_us, info_times: vec![], stats, log, srv_addr: srv.addr }
}

fn drain_into(clients: &[Client], received: &mut Vec<Vec<(Vec<u8>, std::net::SocketAddr)>>, recv_us: &mut Vec<Vec<u64>>) {
    for (i, c) in clients.iter().enumerate() {
        let got = c.drain();
        if !got.is_empty() {
            let t = now_us();
            for g in got {
                received[i].push(g);
                recv_us[i].push(t);
            }
        }
    }
}

/// The C09 oracle. Fills obs.infos. Returns violations (clause, class, message).
pub fn judge(obs: &mut Obs, lt_pk: &[u8], fault: bool) -> Vec<(String, String, String)> {
    let mut out = vec![];
    if let Some(p) = &obs.panic {
        out.push(("panic".into(), "process_events".into(), p.clone()));
        return out;
    }
    let nsock = obs.received.len();
    for s in 0..nsock {
        // requests sent from this socket that must be answered
        let mut pending: Vec<usize> = obs.sent.iter().enumerate().filter(|(_, x)| x.sock == s && x.version.is_some()).map(|(i, _)| i).collect();
        let expected = pending.len();
        let got = obs.received[s].len();
        if got != expected {
            let clause = if got < expected { "missing-reply" } else { "extra-reply" };
            out.push((clause.into(), format!("sock{}", s.min(1)), format!("socket {} sent {} accepted requests, received {} datagrams", s, expected, got)));
        }
        for (ri, (reply, from)) in obs.received[s].clone().into_iter().enumerate() {
            if from != obs.srv_addr {
                out.push(("reply-from-wrong-address".into(), "addr".into(), format!("{}", from)));
            }
            if fault {
                continue;
            }
            // match to an unanswered request of this socket that the reply is authentic for
            let mut matched = None;
            let mut first_err = "no-pending-request";
            for (pi, &si) in pending.iter().enumerate() {
                let v = obs.sent[si].version.unwrap();
                match authentic(&reply, &obs.sent[si].bytes, v, Some(lt_pk), SERVER_VIEW) {
                    Ok(info) => {
                        matched = Some((pi, si, v, info));
                        break;
                    }
                    Err(c) => {
                        if first_err == "no-pending-request" {
                            first_err = c;
                        }
                    }
                }
            }
            match matched {
                Some((pi, si, v, info)) => {
                    pending.remove(pi);
                    // reply protocol = request protocol: IETF replies are framed, classic are not
                    let framed = reply.len() >= 8 && &reply[..8] == rtref::codec::FRAME_MAGIC;
                    if framed != (v == Version::Ietf13) {
                        out.push(("reply-protocol-differs".into(), v.name().into(), "framing".into()));
                    }
                    obs.infos.push((si, v, info));
                    obs.info_times.push((obs.sent[si].t_sent_us, obs.recv_us[s].get(ri).copied().unwrap_or(obs.t_after_us)));
                }
                None => {
                    out.push(("reply-not-for-own-request".into(), first_err.into(), format!("socket {} received a datagram that is not an authentic reply to any of its unanswered requests ({}): {}", s, first_err, hex_trunc(&reply, 96))));
                }
            }
        }
    }
    out
}

pub fn alphabet() -> Vec<Ev> {
    vec![Ev::Req(0, Version::Classic), Ev::Req(1, Version::Classic), Ev::Req(0, Version::Ietf13), Ev::Req(1, Version::Ietf13), Ev::Bad(0), Ev::Step]
}

pub fn history_from_index(mut idx: usize, len: usize, al: &[Ev]) -> Vec<Ev> {
    let mut h = Vec::with_capacity(len);
    for _ in 0..len {
        h.push(al[idx % al.len()]);
        idx /= al.len();
    }
    h
}

pub fn hist_json(cfg: &SrvCfg, h: &[Ev]) -> Value {
    json!({"batch_size": cfg.batch_size, "fault": cfg.fault, "client_stats": cfg.client_stats, "health": cfg.health, "events": h.iter().map(|e| e.name()).collect::<Vec<_>>()})
}

/// canonical abstract state of a finished history, for the `states` count only
fn canon(obs: &Obs) -> (Vec<usize>, Vec<usize>, Option<(u64, u64, u64)>) {
    (
        obs.received.iter().map(|r| r.len()).collect(),
        {
            let mut b: Vec<usize> = vec![];
            let mut by: std::collections::BTreeMap<Vec<u8>, usize> = Default::default();
            for (_, _, i) in &obs.infos {
                *by.entry(i.srep_bytes.clone()).or_insert(0) += 1;
            }
            b.extend(by.values());
            b.sort();
            b
        },
        obs.stats.as_ref().map(|s| (s.valid, s.invalid, s.responses)),
    )
}

pub fn run(ctx: &Ctx) -> Result<(), String> {
    ctx.set_level("model_checking");
    crate::inproc::init();
    crate::inproc::kernel_selftest(140)?;
    let al = alphabet();
    let depth = ctx.tier.pick(5usize, 7);
    let lt_pk = crypto::public_key(&crate::inproc::DEFAULT_SEED);
    let states: Mutex<BTreeSet<(u8, Vec<usize>, Vec<usize>, Option<(u64, u64, u64)>)>> = Mutex::new(BTreeSet::new());
    let hist_n = AtomicU64::new(0);
    let transitions = AtomicU64::new(0);
    let replies = AtomicU64::new(0);
    let failed: Mutex<Option<String>> = Mutex::new(None);

    // determinism self-test
    {
        let cfg = SrvCfg { batch_size: 2, ..Default::default() };
        let h = vec![al[0], al[3], al[4], al[5], al[1], al[2], al[0]];
        let mut o = vec![];
        for _ in 0..2 {
            let c = crate::util::on_named_thread("worker-0", || -> Result<_, String> {
                let mut srv = Srv::new(&cfg)?;
                let mut obs = run_events(&mut srv, &h, 2, false);
                let v = judge(&mut obs, &lt_pk, false);
                Ok((canon(&obs), v.len()))
            })?;
            o.push(c);
        }
        if o[0] != o[1] {
            return Err(format!("determinism self-test failed: {:?}", o));
        }
    }

    for bs in [1u8, 2, 3] {
        let cfg = SrvCfg { batch_size: bs, ..Default::default() };
        for len in 1..=depth {
            let n = al.len().pow(len as u32);
            par_for(n, 64, |idx, _| {
                let h = history_from_index(idx, len, &al);
                // histories ending in `step` duplicate the shorter history + quiescence; still run (cheap), not counted as new
                let mut srv = match Srv::new(&cfg) {
                    Ok(s) => s,
                    Err(e) => {
                        *failed.lock().unwrap() = Some(e);
                        return;
                    }
                };
                let mut obs = run_events(&mut srv, &h, 2, false);
                let vs = judge(&mut obs, &lt_pk, false);
                hist_n.fetch_add(1, Relaxed);
                transitions.fetch_add(h.len() as u64 + 2, Relaxed);
                replies.fetch_add(obs.infos.len() as u64, Relaxed);
                // stats wiring (C17 part 3 oracle is applied in the C17 check; here only used for canon)
                let c = canon(&obs);
                states.lock().unwrap().insert((bs, c.0, c.1, c.2));
                for (clause, class, msg) in vs {
                    ctx.violation(&clause, "responder", &class, json!({"kind":"events","history":hist_json(&cfg, &h),"message":msg}));
                }
            });
            if let Some(e) = failed.lock().unwrap().take() {
                return Err(e);
            }
        }
    }

    // the same histories one level shallower under the server's other documented modes: per-client
    // statistics, a health-check port, fault injection at its maximum (replies then need not verify,
    // but there is still exactly one per accepted request, to its sender), and all three together
    let modes_n = AtomicU64::new(0);
    {
        let d2 = depth - 1;
        let modes: Vec<SrvCfg> = vec![
            SrvCfg { batch_size: 2, client_stats: true, ..Default::default() },
            SrvCfg { batch_size: 2, health: true, ..Default::default() },
            SrvCfg { batch_size: 2, fault: 50, ..Default::default() },
            SrvCfg { batch_size: 3, client_stats: true, health: true, fault: 50, ..Default::default() },
        ];
        for cfg in &modes {
            let n = al.len().pow(d2 as u32);
            par_for(n, 64, |idx, _| {
                let h = history_from_index(idx, d2, &al);
                let mut srv = match Srv::new(cfg) {
                    Ok(s) => s,
                    Err(e) => {
                        *failed.lock().unwrap() = Some(e);
                        return;
                    }
                };
                let mut obs = run_events(&mut srv, &h, 2, false);
                let vs = judge(&mut obs, &lt_pk, cfg.fault > 0);
                modes_n.fetch_add(1, Relaxed);
                hist_n.fetch_add(1, Relaxed);
                transitions.fetch_add(h.len() as u64 + 2, Relaxed);
                replies.fetch_add(obs.received.iter().map(|r| r.len() as u64).sum::<u64>(), Relaxed);
                for (clause, class, msg) in vs {
                    ctx.violation(&clause, "responder", &format!("{}/client_stats={} health={} fault={}", class, cfg.client_stats, cfg.health, cfg.fault), json!({"kind":"events","history":hist_json(cfg, &h),"message":msg}));
                }
            });
            if let Some(e) = failed.lock().unwrap().take() {
                return Err(e);
            }
        }
    }
    ctx.cov("histories_in_other_server_modes", json!(modes_n.load(Relaxed)));

    // mid-step arrivals: prefix (<= 2 events) + one step during which a request arrives at a hook
    // point (after poll returned / after the socket was seen empty / after the replies were sent)
    // + suffix (<= 1 event); the arrival after WouldBlock must raise a fresh readiness edge
    let inject_n = AtomicU64::new(0);
    {
        let mut hs: Vec<Vec<Ev>> = vec![];
        let mut prefixes: Vec<Vec<Ev>> = vec![vec![]];
        for l in 1..=2usize {
            for idx in 0..al.len().pow(l as u32) {
                prefixes.push(history_from_index(idx, l, &al));
            }
        }
        let mut suffixes: Vec<Vec<Ev>> = vec![vec![]];
        for e in &al {
            suffixes.push(vec![*e]);
        }
        for pre in &prefixes {
            for pt in 0..3u8 {
                for (sk, v) in [(0usize, Version::Classic), (1, Version::Classic), (0, Version::Ietf13)] {
                    for suf in &suffixes {
                        let mut h = pre.clone();
                        h.push(Ev::StepInject(pt, sk, v));
                        h.extend(suf.iter().cloned());
                        hs.push(h);
                    }
                }
            }
        }
        for bs in [1u8, 2, 3] {
            let cfg = SrvCfg { batch_size: bs, ..Default::default() };
            par_for(hs.len(), 32, |k, _| {
                let h = &hs[k];
                let mut srv = match Srv::new(&cfg) {
                    Ok(s) => s,
                    Err(e) => {
                        *failed.lock().unwrap() = Some(e);
                        return;
                    }
                };
                let mut obs = run_events(&mut srv, h, 2, false);
                let vs = judge(&mut obs, &lt_pk, false);
                inject_n.fetch_add(1, Relaxed);
                transitions.fetch_add(h.len() as u64 + 3, Relaxed);
                replies.fetch_add(obs.infos.len() as u64, Relaxed);
                for (clause, class, msg) in vs {
                    ctx.violation(&clause, "responder", &format!("mid-step-arrival/{}", class), json!({"kind":"events","history":hist_json(&cfg, h),"message":msg}));
                }
            });
            if let Some(e) = failed.lock().unwrap().take() {
                return Err(e);
            }
        }
    }

    // differential: same suffix after a prefix vs on a fresh server (history independence)
    let diff_n = AtomicU64::new(0);
    {
        let sfx_len = ctx.tier.pick(3usize, 4);
        let prefixes: Vec<Vec<Ev>> = vec![
            vec![al[0], al[0], al[0]],
            vec![al[2], al[1], al[5], al[4]],
            vec![al[0], al[1], al[2], al[3], al[0], al[1], al[2], al[3], al[5]],
        ];
        for bs in [1u8, 2, 3] {
            let cfg = SrvCfg { batch_size: bs, ..Default::default() };
            let n = al.len().pow(sfx_len as u32);
            par_for(n * prefixes.len(), 16, |k, _| {
                let pre = &prefixes[k / n];
                let sfx = history_from_index(k % n, sfx_len, &al);
                let run = |with_prefix: bool| -> Result<(Vec<usize>, usize), String> {
                    let mut srv = Srv::new(&cfg)?;
                    if with_prefix {
                        let mut o = run_events(&mut srv, pre, 2, false);
                        let _ = judge(&mut o, &lt_pk, false);
                    }
                    // suffix uses fresh sockets (indices 0,1 of a new client set)
                    let mut o = run_events(&mut srv, &sfx, 2, false);
                    let v = judge(&mut o, &lt_pk, false);
                    Ok((o.received.iter().map(|r| r.len()).collect(), v.len()))
                };
                diff_n.fetch_add(1, Relaxed);
                transitions.fetch_add((pre.len() + 2 * sfx.len() + 4) as u64, Relaxed);
                match (run(false), run(true)) {
                    (Ok(a), Ok(b)) => {
                        if a != b {
                            ctx.violation("history-dependence", "responder", "prefix", json!({"kind":"diff","batch_size":bs,"prefix":pre.iter().map(|e| e.name()).collect::<Vec<_>>(),"suffix":sfx.iter().map(|e| e.name()).collect::<Vec<_>>(),"fresh":format!("{:?}", a),"after_prefix":format!("{:?}", b)}));
                        }
                    }
                    (Err(e), _) | (_, Err(e)) => *failed.lock().unwrap() = Some(e),
                }
            });
        }
    }
    if let Some(e) = failed.lock().unwrap().take() {
        return Err(e);
    }

    // parametric bursts for every batch_size 1..=64
    let burst_n = AtomicU64::new(0);
    {
        let bss: Vec<u8> = ctx.tier.pick(vec![1, 2, 3, 4, 5, 7, 8, 16, 31, 32, 33, 63, 64], (1..=64).collect());
        let big_burst_max_b: usize = ctx.tier.pick(8, 64);
        par_for(bss.len(), 1, |j, _| {
            let bs = bss[j];
            let b = bs as usize;
            let cfg = SrvCfg { batch_size: bs, ..Default::default() };
            let mut ks: BTreeSet<usize> = [b.saturating_sub(1), b, b + 1, 2 * b, 2 * b + 1].into_iter().filter(|k| *k >= 1).collect();
            ks.insert(1);
            // bursts beyond what one call of the event loop handles (several calls must drain them)
            if b <= big_burst_max_b {
                for k in [16 * b, 16 * b + 1, 17 * b + 1, 32 * b + 1] {
                    ks.insert(k);
                }
            }
            for &k in &ks {
                for pat in ["C", "I", "CI", "CIX", "same-socket", "same-nonce"] {
                    // build an event list over up to k sockets
                    let nsock = if pat == "same-socket" { 1 } else { k };
                    let evs: Vec<Ev> = (0..k)
                        .map(|i| {
                            let s = if pat == "same-socket" { 0 } else { i };
                            match pat {
                                "C" | "same-nonce" => Ev::Req(s, Version::Classic),
                                "I" => Ev::Req(s, Version::Ietf13),
                                "CI" => Ev::Req(s, if i % 2 == 0 { Version::Classic } else { Version::Ietf13 }),
                                "CIX" => match i % 3 {
                                    0 => Ev::Req(s, Version::Classic),
                                    1 => Ev::Req(s, Version::Ietf13),
                                    _ => Ev::Bad(s),
                                },
                                _ => Ev::Req(s, if i % 2 == 0 { Version::Ietf13 } else { Version::Classic }),
                            }
                        })
                        .collect();
                    let mut srv = match Srv::new(&cfg) {
                        Ok(s) => s,
                        Err(e) => {
                            *failed.lock().unwrap() = Some(e);
                            return;
                        }
                    };
                    let mut obs = run_events(&mut srv, &evs, nsock, false);
                    let vs = judge(&mut obs, &lt_pk, false);
                    burst_n.fetch_add(1, Relaxed);
                    transitions.fetch_add(k as u64 + 2, Relaxed);
                    replies.fetch_add(obs.infos.len() as u64, Relaxed);
                    for (clause, class, msg) in vs {
                        ctx.violation(&clause, "responder", &class, json!({"kind":"burst","batch_size":bs,"k":k,"pattern":pat,"message":msg}));
                    }
                }
            }
        });
    }
    if let Some(e) = failed.lock().unwrap().take() {
        return Err(e);
    }

    let st = states.lock().unwrap().len();
    ctx.cov("states", json!(st));
    ctx.cov("transitions", json!(transitions.load(Relaxed)));
    ctx.cov("traces_validated_against_impl", json!(hist_n.load(Relaxed) + inject_n.load(Relaxed) + diff_n.load(Relaxed) * 2 + burst_n.load(Relaxed)));
    ctx.cov("evaluations", json!(hist_n.load(Relaxed) + inject_n.load(Relaxed) + diff_n.load(Relaxed) + burst_n.load(Relaxed)));
    ctx.cov("mid_step_arrival_histories", json!(inject_n.load(Relaxed)));
    ctx.cov("distinct_nontrivial", json!(hist_n.load(Relaxed)));
    ctx.cov("replies_matched", json!(replies.load(Relaxed)));
    ctx.cov("exhaustive", json!(true));
    ctx.cov("bound", json!({"history_depth": depth, "alphabet": al.iter().map(|e| e.name()).collect::<Vec<_>>(), "batch_sizes_histories":[1,2,3], "differential_suffix_len": ctx.tier.pick(3,4), "burst_batch_sizes": ctx.tier.pick(13, 64)}));
    ctx.cov("rule", json!(format!("all event sequences of length 1..={} over {{C0,C1,I0,I1 (valid classic/IETF request from socket 0/1), X0 (a datagram that must be rejected: garbage of valid length / over-long with a well-formed 1500-byte classic or IETF prefix / valid request cut below the minimum / empty / 7-byte runt, rotating with the event position), step}} for batch_size 1,2,3, each completed to quiescence on a fresh real in-process Server (stateless enumeration; `states` = distinct canonical end states: per-socket reply counts, batch-size multiset, stats totals). Nonce pool forces byte-identical requests from different sockets, immediate byte-identical retransmissions on one socket, then a different request, then repeats. Oracle: per socket, the received datagrams are exactly one authentic reply (rtref::authentic bound to the exact request bytes) per accepted request sent from that socket, nothing for rejected datagrams, replies come from the server's address, framing matches the request's protocol. Mid-step arrivals: every prefix of <= 2 events + one step during which a request arrives at the polled/collected/sent hook point + every suffix of <= 1 event (a datagram arriving after the socket was seen empty must still be answered). Differential: every suffix of length {} after 3 prefixes vs on a fresh server. Parametric bursts: batch sizes x k in {{b-1,b,b+1,2b,2b+1}} (and 16b, 16b+1, 17b+1, 32b+1 for b <= 8, thorough all b: more than one event-loop call is needed to drain them) x 6 patterns.", depth, ctx.tier.pick(3,4))));
    ctx.sample(json!({"batch_size":2,"events":["C0","C1","I0","step","X0","I1"]}));
    ctx.sample(json!({"kind":"burst","batch_size":64,"k":129,"pattern":"CIX"}));
    ctx.assume("loopback UDP delivery is synchronous with send_to (self-tested)");
    let _ = Tier::Quick;
    Ok(())
}

pub fn replay_case(c: &Value) -> Result<Option<String>, String> {
    if c["kind"] != "events" {
        return Err("replay of this case kind: re-run the check".into());
    }
    let h = &c["history"];
    let cfg = SrvCfg { batch_size: h["batch_size"].as_u64().ok_or("batch_size")? as u8, fault: h["fault"].as_u64().unwrap_or(0) as u8, client_stats: h["client_stats"].as_bool().unwrap_or(false), health: h["health"].as_bool().unwrap_or(false), ..Default::default() };
    let evs: Vec<Ev> = h["events"].as_array().ok_or("events")?.iter().filter_map(|e| Ev::parse(e.as_str()?)).collect();
    let lt_pk = crypto::public_key(&cfg.seed);
    crate::util::on_named_thread("worker-0", || {
        let mut srv = Srv::new(&cfg)?;
        let nsock = evs.iter().map(|e| match e { Ev::Req(s, _) | Ev::Bad(s) | Ev::StepInject(_, s, _) => *s + 1, _ => 1 }).max().unwrap_or(1);
        let mut obs = run_events(&mut srv, &evs, nsock, false);
        let v = judge(&mut obs, &lt_pk, cfg.fault > 0);
        Ok(v.first().map(|x| format!("{} {} {}", x.0, x.1, x.2)))
    })
}
