//! C02 — every server response verifies under an independent spec-derived verifier (E-STATE).

use crate::ev::{Ctx, Tier};
use crate::inproc::{nonce, Client, Srv, SrvCfg};
use crate::util::{hex, hex_trunc, par_for};
use rtref::proto::VER_IETF13;
use rtref::responder::{classic_request, ietf_request};
use rtref::verifier::{authentic, Info, SERVER_VIEW};
use rtref::{crypto, Version};
use serde_json::{json, Value};
use std::collections::{BTreeMap, BTreeSet};
use std::sync::atomic::{AtomicU64, Ordering::Relaxed};
use std::sync::Mutex;

#[derive(Clone, Debug)]
pub struct Burst {
    /// version of each request in send order
    pub mix: Vec<Version>,
    pub size: usize,
    pub srv: bool,
}

impl Burst {
    pub fn to_json(&self) -> Value {
        json!({"mix": self.mix.iter().map(|v| if *v == Version::Classic {"C"} else {"I"}).collect::<String>(), "size": self.size, "srv": self.srv})
    }
    pub fn from_json(v: &Value) -> Option<Burst> {
        Some(Burst {
            mix: v["mix"].as_str()?.chars().map(|c| if c == 'C' { Version::Classic } else { Version::Ietf13 }).collect(),
            size: v["size"].as_u64()? as usize,
            srv: v["srv"].as_bool()?,
        })
    }
}

pub fn build_request(v: Version, n: &[u8], size: usize, srv: Option<&[u8]>) -> Vec<u8> {
    match v {
        Version::Classic => classic_request(n, size),
        Version::Ietf13 => ietf_request(&VER_IETF13, srv, n, size),
    }
}

pub struct BurstResult {
    pub replies: u64,
    pub violations: Vec<(String, String, Value)>, // clause, class, detail
    pub batches: Vec<usize>,
    pub failed_verify: u64,
    /// fault mode: per signed batch (replies sharing one SREP value): (verified, failed)
    pub fates: Vec<(u64, u64)>,
}

/// Run one burst against a (possibly long-running) server and judge every reply.
/// `tagbase` makes nonces distinct across bursts. With `fault > 0` verification failures are
/// counted instead of reported (but one reply per request is still required).
pub fn run_burst(srv: &mut Srv, b: &Burst, tagbase: u64, hist: &Value) -> Result<BurstResult, String> {
    let lt_pk = crypto::public_key(&srv.cfg.seed);
    let srv_val = crypto::srv_value(&lt_pk);
    let k = b.mix.len();
    let clients: Vec<Client> = (0..k).map(|_| Client::new()).collect();
    let reqs: Vec<Vec<u8>> = b
        .mix
        .iter()
        .enumerate()
        .map(|(i, v)| build_request(*v, &nonce(tagbase + i as u64, v.nonce_len()), b.size, if b.srv { Some(&srv_val[..]) } else { None }))
        .collect();
    for (c, r) in clients.iter().zip(reqs.iter()) {
        if !c.send(srv.addr, r) {
            return Err("client send failed".into());
        }
    }
    let mut res = BurstResult { replies: 0, violations: vec![], batches: vec![], failed_verify: 0, fates: vec![] };
    let mut fate_by_srep: BTreeMap<Vec<u8>, (u64, u64)> = BTreeMap::new();
    let fault = srv.cfg.fault > 0;
    if let Err(p) = srv.settle() {
        res.violations.push(("panic".into(), "process_events".into(), json!({"kind":"history","history":hist,"panic":p})));
        return Ok(res);
    }
    // group by SREP bytes
    let mut groups: BTreeMap<Vec<u8>, Vec<(usize, Info)>> = BTreeMap::new();
    for (i, c) in clients.iter().enumerate() {
        let got = c.drain();
        let v = b.mix[i];
        let class = v.name().to_string();
        let d = |msg: String, reply: &[u8]| json!({"kind":"history","history":hist,"request_index":i,"version":v.name(),"message":msg,"reply":hex_trunc(reply, 2048),"batch_size":srv.cfg.batch_size});
        if got.len() != 1 {
            res.violations.push((if got.is_empty() { "no-reply".into() } else { "extra-replies".into() }, class.clone(), d(format!("{} datagrams", got.len()), &[])));
        }
        for (reply, from) in got {
            res.replies += 1;
            if from != srv.addr {
                res.violations.push(("reply-from-wrong-address".into(), class.clone(), d(format!("{}", from), &reply)));
            }
            let verdict = authentic(&reply, &reqs[i], v, Some(&lt_pk), SERVER_VIEW);
            if fault {
                // which signed batch the reply belongs to: its SREP value (left intact by both
                // injected pathologies), read leniently (the tag order may be shuffled)
                let payload: &[u8] = if reply.len() >= 12 && &reply[..8] == rtref::codec::FRAME_MAGIC { &reply[12..] } else { &reply[..] };
                if let Some(f) = rtref::codec::decode_lenient(payload) {
                    if let Some((_, srep)) = f.iter().find(|(t, _)| *t == rtref::codec::tag("SREP")) {
                        let e = fate_by_srep.entry(srep.clone()).or_insert((0, 0));
                        if verdict.is_ok() {
                            e.0 += 1;
                        } else {
                            e.1 += 1;
                        }
                    }
                }
            }
            match verdict {
                Ok(info) => {
                    if reply.len() > reqs[i].len() {
                        // amplification is C07's concern; not judged here
                    }
                    groups.entry(info.srep_bytes.clone()).or_default().push((i, info));
                }
                Err(clause) => {
                    if fault {
                        res.failed_verify += 1;
                    } else {
                        res.violations.push((clause.to_string(), class.clone(), d(format!("reference verifier rejects: {}", clause), &reply)));
                    }
                }
            }
        }
    }
    res.fates = fate_by_srep.into_values().collect();
    if !fault {
        for (_, g) in groups {
            let m = g.len();
            res.batches.push(m);
            let v = b.mix[g[0].0];
            let idx: BTreeSet<u32> = g.iter().map(|x| x.1.indx).collect();
            let want: BTreeSet<u32> = (0..m as u32).collect();
            if idx != want {
                res.violations.push(("batch-index-set".into(), v.name().into(), json!({"kind":"history","history":hist,"indices":idx,"batch":m})));
            }
            let wantlen = rtref::merkle::depth_for(m) * v.node_width();
            if g.iter().any(|x| x.1.path_len != wantlen) {
                res.violations.push(("path-length".into(), v.name().into(), json!({"kind":"history","history":hist,"batch":m,"path_lens":g.iter().map(|x| x.1.path_len).collect::<Vec<_>>(),"want":wantlen})));
            }
            if m > srv.cfg.batch_size as usize {
                res.violations.push(("batch-exceeds-batch-size".into(), v.name().into(), json!({"kind":"history","history":hist,"batch":m})));
            }
            if g.iter().any(|x| b.mix[x.0] != v) {
                res.violations.push(("mixed-protocol-batch".into(), v.name().into(), json!({"kind":"history","history":hist})));
            }
        }
    }
    Ok(res)
}

pub fn mixes(k: usize) -> Vec<Vec<Version>> {
    use Version::*;
    if k <= 4 {
        (0..1u32 << k).map(|m| (0..k).map(|i| if m >> i & 1 == 1 { Ietf13 } else { Classic }).collect()).collect()
    } else {
        vec![
            vec![Classic; k],
            vec![Ietf13; k],
            (0..k).map(|i| if i % 2 == 0 { Classic } else { Ietf13 }).collect(),
            (0..k).map(|i| if i < k / 2 { Ietf13 } else { Classic }).collect(),
        ]
    }
}

/// Run a history (sequence of bursts) on one server; report violations.
pub fn run_history(ctx: &Ctx, cfg: &SrvCfg, bursts: &[Burst], stats: &Stats) -> Result<(), String> {
    let hist = json!({"batch_size": cfg.batch_size, "fault": cfg.fault, "bursts": bursts.iter().map(|b| b.to_json()).collect::<Vec<_>>()});
    let mut srv = Srv::new(cfg)?;
    // C10 cross-check: announced key
    let pk_hex = srv.server.get_public_key().to_string();
    if pk_hex != hex(&crypto::public_key(&cfg.seed)) {
        ctx.violation("announced-key-differs", "get_public_key", "identity", json!({"kind":"history","history":hist,"announced":pk_hex}));
    }
    for (bi, b) in bursts.iter().enumerate() {
        let r = run_burst(&mut srv, b, (bi as u64) << 32, &hist)?;
        stats.replies.fetch_add(r.replies, Relaxed);
        stats.transitions.fetch_add(b.mix.len() as u64 + 2, Relaxed);
        {
            let mut bs = stats.batch_shapes.lock().unwrap();
            for m in &r.batches {
                bs.insert(*m);
            }
        }
        for (clause, class, d) in r.violations {
            ctx.violation(&clause, "reply", &class, d);
        }
        if srv.dead {
            break;
        }
    }
    stats.histories.fetch_add(1, Relaxed);
    Ok(())
}

pub struct Stats {
    pub replies: AtomicU64,
    pub histories: AtomicU64,
    pub transitions: AtomicU64,
    pub batch_shapes: Mutex<BTreeSet<usize>>,
}

pub fn run(ctx: &Ctx) -> Result<(), String> {
    ctx.set_level("model_checking");
    crate::inproc::init();
    crate::inproc::kernel_selftest(140)?;
    let stats = Stats { replies: AtomicU64::new(0), histories: AtomicU64::new(0), transitions: AtomicU64::new(0), batch_shapes: Mutex::new(BTreeSet::new()) };
    let (bss, ks, sizes): (Vec<u8>, Vec<usize>, Vec<usize>) = match ctx.tier {
        Tier::Quick => (vec![1, 2, 3, 4, 5, 7, 8, 9, 15, 16, 17, 31, 32, 33, 63, 64], vec![1, 2, 3, 4, 5, 7, 8, 9, 16, 17, 32, 33, 64, 65, 128], vec![1024, 1028, 1500]),
        Tier::Thorough => ((1..=64).collect(), (1..=65).chain([128]).collect(), (1024..=1500).step_by(4).collect()),
    };
    // determinism self-test: the same history twice gives the same abstract observation
    {
        let cfg = SrvCfg { batch_size: 3, ..Default::default() };
        let b = Burst { mix: mixes(5)[2].clone(), size: 1024, srv: false };
        let mut obs = vec![];
        for _ in 0..2 {
            let o = crate::util::on_named_thread("worker-0", || -> Result<(u64, Vec<usize>, usize), String> {
                let mut s = Srv::new(&cfg)?;
                let r = run_burst(&mut s, &b, 0, &json!({"kind":"selftest-burst","batch_size":3,"note":"the same burst on two fresh Server objects of one process"}))?;
                let mut bt = r.batches.clone();
                bt.sort();
                let nv = r.violations.len();
                // these two runs are executions like any other: what they violate is reported
                for (clause, class, d) in r.violations {
                    ctx.violation(&clause, "reply", &format!("{}/second-server-object-in-process", class), d);
                }
                Ok((r.replies, bt, nv))
            })?;
            obs.push(o);
        }
        // a difference between two violation-free runs is the harness's nondeterminism; a difference
        // that comes with violations is the subject's (state shared between Server objects)
        if (obs[0] != obs[1] || obs[0].0 != 5) && obs[0].2 == 0 && obs[1].2 == 0 {
            return Err(format!("determinism self-test failed: {:?}", obs));
        }
    }
    // histories: for each batch_size one long-running server receives a sequence of bursts
    // (all k x mixes for one (size, srv) choice); sizes/srv vary across histories.
    let mut jobs: Vec<(SrvCfg, Vec<Burst>)> = vec![];
    for &bs in &bss {
        let cfg = SrvCfg { batch_size: bs, ..Default::default() };
        let size_sel: Vec<usize> = if ctx.tier == Tier::Thorough { vec![1024, 1028, 1500] } else { sizes.clone() };
        for &size in &size_sel {
            for srvf in [false, true] {
                let mut bursts = vec![];
                for &k in &ks {
                    for mix in mixes(k) {
                        bursts.push(Burst { mix, size, srv: srvf });
                    }
                }
                // split into histories of <= 24 bursts so that replays stay short
                for ch in bursts.chunks(24) {
                    jobs.push((cfg.clone(), ch.to_vec()));
                }
            }
        }
        if ctx.tier == Tier::Thorough {
            // every aligned size, single requests and a small mixed burst
            let mut bursts = vec![];
            for &size in &sizes {
                bursts.push(Burst { mix: vec![Version::Classic, Version::Ietf13, Version::Ietf13], size, srv: size % 8 == 0 });
            }
            for ch in bursts.chunks(24) {
                jobs.push((cfg.clone(), ch.to_vec()));
            }
        }
    }
    // ordered pairs/triples of bursts on one server (history dependence across batches)
    let seq_ks: Vec<usize> = ctx.tier.pick(vec![1, 3, 64], vec![1, 2, 3, 5, 64]);
    for &bs in &[2u8, 64] {
        let cfg = SrvCfg { batch_size: bs, ..Default::default() };
        let mk = |k: usize| Burst { mix: mixes(k.max(5))[2][..k].to_vec(), size: 1024, srv: false };
        for &a in &seq_ks {
            for &b in &seq_ks {
                if ctx.tier == Tier::Thorough {
                    for &c in &seq_ks {
                        jobs.push((cfg.clone(), vec![mk(a), mk(b), mk(c)]));
                    }
                } else {
                    jobs.push((cfg.clone(), vec![mk(a), mk(b)]));
                }
            }
        }
    }
    let failed: Mutex<Option<String>> = Mutex::new(None);
    par_for(jobs.len(), 1, |j, _| {
        let (cfg, bursts) = &jobs[j];
        if let Err(e) = run_history(ctx, cfg, bursts, &stats) {
            *failed.lock().unwrap() = Some(e);
        }
    });
    if let Some(e) = failed.lock().unwrap().take() {
        return Err(e);
    }

    // identical datagrams in one batch (a client's retransmission, the same nonce chosen twice): every
    // copy is a request of its own with its own position in the batch
    {
        let pats: Vec<Vec<usize>> = vec![vec![0, 0], vec![0, 0, 1], vec![0, 1, 1, 0], vec![0, 0, 0, 0, 1], vec![0, 1, 0, 1, 2, 2], vec![0, 0, 1, 2], vec![0, 1, 2, 2, 2, 3, 0]];
        let mut cases = vec![];
        for v in [Version::Classic, Version::Ietf13] {
            for bs in [64u8, 3, 2] {
                for (pi, _) in pats.iter().enumerate() {
                    cases.push((v, bs, pi));
                }
            }
        }
        par_for(cases.len(), 4, |k, _| {
            let (v, bs, pi) = cases[k];
            let cfg = SrvCfg { batch_size: bs, ..Default::default() };
            let lt_pk = crypto::public_key(&cfg.seed);
            let r = (|| -> Result<Option<(String, String)>, String> {
                let mut srv = Srv::new(&cfg)?;
                let reqs: Vec<Vec<u8>> = pats[pi].iter().map(|&id| rtref::responder::std_request(v, &nonce(0xd0_0000 + id as u64, v.nonce_len()))).collect();
                let clients: Vec<Client> = reqs.iter().map(|_| Client::new()).collect();
                for (c, r) in clients.iter().zip(&reqs) {
                    c.send(srv.addr, r);
                }
                if let Err(p) = srv.settle() {
                    return Ok(Some(("panic".into(), p)));
                }
                for (i, (c, r)) in clients.iter().zip(&reqs).enumerate() {
                    let got = c.drain();
                    if got.len() != 1 {
                        return Ok(Some((if got.is_empty() { "no-reply".into() } else { "extra-replies".into() }, format!("request {} of the batch: {} datagrams", i, got.len()))));
                    }
                    if let Err(cl) = authentic(&got[0].0, r, v, Some(&lt_pk), SERVER_VIEW) {
                        return Ok(Some((cl.to_string(), format!("request {} of the batch: reference verifier rejects its reply: {}", i, cl))));
                    }
                }
                stats.replies.fetch_add(reqs.len() as u64, Relaxed);
                Ok(None)
            })();
            stats.histories.fetch_add(1, Relaxed);
            match r {
                Err(e) => *failed.lock().unwrap() = Some(e),
                Ok(None) => {}
                Ok(Some((clause, msg))) => ctx.violation(&clause, "reply", &format!("{}/identical-datagrams-in-one-batch", v.name()), json!({"kind":"duplicates","version":v.name(),"batch_size":bs,"nonce_ids":pats[pi],"message":msg})),
            }
        });
        if let Some(e) = failed.lock().unwrap().take() {
            return Err(e);
        }
    }
    // framed requests whose VER list offers draft-13 together with other numbers (classic 0 first,
    // unknown numbers first/after): answered as draft-13 — framed, whole-request leaf, 32-byte nodes
    {
        let d13 = VER_IETF13.to_vec();
        let lists: Vec<Vec<u8>> = vec![
            [vec![0u8; 4], d13.clone()].concat(),
            [d13.clone(), vec![0u8; 4]].concat(),
            [vec![0x01, 0, 0, 0x80], d13.clone()].concat(),
            [vec![0u8; 4], vec![0x0b, 0, 0, 0x80], d13.clone()].concat(),
            [vec![0u8; 4], vec![0u8; 4], vec![0u8; 4], d13.clone()].concat(),
        ];
        for bs in [64u8, 2] {
            let cfg = SrvCfg { batch_size: bs, ..Default::default() };
            let lt_pk = crypto::public_key(&cfg.seed);
            let r = crate::util::on_named_thread("worker-0", || -> Result<Vec<(String, String)>, String> {
                let mut out = vec![];
                let mut srv = Srv::new(&cfg)?;
                // all lists in one burst (one IETF batch) together with a classic request, then one by one
                for round in 0..2 {
                    let groups: Vec<Vec<usize>> = if round == 0 { vec![(0..lists.len()).collect()] } else { (0..lists.len()).map(|i| vec![i]).collect() };
                    for g in groups {
                        let reqs: Vec<Vec<u8>> = g.iter().map(|&i| ietf_request(&lists[i], None, &nonce(0xe0_0000 + (round * 100 + i) as u64, 32), 1024)).collect();
                        let clients: Vec<Client> = reqs.iter().map(|_| Client::new()).collect();
                        let cc = Client::new();
                        let creq = classic_request(&nonce(0xe1_0000 + round as u64, 64), 1024);
                        cc.send(srv.addr, &creq);
                        for (c, r) in clients.iter().zip(&reqs) {
                            c.send(srv.addr, r);
                        }
                        if let Err(p) = srv.settle() {
                            out.push(("panic".to_string(), p));
                            return Ok(out);
                        }
                        let _ = cc.drain();
                        for ((c, r), &i) in clients.iter().zip(&reqs).zip(&g) {
                            let got = c.drain();
                            if got.len() != 1 {
                                out.push(("no-reply".to_string(), format!("VER list {}: {} datagrams", hex(&lists[i]), got.len())));
                            } else if let Err(cl) = authentic(&got[0].0, r, Version::Ietf13, Some(&lt_pk), SERVER_VIEW) {
                                out.push((cl.to_string(), format!("VER list {}: the reply is not an authentic draft-13 response ({}); first bytes {}", hex(&lists[i]), cl, hex_trunc(&got[0].0, 16))));
                            }
                        }
                    }
                }
                Ok(out)
            })?;
            stats.histories.fetch_add(1, Relaxed);
            stats.replies.fetch_add(2 * lists.len() as u64, Relaxed);
            for (clause, msg) in r {
                ctx.violation(&clause, "reply", "ietf13/ver-list-offers-other-versions", json!({"kind":"verlists","batch_size":bs,"message":msg}));
            }
        }
    }
    // fault injection: dichotomy per reply (decided over everything emitted) + sampled rate
    let ps: Vec<u8> = ctx.tier.pick(vec![1, 25, 50], (1..=50).collect());
    let per_p = ctx.tier.pick(2048usize, 4096);
    let rate: Mutex<Vec<Value>> = Mutex::new(vec![]);
    par_for(ps.len(), 1, |j, _| {
        let p = ps[j];
        let cfg = SrvCfg { batch_size: 64, fault: p, ..Default::default() };
        let mut srv = match Srv::new(&cfg) {
            Ok(s) => s,
            Err(e) => {
                *failed.lock().unwrap() = Some(e);
                return;
            }
        };
        let mut total = 0u64;
        let mut bad = 0u64;
        let mut round = 0u64;
        let mut fates: Vec<(u64, u64)> = vec![];
        while (total as usize) < per_p {
            let b = Burst { mix: mixes(64)[(round % 4) as usize].clone(), size: 1024, srv: false };
            let hist = json!({"batch_size":64,"fault":p,"round":round});
            match run_burst(&mut srv, &b, round << 32, &hist) {
                Ok(r) => {
                    total += r.replies;
                    bad += r.failed_verify;
                    fates.extend(r.fates.iter().cloned());
                    for (clause, class, d) in r.violations {
                        ctx.violation(&clause, "reply-fault-mode", &class, d);
                    }
                }
                Err(e) => {
                    *failed.lock().unwrap() = Some(e);
                    return;
                }
            }
            if srv.dead {
                break;
            }
            round += 1;
        }
        stats.replies.fetch_add(total, Relaxed);
        let pf = p as f64 / 100.0;
        let sigma = (pf * (1.0 - pf) / total.max(1) as f64).sqrt();
        let share = bad as f64 / total.max(1) as f64;
        // a shuffled reply is still valid when the shuffle is the identity (1/720 of half the faults)
        let dev = (share - pf).abs();
        let ok = dev <= 6.0 * sigma + pf / 1000.0;
        // "every reply either verifies or fails, the failing share is p": the decision is per reply.
        // Were it taken once per signed batch, the replies of a batch would share one fate (up to the
        // odd shuffled reply whose shuffle is the identity). With an independent p-decision per reply
        // a batch of m replies is "almost uniform" (at most one reply of the rarer fate) with
        // probability q_m = p^m + (1-p)^m + m p (1-p)^(m-1) + m (1-p) p^(m-1); seeing K of N such
        // batches has probability <= C(N,K) q^K (q = the largest q_m among the batches counted).
        let big: Vec<&(u64, u64)> = fates.iter().filter(|f| f.0 + f.1 >= 16).collect();
        let q = big.iter().map(|f| { let m = (f.0 + f.1) as i32; let mf = m as f64; pf.powi(m) + (1.0 - pf).powi(m) + mf * pf * (1.0 - pf).powi(m - 1) + mf * (1.0 - pf) * pf.powi(m - 1) }).fold(0.0f64, f64::max);
        let n_big = big.len();
        let k_uniform = big.iter().filter(|f| f.0.min(f.1) <= 1).count();
        let ln_choose = |n: usize, k: usize| -> f64 { (0..k).map(|i| ((n - i) as f64).ln() - ((i + 1) as f64).ln()).sum() };
        let ln_bound = if q > 0.0 && q < 0.5 { ln_choose(n_big, k_uniform) + k_uniform as f64 * q.ln() } else { 0.0 };
        rate.lock().unwrap().push(json!({"p":p,"replies":total,"failed":bad,"share":share,"sigma":sigma,"within_6_sigma":ok,"batches_of_16_or_more":n_big,"almost_uniform_batches":k_uniform,"q_almost_uniform_if_per_reply":q,"ln_probability_bound":ln_bound}));
        if !ok {
            ctx.violation("fault-rate", "grease", "rate", json!({"kind":"rate","p":p,"replies":total,"failed":bad,"sigma":sigma}));
        }
        if n_big >= 8 && k_uniform * 2 >= n_big && ln_bound < -46.0 {
            // below 1e-20
            ctx.violation("fault-decision-not-per-reply", "grease", "correlated-within-batch", json!({"kind":"rate","p":p,"replies":total,"failed":bad,"batches_of_16_or_more":n_big,"almost_uniform_batches":k_uniform,
                "message":format!("{} of {} batches of 16 or more replies hold (almost) only one fate; with an independent {}% decision per reply that has probability below e^{:.0}", k_uniform, n_big, p, ln_bound)}));
        }
    });
    if let Some(e) = failed.lock().unwrap().take() {
        return Err(e);
    }

    // the fault-injection clause on the real server binary configured from a FILE and from the
    // ENVIRONMENT: with fault_percentage 50 written, 30..70 % of 400 replies fail verification and the
    // rest verify in full; with 0 written all verify
    {
        use crate::proc::{free_port, ServerProc, Source, Written, BASE_SEED_HEX};
        let pk = crypto::public_key(&crypto::unhex(BASE_SEED_HEX).try_into().unwrap());
        let mut procs = vec![];
        for src in [Source::File, Source::Env] {
            for p in [0u8, 50] {
                procs.push((src, p));
            }
        }
        par_for(procs.len(), 1, |k, _| {
            let (src, p) = procs[k];
            for _attempt in 0..3 {
                let port = free_port();
                let mut w = Written::base(port);
                w.set("num_workers", "1");
                w.set("fault_percentage", &p.to_string());
                let mut sp = match ServerProc::start(&w, src, &[]) {
                    Ok(s) => s,
                    Err(e) => {
                        *failed.lock().unwrap() = Some(e);
                        return;
                    }
                };
                sp.wait_started(1, std::time::Duration::from_secs(10));
                if sp.try_status().is_some() {
                    continue;
                }
                let sock = std::net::UdpSocket::bind("127.0.0.1:0").unwrap();
                sock.set_read_timeout(Some(std::time::Duration::from_secs(2))).unwrap();
                let (mut total, mut bad) = (0u64, 0u64);
                let mut buf = [0u8; 4096];
                let mut silent = 0;
                for i in 0..400u64 {
                    let v = if i % 2 == 0 { Version::Classic } else { Version::Ietf13 };
                    let req = rtref::responder::std_request(v, &nonce(0xfe_0000 + i, v.nonce_len()));
                    let _ = sock.send_to(&req, ("127.0.0.1", port));
                    if let Ok((l, _)) = sock.recv_from(&mut buf) {
                        total += 1;
                        silent = 0;
                        if authentic(&buf[..l], &req, v, Some(&pk), SERVER_VIEW).is_err() {
                            bad += 1;
                        }
                    } else {
                        silent += 1;
                        // a server that is gone or has stopped answering: the count below settles it
                        if silent >= 5 || sp.try_status().is_some() {
                            break;
                        }
                    }
                }
                sp.kill();
                stats.replies.fetch_add(total, Relaxed);
                let share = bad as f64 / total.max(1) as f64;
                let ok = total >= 390 && if p == 0 { bad == 0 } else { (0.30..=0.70).contains(&share) };
                rate.lock().unwrap().push(json!({"real_binary": true, "source": format!("{:?}", src), "p": p, "replies": total, "failed": bad, "share": share}));
                if !ok {
                    ctx.violation("fault-rate", "grease", &format!("real-binary/{:?}", src), json!({"kind":"rate-process","source":format!("{:?}", src),"p":p,"replies":total,"failed":bad,
                        "message":format!("fault_percentage {} written ({:?}): {} of {} replies of the real server failed verification", p, src, bad, total)}));
                }
                return;
            }
            *failed.lock().unwrap() = Some("real server did not start for the fault-injection run".into());
        });
        if let Some(e) = failed.lock().unwrap().take() {
            return Err(e);
        }
    }

    let replies = stats.replies.load(Relaxed);
    let shapes = stats.batch_shapes.lock().unwrap().clone();
    ctx.cov("states", json!(stats.histories.load(Relaxed) + shapes.len() as u64));
    ctx.cov("transitions", json!(stats.transitions.load(Relaxed)));
    ctx.cov("traces_validated_against_impl", json!(stats.histories.load(Relaxed)));
    ctx.cov("evaluations", json!(replies));
    ctx.cov("distinct_nontrivial", json!(replies));
    ctx.cov("replies_verified", json!(replies));
    ctx.cov("distinct_batch_shapes_observed", json!(shapes));
    ctx.cov("exhaustive", json!(true));
    ctx.cov("sampled_fault_rate", json!(*rate.lock().unwrap()));
    ctx.cov("bound", json!({"batch_sizes": bss.len(), "burst_sizes": ks, "request_sizes": sizes.len(), "burst_sequences": ctx.tier.pick("ordered pairs over {1,3,64}", "ordered triples over {1,2,3,5,64}")}));
    ctx.cov("rule", json!("event histories on real in-process Server objects: a history = sequence of bursts (k requests from k sockets, protocol mix, request size, SRV present/absent) each followed by process_events steps to quiescence; every history executes on the implementation (states = histories + distinct batch shapes observed; transitions = datagram arrivals + steps). Every reply is judged by rtref::authentic (SERVER_VIEW) under the long-term key derived from the seed: framing, decode, CERT and SREP signatures under the version's context strings, window, Merkle path with the protocol's node width and leaf definition, echoed NONC, SREP.VER/VERS; replies sharing an SREP must have INDX = {0..m-1}, PATH length ceil(log2 m) nodes, m <= batch_size, one protocol. Exactly one reply per request. The fault-rate sub-claim is statistical and reported under sampled_fault_rate."));
    ctx.sample(json!({"batch_size":3,"bursts":[{"mix":"CICIC","size":1024,"srv":false}]}));
    ctx.sample(json!({"batch_size":64,"bursts":[{"mix":"C","size":1024,"srv":false},{"mix":"CIC","size":1024,"srv":false}]}));
    ctx.assume("loopback UDP delivery is synchronous with send_to (self-tested at start-up)");
    ctx.assume("nonces are SHA-512-derived deterministic values, not all byte strings; the server does not branch on nonce content");
    Ok(())
}

pub fn replay_case(c: &Value) -> Result<Option<String>, String> {
    if c["kind"] != "history" {
        return Err("replay of this case kind: re-run the check".into());
    }
    let h = &c["history"];
    let cfg = SrvCfg { batch_size: h["batch_size"].as_u64().ok_or("batch_size")? as u8, fault: h["fault"].as_u64().unwrap_or(0) as u8, ..Default::default() };
    let bursts: Vec<Burst> = h["bursts"].as_array().ok_or("bursts")?.iter().filter_map(Burst::from_json).collect();
    crate::util::on_named_thread("worker-0", || {
        let mut srv = Srv::new(&cfg)?;
        for (bi, b) in bursts.iter().enumerate() {
            let r = run_burst(&mut srv, b, (bi as u64) << 32, h)?;
            if let Some(v) = r.violations.first() {
                return Ok(Some(format!("{} {} {}", v.0, v.1, v.2["message"])));
            }
        }
        Ok(None)
    })
}
