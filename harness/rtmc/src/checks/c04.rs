//! C04 — Merkle inclusion proofs are complete and binding for every batch shape (E-SEQ).

use crate::ev::{Ctx, Tier};
use crate::util::{catch, par_for};
use roughenough::merkle::MerkleTree;
use roughenough::version::Version as RV;
use rtref::Version;
use serde_json::{json, Value};
use std::collections::BTreeSet;
use std::sync::atomic::{AtomicU64, Ordering::Relaxed};
use std::sync::Mutex;

fn rv(v: Version) -> RV {
    match v {
        Version::Classic => RV::Google,
        Version::Ietf13 => RV::RfcDraft13,
    }
}

const FAMILIES: [&str; 5] = ["distinct", "equal", "empty", "one-empty", "long-shared-prefix"];

fn is_distinct_family(f: &str) -> bool {
    f == "distinct" || f == "long-shared-prefix"
}

fn leaves(family: &str, n: usize) -> Vec<Vec<u8>> {
    (0..n)
        .map(|i| match family {
            // pairwise distinct, lengths cycling 0..=67 (index bytes first, so distinct even at equal length)
            // pairwise distinct: leaf 0 is empty, leaf 1 is one byte, the others carry their index
            // in the first two bytes and have lengths cycling 2..=67
            "distinct" => match i {
                0 => vec![],
                1 => vec![0x11],
                _ => {
                    let mut v = vec![(i & 0xff) as u8, (i >> 8) as u8];
                    v.resize(2 + (i % 66), (i * 7) as u8);
                    v
                }
            },
            // request-sized leaves (the IETF leaf is the whole 1024..1500-byte request) that agree on
            // their first 640 bytes and differ only further in
            "long-shared-prefix" => {
                let mut v = vec![0xab; 1024 + 4 * (i % 5)];
                v[700] = (i & 0xff) as u8;
                v[701] = (i >> 8) as u8;
                let l = v.len();
                v[l - 1] = (i * 13) as u8;
                v
            }
            "equal" => vec![0x42; 32],
            "empty" => vec![],
            "one-empty" => {
                if i == n / 2 {
                    vec![]
                } else {
                    vec![(i & 0xff) as u8, (i >> 8) as u8, 1, 2]
                }
            }
            _ => unreachable!(),
        })
        .collect()
}

fn build(tree: &mut MerkleTree, ls: &[Vec<u8>]) -> Vec<u8> {
    for l in ls {
        tree.push_leaf(l);
    }
    tree.compute_root()
}

/// One completeness/binding case; returns Some((clause, message)) on violation.
fn check_shape(v: Version, family: &str, n: usize, binding: bool, path_all_bytes: bool, evals: &AtomicU64) -> Vec<(String, Value)> {
    let mut out = vec![];
    let ls = leaves(family, n);
    if is_distinct_family(family) {
        let set: BTreeSet<&Vec<u8>> = ls.iter().collect();
        assert_eq!(set.len(), n, "harness: distinct family not distinct at n={}", n);
    }
    let r = catch(|| {
        let mut t = MerkleTree::new(rv(v));
        let root = build(&mut t, &ls);
        let paths: Vec<Vec<u8>> = (0..n).map(|i| t.get_paths(i)).collect();
        (t, root, paths)
    });
    let (t, root, paths) = match r {
        Ok(x) => x,
        Err(p) => {
            out.push(("panic".to_string(), json!({"kind":"shape","version":v.name(),"family":family,"n":n,"panic":p})));
            return out;
        }
    };
    let w = v.node_width();
    for i in 0..n {
        evals.fetch_add(1, Relaxed);
        // completeness: the tree's own issue/recompute pair
        let own = catch(|| t.root_from_paths(i, &ls[i], &paths[i]));
        if own.as_ref().ok() != Some(&root) {
            out.push(("incomplete-own".to_string(), json!({"kind":"shape","version":v.name(),"family":family,"n":n,"i":i,"got":format!("{:?}", own.map(|r| crate::util::hex(&r)))})));
            continue;
        }
        // completeness under an independent recomputation with the protocol's hash profile
        let indep = rtref::merkle::root_from_path(v, &ls[i], i as u32, &paths[i]);
        if indep.as_ref() != Some(&root) {
            out.push(("incomplete-independent".to_string(), json!({"kind":"shape","version":v.name(),"family":family,"n":n,"i":i,
                "path_len":paths[i].len(),"root_len":root.len(),"node_width":w})));
        }
        if !(binding && is_distinct_family(family)) {
            continue;
        }
        // binding: other leaf
        for j in 0..n {
            if j == i {
                continue;
            }
            evals.fetch_add(1, Relaxed);
            if t.root_from_paths(i, &ls[j], &paths[i]) == root {
                out.push(("binds-other-leaf".to_string(), json!({"kind":"shape","version":v.name(),"family":family,"n":n,"i":i,"j":j})));
            }
            // other in-range index
            if catch(|| t.root_from_paths(j, &ls[i], &paths[i])).ok().as_ref() == Some(&root) {
                out.push(("binds-other-index".to_string(), json!({"kind":"shape","version":v.name(),"family":family,"n":n,"i":i,"j":j})));
            }
        }
        // binding: altered path element
        let p = &paths[i];
        let step = if path_all_bytes { 1 } else { w.max(1) };
        let mut k = 0;
        while k < p.len() {
            let mut q = p.clone();
            q[k] ^= 1;
            evals.fetch_add(1, Relaxed);
            if t.root_from_paths(i, &ls[i], &q) == root {
                out.push(("binds-altered-path".to_string(), json!({"kind":"shape","version":v.name(),"family":family,"n":n,"i":i,"byte":k})));
            }
            k += step;
        }
        // the node width used for chunking PATH by the tree itself
        let own_w = if n > 1 { p.len() / rtref::merkle::depth_for(n).max(1) } else { w };
        // appended element
        {
            let mut q = p.clone();
            q.extend(std::iter::repeat(0u8).take(own_w));
            evals.fetch_add(1, Relaxed);
            if catch(|| t.root_from_paths(i, &ls[i], &q)).ok().as_ref() == Some(&root) {
                out.push(("binds-appended-path".to_string(), json!({"kind":"shape","version":v.name(),"family":family,"n":n,"i":i})));
            }
        }
        if p.len() >= own_w && own_w > 0 {
            let q = p[..p.len() - own_w].to_vec();
            evals.fetch_add(1, Relaxed);
            if catch(|| t.root_from_paths(i, &ls[i], &q)).ok().as_ref() == Some(&root) {
                out.push(("binds-removed-last".to_string(), json!({"kind":"shape","version":v.name(),"family":family,"n":n,"i":i})));
            }
            let q = p[own_w..].to_vec();
            evals.fetch_add(1, Relaxed);
            if catch(|| t.root_from_paths(i, &ls[i], &q)).ok().as_ref() == Some(&root) {
                out.push(("binds-removed-first".to_string(), json!({"kind":"shape","version":v.name(),"family":family,"n":n,"i":i})));
            }
        }
    }
    out
}

fn fresh(v: Version, ls: &[Vec<u8>]) -> (Vec<u8>, Vec<Vec<u8>>) {
    let mut t = MerkleTree::new(rv(v));
    let root = build(&mut t, ls);
    let n = ls.len();
    (root, (0..n).map(|i| t.get_paths(i)).collect())
}

/// Reuse history: batches of the given sizes processed back to back on one tree with reset()
/// between them, compared with a fresh tree per batch.
fn check_reuse(v: Version, sizes: &[usize]) -> Option<(String, Value)> {
    let r = catch(|| {
        let mut t = MerkleTree::new(rv(v));
        for (k, &n) in sizes.iter().enumerate() {
            // distinct leaves per batch position so stale nodes from earlier batches differ
            let ls: Vec<Vec<u8>> = (0..n).map(|i| vec![k as u8, (i & 0xff) as u8, (i >> 8) as u8, 0x5a]).collect();
            t.reset();
            let root = build(&mut t, &ls);
            let paths: Vec<Vec<u8>> = (0..n).map(|i| t.get_paths(i)).collect();
            let (froot, fpaths) = fresh(v, &ls);
            if root != froot {
                return Some(("reuse-root-differs".to_string(), k));
            }
            if paths != fpaths {
                return Some(("reuse-path-differs".to_string(), k));
            }
        }
        None
    });
    match r {
        Ok(None) => None,
        Ok(Some((c, k))) => Some((c, json!({"kind":"reuse","version":v.name(),"sizes":sizes,"batch":k}))),
        Err(p) => Some(("panic".to_string(), json!({"kind":"reuse","version":v.name(),"sizes":sizes,"panic":p}))),
    }
}

/// Batches of the given sizes on ONE real Responder, each request from its own receiving socket;
/// every reply must be authentic for its own request (server view of the reference verifier).
#[cfg(feature = "no_responder_api")]
fn responder_batches(_v: Version, _sizes: &[usize]) -> Result<Option<(String, String)>, String> {
    crate::util::RESPONDER_API_SKIPPED.store(true, std::sync::atomic::Ordering::Relaxed);
    Ok(None)
}

#[cfg(not(feature = "no_responder_api"))]
fn responder_batches(v: Version, sizes: &[usize]) -> Result<Option<(String, String)>, String> {
    use roughenough::config::MemoryConfig;
    use roughenough::key::LongTermKey;
    use roughenough::responder::Responder;
    use roughenough::stats::{AggregatedStats, ServerStats};
    crate::inproc::init();
    let std_sock = std::net::UdpSocket::bind("127.0.0.1:0").map_err(|e| e.to_string())?;
    std_sock.set_nonblocking(true).map_err(|e| e.to_string())?;
    let port = std_sock.local_addr().unwrap().port();
    let mut sock = mio::net::UdpSocket::from_socket(std_sock).map_err(|e| e.to_string())?;
    let mut mc = MemoryConfig::new(port);
    mc.seed = crate::inproc::DEFAULT_SEED.to_vec();
    let lt_pk = rtref::crypto::public_key(&crate::inproc::DEFAULT_SEED);
    let mut ltk = LongTermKey::new(&mc.seed);
    let mut resp = Responder::new(rv(v), &mc, &mut ltk);
    let mut stats: Box<dyn ServerStats> = Box::new(AggregatedStats::new());
    let mut ctr = 0u64;
    for (bi, &n) in sizes.iter().enumerate() {
        let clients: Vec<crate::inproc::Client> = (0..n).map(|_| crate::inproc::Client::new()).collect();
        let mut reqs = vec![];
        for c in &clients {
            ctr += 1;
            let nonce = crate::inproc::nonce(0xc04_0000 + ctr, v.nonce_len());
            let req = rtref::responder::std_request(v, &nonce);
            let addr = c.sock.local_addr().unwrap();
            match v {
                Version::Classic => resp.add_classic_request(nonce, addr),
                Version::Ietf13 => resp.add_ietf_request(&req, nonce, addr),
            }
            reqs.push(req);
        }
        // the server's order of use: send, then reset before the next batch is collected
        resp.send_responses(&mut sock, &mut stats);
        resp.reset();
        for (i, (c, r)) in clients.iter().zip(&reqs).enumerate() {
            let mut got = c.drain();
            let deadline = std::time::Instant::now() + std::time::Duration::from_millis(100);
            while got.is_empty() && std::time::Instant::now() < deadline {
                std::thread::sleep(std::time::Duration::from_millis(1));
                got = c.drain();
            }
            if got.len() != 1 {
                return Ok(Some(("missing-or-extra-reply".into(), format!("batch {} (size {}), position {}: {} datagrams", bi, n, i, got.len()))));
            }
            if let Err(cl) = rtref::verifier::authentic(&got[0].0, r, v, Some(&lt_pk), rtref::verifier::SERVER_VIEW) {
                return Ok(Some((format!("issued-proof-{}", cl), format!("batch {} (size {}), position {}: the reply does not prove this request's inclusion ({})", bi, n, i, cl))));
            }
        }
    }
    Ok(None)
}

pub fn run(ctx: &Ctx) -> Result<(), String> {
    ctx.set_level("exploration");
    let evals = AtomicU64::new(0);
    let nontrivial = AtomicU64::new(0);
    let classes: Mutex<BTreeSet<String>> = Mutex::new(BTreeSet::new());

    // 1+2: completeness for every n 1..=255 (all families, both profiles), binding on the
    // distinct family (quick: n <= 40 plus boundary sizes; thorough: every n).
    let binding_ns: BTreeSet<usize> = match ctx.tier {
        Tier::Quick => (1..=40).chain([63, 64, 65, 127, 128, 129, 255]).collect(),
        Tier::Thorough => (1..=255).collect(),
    };
    let mut jobs = vec![];
    for v in [Version::Classic, Version::Ietf13] {
        for fam in FAMILIES {
            for n in 1..=255usize {
                jobs.push((v, fam, n));
            }
        }
    }
    // biggest first for balance
    jobs.sort_by_key(|j| std::cmp::Reverse(j.2));
    par_for(jobs.len(), 1, |k, _| {
        let (v, fam, n) = jobs[k];
        let binding = binding_ns.contains(&n) && (fam != "long-shared-prefix" || n <= 17 || ctx.tier == Tier::Thorough);
        let vs = check_shape(v, fam, n, binding, ctx.tier == Tier::Thorough, &evals);
        if n > 1 {
            nontrivial.fetch_add(n as u64, Relaxed);
        }
        classes.lock().unwrap().insert(format!("{}/{}/depth{}", v.name(), fam, rtref::merkle::depth_for(n)));
        for (clause, d) in vs {
            ctx.violation(&clause, "merkle", &format!("{}{}", v.name(), if n > 1 { "/n>=2" } else { "/n=1" }), d);
        }
    });
    let shapes = jobs.len() as u64;

    // 3: reuse — all ordered pairs, and triples over a small set
    let pair_ns: Vec<usize> = match ctx.tier {
        Tier::Quick => (1..=24).chain([63, 64, 65, 255]).collect(),
        Tier::Thorough => (1..=255).collect(),
    };
    let mut hist: Vec<(Version, Vec<usize>)> = vec![];
    for v in [Version::Classic, Version::Ietf13] {
        for &a in &pair_ns {
            for &b in &pair_ns {
                hist.push((v, vec![a, b]));
            }
        }
        let tr = [1usize, 2, 3, 4, 5, 7, 8, 9, 16, 17];
        for &a in &tr {
            for &b in &tr {
                for &c in &tr {
                    hist.push((v, vec![a, b, c]));
                }
            }
        }
    }
    let reuse_n = hist.len() as u64;
    par_for(hist.len(), 16, |k, _| {
        let (v, sizes) = &hist[k];
        evals.fetch_add(1, Relaxed);
        if let Some((clause, d)) = check_reuse(*v, sizes) {
            ctx.violation(&clause, "merkle-reuse", v.name(), d);
        }
    });

    // 4: the proofs as ISSUED — the real Responder (which owns a tree and a request list and reuses
    // both) driven through its public API: every sequence of batch sizes of length <= 3 over
    // {1,2,3,4,5} (thorough: <= 4 over 1..=6, plus pairs up to 64), both protocols; the reply to the
    // request at every position proves THAT request's inclusion in the signed root
    let mut rhist: Vec<(Version, Vec<usize>)> = vec![];
    {
        let set: Vec<usize> = ctx.tier.pick((1..=5).collect(), (1..=6).collect());
        let maxlen = ctx.tier.pick(3usize, 4);
        for v in [Version::Classic, Version::Ietf13] {
            for l in 1..=maxlen {
                for mut idx in 0..set.len().pow(l as u32) {
                    let mut sizes = vec![];
                    for _ in 0..l {
                        sizes.push(set[idx % set.len()]);
                        idx /= set.len();
                    }
                    rhist.push((v, sizes));
                }
            }
            for a in ctx.tier.pick(vec![1usize, 2, 33, 64], vec![1, 2, 3, 31, 32, 33, 63, 64]) {
                for b in ctx.tier.pick(vec![1usize, 2, 33, 64], vec![1, 2, 3, 31, 32, 33, 63, 64]) {
                    rhist.push((v, vec![a, b]));
                }
            }
        }
    }
    let failed: Mutex<Option<String>> = Mutex::new(None);
    par_for(rhist.len(), 8, |k, _| {
        let (v, sizes) = &rhist[k];
        evals.fetch_add(1, Relaxed);
        match catch(|| responder_batches(*v, sizes)) {
            Err(p) => ctx.violation("panic", "responder", v.name(), json!({"kind":"responder-batches","version":v.name(),"sizes":sizes,"panic":p})),
            Ok(Err(e)) => *failed.lock().unwrap() = Some(e),
            Ok(Ok(None)) => {}
            Ok(Ok(Some((clause, msg)))) => ctx.violation(&clause, "responder", &format!("{}/issued-proofs", v.name()), json!({"kind":"responder-batches","version":v.name(),"sizes":sizes,"message":msg})),
        }
    });
    if let Some(e) = failed.lock().unwrap().take() {
        return Err(e);
    }
    ctx.cov("responder_batch_sequences", json!(rhist.len()));
    // and through the whole server (which decides what bytes become the leaf): bursts of requests of
    // every aligned size class 1024..=1500, both protocols mixed, on one long-running in-process Server
    {
        use crate::inproc::{Srv, SrvCfg};
        let sizes: Vec<usize> = ctx.tier.pick(vec![1024, 1028, 1100, 1496, 1500], (1024..=1500).step_by(4).collect());
        let r = crate::util::on_named_thread("worker-0", || -> Result<Vec<(String, String, Value)>, String> {
            let mut out = vec![];
            let mut srv = Srv::new(&SrvCfg::default())?;
            for (si, &size) in sizes.iter().enumerate() {
                for k in [1usize, 3, 5] {
                    for mix in super::c02::mixes(k) {
                        let b = super::c02::Burst { mix, size, srv: si % 2 == 1 };
                        let hist = json!({"request_size": size, "burst": k});
                        let res = super::c02::run_burst(&mut srv, &b, ((si * 100 + k) as u64) << 32, &hist)?;
                        out.extend(res.violations);
                        if srv.dead {
                            return Ok(out);
                        }
                    }
                }
            }
            Ok(out)
        })?;
        evals.fetch_add(sizes.len() as u64 * 3, Relaxed);
        for (clause, class, d) in r {
            ctx.violation(&format!("issued-proof-{}", clause), "server", &format!("{}/request-size", class), d);
        }
        ctx.cov("server_request_sizes", json!(sizes.len()));
        // bursts larger than the batch size: one wake-up of the server builds several trees in a row
        let plans: Vec<(u8, Vec<usize>)> = vec![(1, vec![2, 3]), (2, vec![3, 4, 5]), (4, vec![5, 8, 9, 12]), (64, vec![65, 72, 128, 129])];
        let nplans: usize = plans.iter().map(|p| p.1.len()).sum();
        let r = crate::util::on_named_thread("worker-0", move || -> Result<Vec<(String, String, Value)>, String> {
            let mut out = vec![];
            for (bs, bursts) in plans {
                let mut srv = Srv::new(&SrvCfg { batch_size: bs, ..Default::default() })?;
                for (bi, k) in bursts.into_iter().enumerate() {
                    for (mi, mix) in super::c02::mixes(k).into_iter().enumerate() {
                        let b = super::c02::Burst { mix, size: 1024, srv: false };
                        let hist = json!({"batch_size": bs, "burst": k, "note": "burst larger than the batch size on a long-running server"});
                        let res = super::c02::run_burst(&mut srv, &b, ((0x4000 + bs as usize * 1000 + bi * 40 + mi) as u64) << 32, &hist)?;
                        out.extend(res.violations);
                        if srv.dead {
                            break;
                        }
                    }
                    if srv.dead {
                        break;
                    }
                }
            }
            Ok(out)
        })?;
        evals.fetch_add(nplans as u64, Relaxed);
        for (clause, class, d) in r {
            ctx.violation(&format!("issued-proof-{}", clause), "server", &format!("{}/multi-batch-burst", class), d);
        }
        ctx.cov("server_multi_batch_bursts", json!(nplans));
    }

    // the proof as the CLIENT BINARY uses it: the real client against the reference responder, the
    // reply's PATH / INDX / ROOT changed so that the proof no longer binds the client's request
    {
        use super::c01::{execute, Op, Scenario};
        use rtref::responder::Stamp;
        let ops = [
            Op::SetField("PATH", "drop-last"), Op::SetField("PATH", "drop-first"), Op::SetField("PATH", "append"), Op::SetField("PATH", "swap"), Op::SetField("PATH", "zero-element"), Op::SetField("PATH", "half-element"),
            Op::SetField("INDX", "other"), Op::SetField("INDX", "sibling"), Op::SetField("INDX", "out-of-range"), Op::SetField("ROOT", "zero"), Op::SetField("ROOT", "leaf-only"),
            Op::OtherRequest("same-batch-neighbour"), Op::OtherRequest("other-batch"), Op::Resign("root-of-other-batch"), Op::Resign("root-empty"), Op::Resign("root-half"),
        ];
        let shapes: Vec<(usize, usize)> = ctx.tier.pick(vec![(1, 0), (2, 1), (3, 2)], vec![(1, 0), (2, 0), (2, 1), (3, 2), (5, 4), (8, 3), (64, 63)]);
        let mut cases = vec![];
        for v in [Version::Classic, Version::Ietf13] {
            for &(n, i) in &shapes {
                for (k, _) in ops.iter().enumerate() {
                    cases.push((v, n, i, k));
                }
            }
        }
        let lt_pk = super::c01::s1().lt_pk();
        let client_n = AtomicU64::new(0);
        let failed: Mutex<Option<String>> = Mutex::new(None);
        par_for(cases.len(), 8, |c, _| {
            let (v, n, i, k) = cases[c];
            let sc = Scenario { v, n, i, stamp: Stamp::at(v, 1_790_000_000, 77) };
            match execute(&sc, &ops[k], Some(false), false, &[]) {
                Err(e) => *failed.lock().unwrap() = Some(e),
                Ok(out) => {
                    client_n.fetch_add(1, Relaxed);
                    if out.accepted {
                        if let Err(cl) = rtref::verifier::authentic(&out.reply, &out.run.requests[0].0, v, Some(&lt_pk), rtref::verifier::CLIENT_VIEW) {
                            ctx.violation("client-accepts-unbound-proof", cl, &format!("{}/{}", v.name(), ops[k].name()), json!({"kind":"client-proof","version":v.name(),"n":n,"i":i,"op":ops[k].name(),
                                "message":"the client accepted a reply whose PATH/INDX/ROOT do not bind its request (reference verifier rejects)","reply":crate::util::hex_trunc(&out.reply, 4096),"stdout":out.run.exit.stdout}));
                        }
                    }
                }
            }
        });
        if let Some(e) = failed.lock().unwrap().take() {
            return Err(e);
        }
        evals.fetch_add(client_n.load(Relaxed), Relaxed);
        ctx.cov("client_binary_proof_cases", json!(client_n.load(Relaxed)));
    }

    let ev = evals.load(Relaxed);
    ctx.cov("evaluations", json!(ev));
    ctx.cov("distinct_nontrivial", json!(nontrivial.load(Relaxed) + reuse_n));
    ctx.cov("rule", json!("shapes: every leaf count n in 1..=255 x both hash profiles x 5 leaf families (incl. request-sized leaves sharing a 640-byte prefix), every position i<n (completeness: own recompute and independent recompute with the protocol's node width); binding (distinct leaves): every other leaf, every other in-range index, one-bit change per path element (thorough: per path byte), one element appended, first/last element removed; reuse: all ordered pairs of batch sizes from the tier's size set and all triples over {1,2,3,4,5,7,8,9,16,17} on one reused tree vs fresh trees. issued proofs: the real Responder driven with every sequence of batch sizes of length <= 3 over {1..5} (thorough <= 4 over {1..6}) and pairs over {1,2,33,64}, both protocols, each reply authentic for its own request; through a long-running in-process Server: bursts of 1/3/5 requests of every request size class, and bursts larger than the batch size (batch_size 1, 2, 4, 64; up to 3 batches in one wake-up; protocol mixes); and the real client binary against the reference responder with PATH / INDX / ROOT changed (elements dropped, appended, swapped, zeroed; other index; root of another batch / a leaf / not a node; replies of other requests): never accepted. Non-trivial = a position in a tree with n>=2 (path non-empty) or a reuse history; evaluations counts every root recomputation/comparison."));
    ctx.cov("shapes", json!(shapes));
    ctx.cov("reuse_histories", json!(reuse_n));
    ctx.cov("binding_sizes", json!(binding_ns.len()));
    ctx.cov("outcome_classes", json!(classes.lock().unwrap().len()));
    ctx.cov("exhaustive", json!(true));
    ctx.cov("bound", json!({"n_max":255,"reuse_pair_sizes":pair_ns.len(),"reuse_triple_set":10}));
    ctx.sample(json!({"kind":"shape","version":"ietf13","family":"distinct","n":3,"positions":[0,1,2]}));
    ctx.sample(json!({"kind":"reuse","version":"classic","sizes":[5,2]}));
    ctx.assume("SHA-512 collisions do not occur among the enumerated inputs");
    Ok(())
}

pub fn replay_case(c: &Value) -> Result<Option<String>, String> {
    let v = match c["version"].as_str() {
        Some("classic") => Version::Classic,
        Some("ietf13") => Version::Ietf13,
        _ => return Err("version".into()),
    };
    match c["kind"].as_str() {
        Some("responder-batches") => {
            let sizes: Vec<usize> = c["sizes"].as_array().ok_or("sizes")?.iter().map(|x| x.as_u64().unwrap_or(1) as usize).collect();
            crate::util::on_named_thread("worker-0", move || responder_batches(v, &sizes).map(|r| r.map(|(a, b)| format!("{} {}", a, b))))
        }
        Some("shape") => {
            let fam = c["family"].as_str().ok_or("family")?;
            let n = c["n"].as_u64().ok_or("n")? as usize;
            let e = AtomicU64::new(0);
            let fam: &str = FAMILIES.iter().find(|f| **f == fam).ok_or("family")?;
            let vs = crate::util::on_named_thread("worker-0", || check_shape(v, fam, n, true, true, &e));
            Ok(vs.first().map(|(cl, d)| format!("{} {}", cl, d)))
        }
        Some("reuse") => {
            let sizes: Vec<usize> = c["sizes"].as_array().ok_or("sizes")?.iter().map(|x| x.as_u64().unwrap() as usize).collect();
            Ok(check_reuse(v, &sizes).map(|(cl, d)| format!("{} {}", cl, d)))
        }
        _ => Err("kind".into()),
    }
}
