//! C04 — Merkle inclusion proofs are complete and binding for every batch shape (E-SEQ).

use crate::ev::{Ctx, Tier};
use crate::util::{catch, par_for};
use roughenough::merkle::MerkleTree;
use roughenough::version::Version as RV;
use rtref::Version;
use serde_json::{json, Value};
use std::collections::BTreeSet;
use std::sync::atomic::{AtomicU64, Ordering::Relaxed};
use std::sync::Mutex;

fn rv(v: Version) -> RV {
    match v {
        Version::Classic => RV::Google,
        Version::Ietf13 => RV::RfcDraft13,
    }
}

const FAMILIES: [&str; 5] = ["distinct", "equal", "empty", "one-empty", "long-shared-prefix"];

fn is_distinct_family(f: &str) -> bool {
    f == "distinct" || f == "long-shared-prefix"
}

fn leaves(family: &str, n: usize) -> Vec<Vec<u8>> {
    (0..n)
        .map(|i| match family {
            // pairwise distinct, lengths cycling 0..=67 (index bytes first, so distinct even at equal length)
            // pairwise distinct: leaf 0 is empty, leaf 1 is one byte, the others carry their index
            // in the first two bytes and have lengths cycling 2..=67
            "distinct" => match i {
                0 => vec![],
                1 => vec![0x11],
                _ => {
                    let mut v = vec![(i & 0xff) as u8, (i >> 8) as u8];
                    v.resize(2 + (i % 66), (i * 7) as u8);
                    v
                }
            },
            // request-sized leaves (the IETF leaf is the whole 1024..1500-byte request) that agree on
            // their first 640 bytes and differ only further in
            "long-shared-prefix" => {
                let mut v = vec![0xab; 1024 + 4 * (i % 5)];
                v[700] = (i & 0xff) as u8;
                v[701] = (i >> 8) as u8;
                let l = v.len();
                v[l - 1] = (i * 13) as u8;
                v
            }
            "equal" => vec![0x42; 32],
            "empty" => vec![],
            "one-empty" => {
                if i == n / 2 {
                    vec![]
                } else {
                    vec![(i & 0xff) as u8, (i >> 8) as u8, 1, 2]
                }
            }
            _ => unreachable!(),
        })
        .collect()
}

fn build(tree: &mut MerkleTree, ls: &[Vec<u8>]) -> Vec<u8> {
    for l in ls {
        tree.push_leaf(l);
    }
    tree.compute_root()
}

/// One completeness/binding case; returns Some((clause, message)) on violation.
fn check_shape(v: Version, family: &str, n: usize, binding: bool, path_all_bytes: bool, evals: &AtomicU64) -> Vec<(String, Value)> {
    let mut out = vec![];
    let ls = leaves(family, n);
    if is_distinct_family(family) {
        let set: BTreeSet<&Vec<u8>> = ls.iter().collect();
        assert_eq!(set.len(), n, "harness: distinct family not distinct at n={}", n);
    }
    let r = catch(|| {
        let mut t = MerkleTree::new(rv(v));
        let root = build(&mut t, &ls);
        let paths: Vec<Vec<u8>> = (0..n).map(|i| t.get_paths(i)).collect();
        (t, root, paths)
    });
    let (t, root, paths) = match r {
        Ok(x) => x,
        Err(p) => {
            out.push(("panic".to_string(), json!({"kind":"shape","version":v.name(),"family":family,"n":n,"panic":p})));
            return out;
        }
    };
    let w = v.node_width();
    for i in 0..n {
        evals.fetch_add(1, Relaxed);
        // completeness: the tree's own issue/recompute pair
        let own = catch(|| t.root_from_paths(i, &ls[i], &paths[i]));
        if own.as_ref().ok() != Some(&root) {
            out.push(("incomplete-own".to_string(), json!({"kind":"shape","version":v.name(),"family":family,"n":n,"i":i,"got":format!("{:?}", own.map(|r| crate::util::hex(&r)))})));
            continue;
        }
        // completeness under an independent recomputation with the protocol's hash profile
        let indep = rtref::merkle::root_from_path(v, &ls[i], i as u32, &paths[i]);
        if indep.as_ref() != Some(&root) {
            out.push(("incomplete-independent".to_string(), json!({"kind":"shape","version":v.name(),"family":family,"n":n,"i":i,
                "path_len":paths[i].len(),"root_len":root.len(),"node_width":w})));
        }
        if !(binding && is_distinct_family(family)) {
            continue;
        }
        // binding: other leaf
        for j in 0..n {
            if j == i {
                continue;
            }
            evals.fetch_add(1, Relaxed);
            if t.root_from_paths(i, &ls[j], &paths[i]) == root {
                out.push(("binds-other-leaf".to_string(), json!({"kind":"shape","version":v.name(),"family":family,"n":n,"i":i,"j":j})));
            }
            // other in-range index
            if catch(|| t.root_from_paths(j, &ls[i], &paths[i])).ok().as_ref() == Some(&root) {
                out.push(("binds-other-index".to_string(), json!({"kind":"shape","version":v.name(),"family":family,"n":n,"i":i,"j":j})));
            }
        }
        // binding: altered path element
        let p = &paths[i];
        let step = if path_all_bytes { 1 } else { w.max(1) };
        let mut k = 0;
        while k < p.len() {
            let mut q = p.clone();
            q[k] ^= 1;
            evals.fetch_add(1, Relaxed);
            if t.root_from_paths(i, &ls[i], &q) == root {
                out.push(("binds-altered-path".to_string(), json!({"kind":"shape","version":v.name(),"family":family,"n":n,"i":i,"byte":k})));
            }
            k += step;
        }
        // the node width used for chunking PATH by the tree itself
        let own_w = if n > 1 { p.len() / rtref::merkle::depth_for(n).max(1) } else { w };
        // appended element
        {
            let mut q = p.clone();
            q.extend(std::iter::repeat(0u8).take(own_w));
            evals.fetch_add(1, Relaxed);
            if catch(|| t.root_from_paths(i, &ls[i], &q)).ok().as_ref() == Some(&root) {
                out.push(("binds-appended-path".to_string(), json!({"kind":"shape","version":v.name(),"family":family,"n":n,"i":i})));
            }
        }
        if p.len() >= own_w && own_w > 0 {
            let q = p[..p.len() - own_w].to_vec();
            evals.fetch_add(1, Relaxed);
            if catch(|| t.root_from_paths(i, &ls[i], &q)).ok().as_ref() == Some(&root) {
                out.push(("binds-removed-last".to_string(), json!({"kind":"shape","version":v.name(),"family":family,"n":n,"i":i})));
            }
            let q = p[own_w..].to_vec();
            evals.fetch_add(1, Relaxed);
            if catch(|| t.root_from_paths(i, &ls[i], &q)).ok().as_ref() == Some(&root) {
                out.push(("binds-removed-first".to_string(), json!({"kind":"shape","version":v.name(),"family":family,"n":n,"i":i})));
            }
        }
    }
    out
}

fn fresh(v: Version, ls: &[Vec<u8>]) -> (Vec<u8>, Vec<Vec<u8>>) {
    let mut t = MerkleTree::new(rv(v));
    let root = build(&mut t, ls);
    let n = ls.len();
    (root, (0..n).map(|i| t.get_paths(i)).collect())
}

/// Reuse history: batches of the given sizes processed back to back on one tree with reset()
/// between them, compared with a fresh tree per batch.
fn check_reuse(v: Version, sizes: &[usize]) -> Option<(String, Value)> {
    let r = catch(|| {
        let mut t = MerkleTree::new(rv(v));
        for (k, &n) in sizes.iter().enumerate() {
            // distinct leaves per batch position so stale nodes from earlier batches differ
            let ls: Vec<Vec<u8>> = (0..n).map(|i| vec![k as u8, (i & 0xff) as u8, (i >> 8) as u8, 0x5a]).collect();
            t.reset();
            let root = build(&mut t, &ls);
            let paths: Vec<Vec<u8>> = (0..n).map(|i| t.get_paths(i)).collect();
            let (froot, fpaths) = fresh(v, &ls);
            if root != froot {
                return Some(("reuse-root-differs".to_string(), k));
            }
            if paths != fpaths {
                return Some(("reuse-path-differs".to_string(), k));
            }
        }
        None
    });
    match r {
        Ok(None) => None,
        Ok(Some((c, k))) => Some((c, json!({"kind":"reuse","version":v.name(),"sizes":sizes,"batch":k}))),
        Err(p) => Some(("panic".to_string(), json!({"kind":"reuse","version":v.name(),"sizes":sizes,"panic":p}))),
    }
}

pub fn run(ctx: &Ctx) -> Result<(), String> {
    ctx.set_level("exploration");
    let evals = AtomicU64::new(0);
    let nontrivial = AtomicU64::new(0);
    let classes: Mutex<BTreeSet<String>> = Mutex::new(BTreeSet::new());

    // 1+2: completeness for every n 1..=255 (all families, both profiles), binding on the
    // distinct family (quick: n <= 40 plus boundary sizes; thorough: every n).
    let binding_ns: BTreeSet<usize> = match ctx.tier {
        Tier::Quick => (1..=40).chain([63, 64, 65, 127, 128, 129, 255]).collect(),
        Tier::Thorough => (1..=255).collect(),
    };
    let mut jobs = vec![];
    for v in [Version::Classic, Version::Ietf13] {
        for fam in FAMILIES {
            for n in 1..=255usize {
                jobs.push((v, fam, n));
            }
        }
    }
    // biggest first for balance
    jobs.sort_by_key(|j| std::cmp::Reverse(j.2));
    par_for(jobs.len(), 1, |k, _| {
        let (v, fam, n) = jobs[k];
        let binding = binding_ns.contains(&n) && (fam != "long-shared-prefix" || n <= 17 || ctx.tier == Tier::Thorough);
        let vs = check_shape(v, fam, n, binding, ctx.tier == Tier::Thorough, &evals);
        if n > 1 {
            nontrivial.fetch_add(n as u64, Relaxed);
        }
        classes.lock().unwrap().insert(format!("{}/{}/depth{}", v.name(), fam, rtref::merkle::depth_for(n)));
        for (clause, d) in vs {
            ctx.violation(&clause, "merkle", &format!("{}{}", v.name(), if n > 1 { "/n>=2" } else { "/n=1" }), d);
        }
    });
    let shapes = jobs.len() as u64;

    // 3: reuse — all ordered pairs, and triples over a small set
    let pair_ns: Vec<usize> = match ctx.tier {
        Tier::Quick => (1..=24).chain([63, 64, 65, 255]).collect(),
        Tier::Thorough => (1..=255).collect(),
    };
    let mut hist: Vec<(Version, Vec<usize>)> = vec![];
    for v in [Version::Classic, Version::Ietf13] {
        for &a in &pair_ns {
            for &b in &pair_ns {
                hist.push((v, vec![a, b]));
            }
        }
        let tr = [1usize, 2, 3, 4, 5, 7, 8, 9, 16, 17];
        for &a in &tr {
            for &b in &tr {
                for &c in &tr {
                    hist.push((v, vec![a, b, c]));
                }
            }
        }
    }
    let reuse_n = hist.len() as u64;
    par_for(hist.len(), 16, |k, _| {
        let (v, sizes) = &hist[k];
        evals.fetch_add(1, Relaxed);
        if let Some((clause, d)) = check_reuse(*v, sizes) {
            ctx.violation(&clause, "merkle-reuse", v.name(), d);
        }
    });

    let ev = evals.load(Relaxed);
    ctx.cov("evaluations", json!(ev));
    ctx.cov("distinct_nontrivial", json!(nontrivial.load(Relaxed) + reuse_n));
    ctx.cov("rule", json!("shapes: every leaf count n in 1..=255 x both hash profiles x 5 leaf families (incl. request-sized leaves sharing a 640-byte prefix), every position i<n (completeness: own recompute and independent recompute with the protocol's node width); binding (distinct leaves): every other leaf, every other in-range index, one-bit change per path element (thorough: per path byte), one element appended, first/last element removed; reuse: all ordered pairs of batch sizes from the tier's size set and all triples over {1,2,3,4,5,7,8,9,16,17} on one reused tree vs fresh trees. Non-trivial = a position in a tree with n>=2 (path non-empty) or a reuse history; evaluations counts every root recomputation/comparison."));
    ctx.cov("shapes", json!(shapes));
    ctx.cov("reuse_histories", json!(reuse_n));
    ctx.cov("binding_sizes", json!(binding_ns.len()));
    ctx.cov("outcome_classes", json!(classes.lock().unwrap().len()));
    ctx.cov("exhaustive", json!(true));
    ctx.cov("bound", json!({"n_max":255,"reuse_pair_sizes":pair_ns.len(),"reuse_triple_set":10}));
    ctx.sample(json!({"kind":"shape","version":"ietf13","family":"distinct","n":3,"positions":[0,1,2]}));
    ctx.sample(json!({"kind":"reuse","version":"classic","sizes":[5,2]}));
    ctx.assume("SHA-512 collisions do not occur among the enumerated inputs");
    Ok(())
}

pub fn replay_case(c: &Value) -> Result<Option<String>, String> {
    let v = match c["version"].as_str() {
        Some("classic") => Version::Classic,
        Some("ietf13") => Version::Ietf13,
        _ => return Err("version".into()),
    };
    match c["kind"].as_str() {
        Some("shape") => {
            let fam = c["family"].as_str().ok_or("family")?;
            let n = c["n"].as_u64().ok_or("n")? as usize;
            let e = AtomicU64::new(0);
            let fam: &str = FAMILIES.iter().find(|f| **f == fam).ok_or("family")?;
            let vs = crate::util::on_named_thread("worker-0", || check_shape(v, fam, n, true, true, &e));
            Ok(vs.first().map(|(cl, d)| format!("{} {}", cl, d)))
        }
        Some("reuse") => {
            let sizes: Vec<usize> = c["sizes"].as_array().ok_or("sizes")?.iter().map(|x| x.as_u64().unwrap() as usize).collect();
            Ok(check_reuse(v, &sizes).map(|(cl, d)| format!("{} {}", cl, d)))
        }
        _ => Err("kind".into()),
    }
}
