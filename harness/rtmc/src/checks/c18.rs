//! C18 — under concurrent multi-worker load every request is answered once, validly.
//!   part 1: in-process, W real Server objects, the harness plays the kernel (E-STATE)
//!   part 2: real process, real threads, real SO_REUSEPORT under the controlled scheduler (E-SCHED)
//!   part 3: free-running conformance run (sampled, not deciding)

use crate::ev::{Ctx, Tier};
use crate::inproc::{nonce, Client, Srv, SrvCfg};
use crate::proc::{free_port, ServerProc, Source, Written, BASE_SEED_HEX};
use crate::sched::{explore, EnvAct, Expect, Scenario, SchedSummary, Slot};
use crate::util::par_for;
use rtref::verifier::{authentic, SERVER_VIEW};
use rtref::{crypto, Version};
use serde_json::{json, Value};
use std::collections::{BTreeMap, BTreeSet};
use std::sync::atomic::{AtomicU64, Ordering::Relaxed};
use std::sync::Mutex;
use std::time::Duration;

// ---- part 1 -----------------------------------------------------------------------------------

#[derive(Clone, Copy, Debug, PartialEq, Eq)]
enum MEv {
    Deliver(usize), // next undelivered request goes to worker w
    Step(usize),
    /// a datagram that is not a request (zero-length, or a short runt) reaches worker w's socket
    Junk(usize),
}

/// W servers from the same seed, K requests; event sequence decides delivery targets and steps.
fn multi_history(w: usize, reqs: &[Version], evs: &[MEv], bs: u8) -> Result<Option<(String, String)>, String> {
    let cfg = SrvCfg { batch_size: bs, ..Default::default() };
    let lt_pk = crypto::public_key(&cfg.seed);
    let mut srvs: Vec<Srv> = vec![];
    for _ in 0..w {
        srvs.push(Srv::new(&cfg)?);
    }
    // all workers announce the same long-term key
    for s in &srvs {
        if s.server.get_public_key() != crate::util::hex(&lt_pk) {
            return Ok(Some(("announced-key-differs".into(), "worker announces another long-term key".into())));
        }
    }
    let clients: Vec<Client> = reqs.iter().map(|_| Client::new()).collect();
    let mut delivered: Vec<(usize, Vec<u8>, Version)> = vec![]; // worker, request, version
    let mut next = 0;
    let mut junk_n = 0usize;
    for e in evs {
        match *e {
            MEv::Deliver(t) => {
                if next < reqs.len() {
                    let v = reqs[next];
                    // IETF requests rotate through VER lists that offer draft-13 first, after an
                    // unknown number, and after the classic number and an unknown one
                    let r = if v == Version::Ietf13 {
                        let d13 = rtref::proto::VER_IETF13.to_vec();
                        let list = match next % 3 {
                            0 => d13,
                            1 => [vec![0x0b, 0, 0, 0x80], d13].concat(),
                            _ => [vec![0u8; 4], vec![0x0b, 0, 0, 0x80], d13].concat(),
                        };
                        rtref::responder::ietf_request(&list, None, &nonce(0x1800 + next as u64, 32), REQUEST_SIZES[next % 4])
                    } else {
                        rtref::responder::classic_request(&nonce(0x1800 + next as u64, 64), REQUEST_SIZES[(next + 1) % 4])
                    };
                    clients[next].send(srvs[t].addr, &r);
                    delivered.push((t, r, v));
                    next += 1;
                }
            }
            MEv::Step(t) => {
                if let Err(p) = srvs[t].step() {
                    return Ok(Some(("panic".into(), format!("worker {}: {}", t, p))));
                }
            }
            MEv::Junk(t) => {
                junk_n += 1;
                let j = Client::new();
                j.send(srvs[t].addr, if junk_n % 2 == 1 { &[][..] } else { &b"probe"[..] });
            }
        }
    }
    for s in srvs.iter_mut() {
        if let Err(p) = s.settle() {
            return Ok(Some(("panic".into(), p)));
        }
    }
    let mut key_of_worker: BTreeMap<(usize, Version), Vec<u8>> = BTreeMap::new();
    for (k, (t, r, v)) in delivered.iter().enumerate() {
        let got = clients[k].drain();
        if got.len() != 1 {
            return Ok(Some((if got.is_empty() { "missing-reply".into() } else { "extra-reply".into() }, format!("request {} delivered to worker {}: {} replies", k, t, got.len()))));
        }
        if got[0].1 != srvs[*t].addr {
            return Ok(Some(("reply-from-other-worker".into(), format!("request {} was delivered to worker {} but answered from {}", k, t, got[0].1))));
        }
        match authentic(&got[0].0, r, *v, Some(&lt_pk), SERVER_VIEW) {
            Err(c) => return Ok(Some(("reply-not-authentic".into(), format!("request {}: {}", k, c)))),
            Ok(info) => {
                let e = key_of_worker.entry((*t, *v)).or_insert_with(|| info.online_pk.clone());
                if *e != info.online_pk {
                    return Ok(Some(("delegated-key-changes".into(), format!("worker {} answered under two delegated keys", t))));
                }
            }
        }
    }
    let distinct: BTreeSet<&Vec<u8>> = key_of_worker.values().collect();
    if distinct.len() != key_of_worker.len() {
        return Ok(Some(("delegated-key-shared".into(), "two responders share one delegated key".into())));
    }
    Ok(None)
}

/// W servers with per-client statistics sharing ONE statistics queue of capacity 2W (as the workers
/// of one process do). Rounds of (request to worker w, step w, statistics hand-off of w); the
/// reporter drains the queue after round `drain_after` only (a reporter that is late, or slower than
/// a short status interval). No hand-off may fail or block, every request is answered.
/// datagram sizes of the requests of one history, in rotation: the usual size, the largest legal
/// one, and two in between
const REQUEST_SIZES: [usize; 4] = [1024, 1500, 1200, 1496];

pub fn shared_queue_history(w: usize, workers_per_round: &[usize], drain_after: Option<usize>) -> Result<Option<(String, String)>, String> {
    use roughenough::stats::StatsQueue;
    let cfg = SrvCfg { batch_size: 2, client_stats: true, ..Default::default() };
    let lt_pk = crypto::public_key(&cfg.seed);
    let queue = std::sync::Arc::new(StatsQueue::new(w * 2));
    let mut srvs: Vec<Srv> = vec![];
    for _ in 0..w {
        srvs.push(Srv::new_with_queue(&cfg, queue.clone())?);
    }
    for (round, &t) in workers_per_round.iter().enumerate() {
        let v = if round % 2 == 0 { Version::Classic } else { Version::Ietf13 };
        let c = Client::new();
        let r = rtref::responder::std_request(v, &nonce(0x18_5000 + round as u64, v.nonce_len()));
        c.send(srvs[t].addr, &r);
        if let Err(p) = srvs[t].settle() {
            return Ok(Some(("panic".into(), format!("worker {} in round {}: {}", t, round, p))));
        }
        let got = c.drain();
        if got.len() != 1 || authentic(&got[0].0, &r, v, Some(&lt_pk), SERVER_VIEW).is_err() {
            return Ok(Some(("missing-reply".into(), format!("round {}: request to worker {} got {} datagrams / not authentic", round, t, got.len()))));
        }
        if let Err(p) = srvs[t].handoff_stats() {
            return Ok(Some(("panic".into(), format!("statistics hand-off of worker {} in round {} (queue holds {} of {}): {}", t, round, queue.len(), w * 2, p))));
        }
        if queue.len() > w * 2 {
            return Ok(Some(("queue-exceeds-capacity".into(), format!("{} entries", queue.len()))));
        }
        if drain_after == Some(round) {
            while queue.pop().is_some() {}
        }
    }
    // all workers still serve
    for (t, s) in srvs.iter_mut().enumerate() {
        let c = Client::new();
        let r = rtref::responder::std_request(Version::Classic, &nonce(0x18_6000 + t as u64, 64));
        c.send(s.addr, &r);
        if let Err(p) = s.settle() {
            return Ok(Some(("panic".into(), format!("worker {} after the rounds: {}", t, p))));
        }
        if c.drain().len() != 1 {
            return Ok(Some(("missing-reply".into(), format!("worker {} does not answer after the rounds", t))));
        }
    }
    Ok(None)
}

// ---- part 2 helpers -----------------------------------------------------------------------------

/// environment program realising a distribution (request k -> worker dist[k]) on a slot
fn env_for(slot: &Slot, n: usize, dist: &[usize], versions: &[Version]) -> Option<Vec<EnvAct>> {
    let mut used: BTreeSet<usize> = BTreeSet::new();
    let mut env = vec![];
    for (k, &w) in dist.iter().enumerate() {
        let cands = slot.map.get(&(n, w))?;
        let c = *cands.iter().find(|c| !used.contains(c))?;
        used.insert(c);
        env.push(EnvAct::Send(c, versions[k % versions.len()]));
    }
    Some(env)
}

pub fn run(ctx: &Ctx) -> Result<(), String> {
    ctx.set_level("model_checking");
    crate::inproc::init();
    let failed: Mutex<Option<String>> = Mutex::new(None);
    // part 1: all event sequences to depth D over deliver(w)/step(w)
    let hist_n = AtomicU64::new(0);
    let transitions = AtomicU64::new(0);
    {
        let configs: Vec<(usize, usize, usize)> = ctx.tier.pick(vec![(2, 3, 6)], vec![(2, 4, 8), (3, 3, 6)]); // (W, K, depth)
        for (w, k, depth) in configs {
            let al: Vec<MEv> = (0..w).map(MEv::Deliver).chain((0..w).map(MEv::Step)).collect();
            let reqs: Vec<Version> = (0..k).map(|i| if i % 2 == 0 { Version::Classic } else { Version::Ietf13 }).collect();
            for bs in [1u8, 2] {
                let n = al.len().pow(depth as u32);
                par_for(n, 16, |mut idx, _| {
                    let mut evs = Vec::with_capacity(depth);
                    for _ in 0..depth {
                        evs.push(al[idx % al.len()]);
                        idx /= al.len();
                    }
                    // canonical form: sequences that never deliver are trivial; skip those with no deliver
                    if !evs.iter().any(|e| matches!(e, MEv::Deliver(_))) {
                        return;
                    }
                    hist_n.fetch_add(1, Relaxed);
                    transitions.fetch_add(depth as u64 + w as u64 * 2, Relaxed);
                    match multi_history(w, &reqs, &evs, bs) {
                        Err(e) => *failed.lock().unwrap() = Some(e),
                        Ok(None) => {}
                        Ok(Some((clause, msg))) => ctx.violation(&clause, "multi-worker", "in-process", json!({"kind":"multi","workers":w,"requests":k,"batch_size":bs,"events":evs.iter().map(|e| format!("{:?}", e)).collect::<Vec<_>>(),"message":msg})),
                    }
                });
                if let Some(e) = failed.lock().unwrap().take() {
                    return Err(e);
                }
            }
        }
    }

    // part 1a': the same exploration one level shallower with datagrams that are not requests (a
    // zero-length datagram, a 5-byte probe) arriving at either worker in between
    {
        let (w, k, depth) = (2usize, 2usize, ctx.tier.pick(5usize, 6));
        let al: Vec<MEv> = (0..w).map(MEv::Deliver).chain((0..w).map(MEv::Step)).chain((0..w).map(MEv::Junk)).collect();
        let reqs: Vec<Version> = (0..k).map(|i| if i % 2 == 0 { Version::Classic } else { Version::Ietf13 }).collect();
        for bs in [1u8, 2] {
            let n = al.len().pow(depth as u32);
            par_for(n, 32, |mut idx, _| {
                let mut evs = vec![];
                for _ in 0..depth {
                    evs.push(al[idx % al.len()]);
                    idx /= al.len();
                }
                if !evs.iter().any(|e| matches!(e, MEv::Junk(_))) {
                    return; // covered above
                }
                hist_n.fetch_add(1, Relaxed);
                transitions.fetch_add(depth as u64 + w as u64 * 2, Relaxed);
                match multi_history(w, &reqs, &evs, bs) {
                    Err(e) => *failed.lock().unwrap() = Some(e),
                    Ok(None) => {}
                    Ok(Some((clause, msg))) => ctx.violation(&clause, "multi-worker", "in-process/with-non-request-datagrams", json!({"kind":"multi","workers":w,"requests":k,"batch_size":bs,"events":evs.iter().map(|e| format!("{:?}", e)).collect::<Vec<_>>(),"message":msg})),
                }
            });
            if let Some(e) = failed.lock().unwrap().take() {
                return Err(e);
            }
        }
    }

    // part 1b: bursts that exceed what one event-loop call handles, spread over W workers, all queued
    // before the first step (a worker descheduled under a burst), mixed protocols
    {
        let plans: Vec<(usize, u8, usize)> = ctx.tier.pick(vec![(2, 1, 40), (2, 2, 70), (3, 1, 60), (1, 64, 64), (2, 64, 150)], vec![(2, 1, 40), (2, 2, 70), (3, 1, 60), (2, 3, 120), (4, 1, 90), (1, 64, 64), (2, 64, 150), (2, 64, 300), (3, 33, 200)]); // (W, batch_size, K)
        par_for(plans.len(), 1, |j, _| {
            let (w, bs, k) = plans[j];
            let reqs: Vec<Version> = (0..k).map(|i| if i % 3 == 0 { Version::Ietf13 } else { Version::Classic }).collect();
            let evs: Vec<MEv> = (0..k).map(|i| MEv::Deliver(i % w)).collect();
            hist_n.fetch_add(1, Relaxed);
            transitions.fetch_add(k as u64 + 4 * w as u64, Relaxed);
            match multi_history(w, &reqs, &evs, bs) {
                Err(e) => *failed.lock().unwrap() = Some(e),
                Ok(None) => {}
                Ok(Some((clause, msg))) => ctx.violation(&clause, "multi-worker", "in-process-burst", json!({"kind":"multi","workers":w,"requests":k,"batch_size":bs,"events":evs.iter().map(|e| format!("{:?}", e)).collect::<Vec<_>>(),"message":msg})),
            }
        });
        if let Some(e) = failed.lock().unwrap().take() {
            return Err(e);
        }
    }

    // part 1c: per-client statistics, W workers sharing one statistics queue of capacity 2W: every
    // assignment of R rounds (request, step, hand-off) to the workers x every position of the single
    // reporter pass (or none). With R > 2W the queue overflows unless drained in time.
    {
        let plans: Vec<(usize, usize)> = ctx.tier.pick(vec![(2, 6)], vec![(2, 8), (3, 7)]); // (W, R)
        for (w, r) in plans {
            let n = w.pow(r as u32) * (r + 1);
            par_for(n, 8, |code, _| {
                let drain = code % (r + 1);
                let mut a = code / (r + 1);
                let ws: Vec<usize> = (0..r).map(|_| { let x = a % w; a /= w; x }).collect();
                let drain_after = if drain == r { None } else { Some(drain) };
                hist_n.fetch_add(1, Relaxed);
                transitions.fetch_add(3 * r as u64 + w as u64, Relaxed);
                match shared_queue_history(w, &ws, drain_after) {
                    Err(e) => *failed.lock().unwrap() = Some(e),
                    Ok(None) => {}
                    Ok(Some((clause, msg))) => ctx.violation(&clause, "multi-worker", "in-process-shared-stats-queue", json!({"kind":"shared-queue","workers":w,"worker_per_round":ws,"reporter_drains_after_round":drain_after,"message":msg})),
                }
            });
            if let Some(e) = failed.lock().unwrap().take() {
                return Err(e);
            }
        }
    }

    // part 2: controlled schedules of the real process
    let mut sched = SchedSummary::default();
    {
        let versions = [Version::Classic, Version::Ietf13, Version::Classic];
        let plans: Vec<(usize, usize, usize)> = ctx.tier.pick(vec![(2, 2, 2)], vec![(2, 2, 3), (2, 3, 2), (3, 2, 2), (3, 3, 1)]); // (N, K, bound)
        for (n, k, bound) in plans {
            for code in 0..n.pow(k as u32) {
                let dist: Vec<usize> = (0..k).map(|i| (code / n.pow(i as u32)) % n).collect();
                // worker symmetry: keep distributions whose first request goes to worker 0
                if dist[0] != 0 {
                    continue;
                }
                let scn = Scenario {
                    name: format!("load-n{}-k{}-dist{:?}", n, k, dist),
                    workers: n,
                    health: false,
                    stats: false,
                    batch_size: 2,
                    env: vec![],
                    idle_iteration: false,
                    horizon: 400,
                    expect: Expect::Serving,
                    probe_at_end: false,
                };
                let d2 = dist.clone();
                let s = explore(ctx, "controlled-schedule", &scn, &move |slot: &Slot| env_for(slot, n, &d2, &versions), bound, ctx.tier.pick(1500, 30000), Duration::from_secs(ctx.tier.pick(25, 90)))?;
                sched.merge(s);
            }
        }
    }

    // the same load with the server's other documented modes on (health-check port, per-client
    // statistics — as in example.cfg): every worker binds the health port and hands off statistics
    {
        let versions = [Version::Classic, Version::Ietf13, Version::Classic];
        let plans: Vec<(usize, bool, bool, Vec<usize>, usize)> = ctx.tier.pick(vec![(2, true, true, vec![0, 1], 1)], vec![(2, true, false, vec![0, 1], 2), (2, true, true, vec![0, 1], 2), (3, true, true, vec![0, 1, 2], 1), (4, true, false, vec![0, 1, 2, 3], 1)]);
        for (n, health, stats, dist, bound) in plans {
            let scn = Scenario {
                name: format!("load-n{}-health{}-stats{}-dist{:?}", n, health as u8, stats as u8, dist),
                workers: n,
                health,
                stats,
                batch_size: 2,
                env: vec![],
                idle_iteration: false,
                horizon: 400,
                expect: Expect::Serving,
                probe_at_end: false,
            };
            let d2 = dist.clone();
            let s = explore(ctx, "controlled-schedule/health-and-stats-modes", &scn, &move |slot: &Slot| env_for(slot, n, &d2, &versions), bound, ctx.tier.pick(1500, 30000), Duration::from_secs(ctx.tier.pick(25, 90)))?;
            sched.merge(s);
        }
    }

    // requests that arrive EARLY: after main has bound every worker's socket, possibly before the
    // worker has built its Server and registered the socket; they are answered all the same
    {
        let versions = [Version::Classic, Version::Ietf13];
        let plans: Vec<(usize, Vec<usize>, usize)> = ctx.tier.pick(vec![(1, vec![0], 64), (2, vec![0, 1], 2)], vec![(1, vec![0], 64), (1, vec![0, 0], 64), (2, vec![0, 1], 3), (2, vec![1, 1], 3), (3, vec![0, 1, 2], 2)]); // (N, request -> worker, bound)
        for (n, dist, bound) in plans {
            let scn = Scenario {
                name: format!("early-n{}-dist{:?}", n, dist),
                workers: n,
                health: false,
                stats: false,
                batch_size: 2,
                env: vec![],
                idle_iteration: false,
                horizon: 400,
                expect: Expect::Serving,
                probe_at_end: false,
            };
            let d2 = dist.clone();
            let s = explore(ctx, "controlled-schedule/early-requests", &scn, &move |slot: &Slot| env_for(slot, n, &d2, &versions), bound, ctx.tier.pick(1500, 30000), Duration::from_secs(ctx.tier.pick(25, 90)))?;
            sched.merge(s);
        }
    }

    // static audit of the hook-granularity assumption; unlisted sharing constructs make the
    // free-running stress below run longer (they are not a verdict by themselves)
    let unlisted = crate::audit::shared_state_audit();
    for u in &unlisted {
        eprintln!("WARNING C18: sharing construct not on the audited list (exploration at hook granularity may be blind to it): {}", u);
    }
    ctx.cov("unlisted_shared_state", json!(unlisted));
    // part 3: free-running conformance (sampled): real binary, closed-loop reference clients
    let mut sampled = vec![];
    {
        let nws: Vec<usize> = ctx.tier.pick(vec![4, 16], vec![1, 2, 4, 8, 16]);
        let rounds: u64 = ctx.tier.pick(15, 60) * if unlisted.is_empty() { 1 } else { 8 };
        for nw in nws {
            let (mut sp, port) = crate::proc::start_serving(
                &|port| {
                    let mut w = Written::base(port);
                    w.set("num_workers", &nw.to_string());
                    w
                },
                Source::File,
                nw,
                Duration::from_secs(20),
            )?;
            let lt_pk = crypto::public_key(&crypto::unhex(BASE_SEED_HEX).try_into().unwrap());
            let ok = AtomicU64::new(0);
            let bad = AtomicU64::new(0);
            let nclients = 64;
            std::thread::scope(|s| {
                for c in 0..nclients {
                    let ok = &ok;
                    let bad = &bad;
                    s.spawn(move || {
                        let sock = std::net::UdpSocket::bind("127.0.0.1:0").unwrap();
                        sock.set_read_timeout(Some(Duration::from_secs(2))).unwrap();
                        let addr: std::net::SocketAddr = format!("127.0.0.1:{}", port).parse().unwrap();
                        let mut buf = [0u8; 4096];
                        for r in 0..rounds {
                            let v = if (c + r as usize) % 2 == 0 { Version::Classic } else { Version::Ietf13 };
                            let req = rtref::responder::std_request(v, &nonce(((c as u64) << 20) + r, v.nonce_len()));
                            let _ = sock.send_to(&req, addr);
                            match sock.recv_from(&mut buf) {
                                Ok((l, _)) if authentic(&buf[..l], &req, v, Some(&lt_pk), SERVER_VIEW).is_ok() => {
                                    ok.fetch_add(1, Relaxed);
                                }
                                _ => {
                                    bad.fetch_add(1, Relaxed);
                                }
                            }
                        }
                    });
                }
            });
            let alive = sp.try_status().is_none();
            let panicked = sp.stderr().contains("panicked");
            sampled.push(json!({"num_workers": nw, "clients": nclients, "ok": ok.load(Relaxed), "bad": bad.load(Relaxed), "alive": alive, "panic_output": panicked}));
            if bad.load(Relaxed) > 0 || !alive || panicked {
                ctx.violation("conformance-run", "free-running", &format!("workers{}", nw), json!({"kind":"conformance","num_workers":nw,"ok":ok.load(Relaxed),"bad":bad.load(Relaxed),"alive":alive,"panic_output":panicked}));
            }
            sp.kill();
        }
    }

    ctx.cov("states", json!(sched.states + hist_n.load(Relaxed)));
    ctx.cov("transitions", json!(sched.transitions + transitions.load(Relaxed)));
    ctx.cov("traces_validated_against_impl", json!(sched.executions + hist_n.load(Relaxed)));
    ctx.cov("evaluations", json!(sched.executions + hist_n.load(Relaxed)));
    ctx.cov("distinct_nontrivial", json!(sched.executions + hist_n.load(Relaxed)));
    ctx.cov("in_process_histories", json!(hist_n.load(Relaxed)));
    ctx.cov("controlled_schedules", sched.to_json());
    ctx.cov("sampled_conformance", json!(sampled));
    ctx.cov("caps_hit", json!(sched.caps_hit));
    ctx.cov("exhaustive", json!(sched.caps_hit.is_empty()));
    ctx.cov("bound", json!({"in_process": ctx.tier.pick("W=2,K=3,depth 6", "W=2,K=4,depth 8; W=3,K=3,depth 6"), "controlled": ctx.tier.pick("N=2,K=2, preemption bound 2, distributions up to worker symmetry", "N in {2,3}, K in {2,3}, every distribution up to worker symmetry, preemption bound 3/2/2/1, 90 s wall cap per scenario")}));
    ctx.cov("rule", json!("(1) in-process: W real Server objects from one seed; all event sequences of the depth bound over {deliver(next request -> worker w), step(w)} (the harness plays the kernel's distribution; a second, shallower exploration adds datagrams that are not requests — zero-length, a 5-byte probe — arriving at either worker), completed to quiescence: exactly one reply per request, from the worker it was delivered to, authentic for that request under the single long-term key, per-responder delegated keys stable and distinct; plus bursts larger than one event-loop call handles (e.g. 20 requests per worker at batch_size 1) spread over the workers and queued before the first step; and, with per-client statistics on, W workers sharing ONE statistics queue of capacity 2W: every assignment of R rounds (request, step, statistics hand-off) to the workers x every position of a single reporter pass (or none) — no hand-off fails or blocks, every request answered, every worker serves afterwards. (2) the real server process under the controlled scheduler: K requests whose source ports are chosen through the learned port->worker map to realise each distribution; schedules over the hook points (loop_top, polled, collected, sent, flag_check of each worker, environment sends) explored with iterative preemption bounding; same oracle plus no thread exit/panic and every worker back at loop_top; and scenarios in which the requests may arrive EARLY (as soon as every worker's socket is bound, before a worker has built its Server). (3) sampled: free-running binary with 64 concurrent closed-loop reference clients (quick: 15 rounds, num_workers {4,16}; thorough: 60 rounds, {1,2,4,8,16}); a failure observed there is a real failing execution, its absence is not a proof."));
    ctx.sample(json!({"kind":"multi","workers":2,"events":["Deliver(0)","Deliver(1)","Step(1)","Deliver(0)","Step(0)"]}));
    ctx.sample(json!({"kind":"schedule","scenario":"load-n2-k2-dist[0, 1]","schedule":["env:send(c3,C)","worker-0@loop_top(0)","env:send(c0,I)","worker-1@loop_top(0)","worker-0@polled(1)"]}));
    ctx.assume("interleavings are explored at hook granularity; all cross-thread communication of the server goes through hooked operations or kernel sockets (static audit: no static mut / unsafe / shared Mutex besides the config lock, the KEEP_RUNNING flag and the stats queue)");
    ctx.assume("memory-ordering effects weaker than sequential consistency are not modelled");
    Ok(())
}

pub fn replay_case(c: &Value) -> Result<Option<String>, String> {
    match c["kind"].as_str() {
        Some("schedule") => crate::sched::replay_schedule(c),
        Some("multi") => {
            crate::inproc::init();
            let w = c["workers"].as_u64().ok_or("workers")? as usize;
            let k = c["requests"].as_u64().ok_or("requests")? as usize;
            let bs = c["batch_size"].as_u64().unwrap_or(1) as u8;
            let reqs: Vec<Version> = (0..k).map(|i| if i % 2 == 0 { Version::Classic } else { Version::Ietf13 }).collect();
            let evs: Vec<MEv> = c["events"].as_array().ok_or("events")?.iter().filter_map(|e| {
                let s = e.as_str()?;
                let n: usize = s.trim_end_matches(')').split('(').nth(1)?.parse().ok()?;
                Some(if s.starts_with("Deliver") { MEv::Deliver(n) } else if s.starts_with("Junk") { MEv::Junk(n) } else { MEv::Step(n) })
            }).collect();
            let r = crate::util::on_named_thread("worker-0", || multi_history(w, &reqs, &evs, bs))?;
            Ok(r.map(|(a, b)| format!("{} {}", a, b)))
        }
        Some("shared-queue") => {
            crate::inproc::init();
            let w = c["workers"].as_u64().ok_or("workers")? as usize;
            let ws: Vec<usize> = c["worker_per_round"].as_array().ok_or("worker_per_round")?.iter().map(|x| x.as_u64().unwrap_or(0) as usize).collect();
            let d = c["reporter_drains_after_round"].as_u64().map(|x| x as usize);
            let r = crate::util::on_named_thread("worker-0", move || shared_queue_history(w, &ws, d))?;
            Ok(r.map(|(a, b)| format!("{} {}", a, b)))
        }
        _ => Err("replay of this case kind: re-run the check".into()),
    }
}
