//! C17 — request statistics conserve events, stay bounded, and match the traffic served.

use super::c09::{self, Ev};
use crate::ev::{Ctx, Tier};
use crate::inproc::{Srv, SrvCfg};
use crate::util::{catch, par_for};
use roughenough::stats::{AggregatedStats, ClientStats, PerClientStats, Reporter, ServerStats, StatsQueue};
use roughenough::Error as RErr;
use rtref::crypto;
use serde_json::{json, Value};
use std::collections::{BTreeMap, BTreeSet, VecDeque};
use std::net::IpAddr;
use std::sync::atomic::{AtomicU64, Ordering::Relaxed};
use std::sync::{Arc, Mutex};
use std::time::Duration;

pub const KINDS: [&str; 8] = ["ietf_req", "classic_req", "invalid_req", "failed_send", "retried_send", "health", "rfc_resp", "classic_resp"];

thread_local! {
    /// address family of the client addresses: 0 = plain IPv4; 1 = a mix in which address 1 is the
    /// IPv4-mapped IPv6 form of address 0 (distinct addresses to every recorder), further ones IPv6 /
    /// IPv4-mapped
    static ADDR_FAMILY: std::cell::Cell<u8> = std::cell::Cell::new(0);
}

fn addr(i: usize) -> IpAddr {
    match ADDR_FAMILY.with(|f| f.get()) {
        0 => format!("10.0.0.{}", i + 1).parse().unwrap(),
        _ => match i {
            0 => "192.0.2.7".parse().unwrap(),
            1 => "::ffff:192.0.2.7".parse().unwrap(),
            k if k % 2 == 0 => format!("2001:db8::{:x}", k + 1).parse().unwrap(),
            k => format!("::ffff:10.0.0.{}", k % 250 + 1).parse().unwrap(),
        },
    }
}

fn bytes_arg(kind: usize, a: usize) -> usize {
    if kind >= 6 { 360 + 4 * a + kind } else { 0 }
}

fn apply(s: &mut dyn ServerStats, kind: usize, a: usize) {
    let ip = addr(a);
    match kind {
        0 => s.add_ietf_request(&ip),
        1 => s.add_classic_request(&ip),
        2 => s.add_invalid_request(&ip, &RErr::RequestTooShort),
        3 => s.add_failed_send_attempt(&ip),
        4 => s.add_retried_send_attempt(&ip),
        5 => s.add_health_check(&ip),
        6 => s.add_rfc_response(&ip, bytes_arg(6, a)),
        7 => s.add_classic_response(&ip, bytes_arg(7, a)),
        _ => unreachable!(),
    }
}

/// Per-address observable counters: [8 kinds] + bytes
type Row = [u64; 9];

fn row_of(c: &ClientStats) -> Row {
    [
        c.rfc_requests as u64,
        c.classic_requests as u64,
        c.invalid_requests as u64,
        c.failed_send_attempts as u64,
        c.retried_send_attempts as u64,
        c.health_checks as u64,
        c.rfc_responses_sent as u64,
        c.classic_responses_sent as u64,
        c.bytes_sent as u64,
    ]
}

#[derive(Clone, Debug, PartialEq, Eq, PartialOrd, Ord)]
struct Model {
    rows: BTreeMap<usize, Row>,
    overflow: u64,
}

fn observe(s: &PerClientStats, naddr: usize) -> Model {
    let mut rows = BTreeMap::new();
    for a in 0..naddr {
        if let Some(c) = s.stats_for_client(&addr(a)) {
            rows.insert(a, row_of(c));
        }
    }
    Model { rows, overflow: s.num_overflows() }
}

fn totals_of(m: &Model) -> [u64; 12] {
    let sum = |k: usize| m.rows.values().map(|r| r[k]).sum::<u64>();
    [sum(0) + sum(1), sum(0), sum(1), sum(2), sum(5), sum(3), sum(4), sum(6) + sum(7), sum(6), sum(7), sum(8), m.rows.len() as u64]
}

fn totals_real(s: &dyn ServerStats) -> [u64; 12] {
    [
        s.total_valid_requests(),
        s.num_rfc_requests(),
        s.num_classic_requests(),
        s.total_invalid_requests(),
        s.total_health_checks(),
        s.total_failed_send_attempts(),
        s.total_retried_send_attempts(),
        s.total_responses_sent(),
        s.num_rfc_responses_sent(),
        s.num_classic_responses_sent(),
        s.total_bytes_sent() as u64,
        s.total_unique_clients(),
    ]
}

/// One recorder history. ops: 0..24 = (kind, addr) ; 24 = clear. Returns violation or None.
fn recorder_history(limit: usize, ops: &[usize], states: &mut BTreeSet<Model>) -> Option<(String, String)> {
    let naddr = 3;
    let r = catch(|| {
        let mut s = PerClientStats::verif_with_limit(limit);
        let mut agg = AggregatedStats::new();
        let mut prev = observe(&s, naddr);
        for (step, &op) in ops.iter().enumerate() {
            if op == 24 {
                s.clear();
                agg.clear();
                let now = observe(&s, naddr);
                if !now.rows.is_empty() || now.overflow != 0 || s.total_unique_clients() != 0 {
                    return Some(("clear-incomplete".to_string(), format!("step {}: {:?}", step, now)));
                }
                prev = now;
                states.insert(prev.clone());
                continue;
            }
            let (kind, a) = (op / 3, op % 3);
            apply(&mut s, kind, a);
            apply(&mut agg, kind, a);
            let now = observe(&s, naddr);
            // allowed successor (a): own counter +1 (and bytes + arg)
            let mut want_a = prev.clone();
            {
                let r = want_a.rows.entry(a).or_insert([0; 9]);
                r[kind] += 1;
                r[8] += bytes_arg(kind, a) as u64;
            }
            // allowed successor (b): overflow +1
            let mut want_b = prev.clone();
            want_b.overflow += 1;
            if now != want_a && now != want_b {
                return Some(("event-not-reflected-exactly-once".to_string(), format!("step {} op {}@addr{}: before {:?} after {:?}", step, KINDS[kind], a, prev, now)));
            }
            if now.rows.len() > limit || s.total_unique_clients() as usize > limit {
                return Some(("tracked-exceeds-limit".to_string(), format!("step {}: {} tracked, limit {}", step, now.rows.len(), limit)));
            }
            if s.total_unique_clients() as usize != now.rows.len() {
                return Some(("unique-clients-getter".to_string(), format!("step {}", step)));
            }
            let tr = totals_real(&s);
            if tr != totals_of(&now) {
                return Some(("getter-differs-from-sum".to_string(), format!("step {}: getters {:?} sums {:?}", step, tr, totals_of(&now))));
            }
            // iter() yields exactly the tracked rows
            let it: BTreeMap<IpAddr, Row> = s.iter().map(|(k, v)| (*k, row_of(v))).collect();
            let exp: BTreeMap<IpAddr, Row> = now.rows.iter().map(|(a, r)| (addr(*a), *r)).collect();
            if it != exp {
                return Some(("iter-differs".to_string(), format!("step {}", step)));
            }
            // aggregated recorder agrees while no overflow occurred since the last clear
            if now.overflow == 0 {
                let ta = totals_real(&agg);
                if ta[..11] != tr[..11] {
                    return Some(("aggregated-differs".to_string(), format!("step {}: aggregated {:?} per-client {:?}", step, ta, tr)));
                }
            }
            prev = now;
            states.insert(prev.clone());
        }
        None
    });
    match r {
        Ok(v) => v,
        Err(p) => Some(("panic".to_string(), p)),
    }
}

// ---------------------------------------------------------------------------------------------
// part 2: merge in the reporter

/// The three recording operations of a merge exploration; every kind is in one of the sets.
const MERGE_OP_SETS: [[usize; 3]; 3] = [[1, 6, 2], [3, 4, 5], [0, 7, 3]];

fn merge_events_for(ops: [usize; 3]) -> Vec<String> {
    let mut v = vec![];
    for w in 0..2 {
        for op in ops {
            for a in 0..2 {
                v.push(format!("rec:w{}:{}:a{}", w, KINDS[op], a));
            }
        }
    }
    v.push("snap:w0".into());
    v.push("snap:w1".into());
    v.push("receive".into());
    v
}

fn merge_events() -> Vec<String> {
    merge_events_for(MERGE_OP_SETS[0])
}

struct MergeRig {
    workers: Vec<PerClientStats>,
    queue: Arc<StatsQueue>,
    reporter: Reporter,
    // model
    mq: VecDeque<Vec<(usize, Row)>>,
    expect: BTreeMap<usize, Row>,
    ops: [usize; 3],
}

impl MergeRig {
    fn new() -> MergeRig {
        MergeRig::with_ops(MERGE_OP_SETS[0])
    }
    fn with_ops(ops: [usize; 3]) -> MergeRig {
        let queue = Arc::new(StatsQueue::new(4)); // as in the binary: 2 x workers
        MergeRig {
            ops,
            workers: vec![PerClientStats::verif_with_limit(1000), PerClientStats::verif_with_limit(1000)],
            reporter: Reporter::new(queue.clone(), &Duration::from_secs(3600), None),
            queue,
            mq: VecDeque::new(),
            expect: BTreeMap::new(),
        }
    }
    /// apply one event to the real objects and to the model
    fn apply(&mut self, e: usize) -> Option<(String, String)> {
        if e < 12 {
            let w = e / 6;
            let op = self.ops[(e % 6) / 2];
            let a = e % 2;
            apply(&mut self.workers[w], op, a);
            None
        } else if e < 14 {
            let w = e - 12;
            // the real hand-off: iter -> force_push -> clear (Server::send_client_stats)
            let clients: Vec<ClientStats> = self.workers[w].iter().map(|(_, s)| *s).collect();
            let model: Vec<(usize, Row)> = (0..2).filter_map(|a| self.workers[w].stats_for_client(&addr(a)).map(|c| (a, row_of(c)))).collect();
            if !clients.is_empty() {
                self.queue.force_push(clients);
                self.workers[w].clear();
                if self.mq.len() == 4 {
                    self.mq.pop_front(); // force_push displaces the oldest element
                }
                self.mq.push_back(model);
            }
            None
        } else {
            self.reporter.receive_client_stats();
            while let Some(snap) = self.mq.pop_front() {
                for (a, r) in snap {
                    let e = self.expect.entry(a).or_insert([0; 9]);
                    for k in 0..9 {
                        e[k] += r[k];
                    }
                }
            }
            let got: BTreeMap<usize, Row> = self
                .reporter
                .verif_client_stats()
                .iter()
                .filter_map(|c| (0..2).find(|a| addr(*a) == c.ip_addr).map(|a| (a, row_of(c))))
                .collect();
            if got != self.expect {
                return Some(("merge-loses-or-invents".to_string(), format!("reporter {:?} expected {:?}", got, self.expect)));
            }
            if !self.queue.is_empty() {
                return Some(("queue-not-drained".to_string(), "receive left entries".into()));
            }
            None
        }
    }
}

/// Return addresses for which send_to on an IPv4 UDP socket fails on this host (each verified by a
/// probe send): an IPv6 address, port 0, the broadcast address without SO_BROADCAST.
pub fn unsendable_addresses() -> Vec<std::net::SocketAddr> {
    let probe = match std::net::UdpSocket::bind("127.0.0.1:0") {
        Ok(s) => s,
        Err(_) => return vec![],
    };
    ["[::1]:4000", "127.0.0.1:0", "255.255.255.255:4000"].iter().filter_map(|a| a.parse::<std::net::SocketAddr>().ok()).filter(|a| probe.send_to(b"x", a).is_err()).collect()
}

/// Two batches on one real Responder: the requests of `dests` in order, then in reverse order.
/// Returns a description of the first disagreement between the recorder and the traffic.
#[cfg(feature = "no_responder_api")]
fn send_failure_case(_per_client: bool, _v: rtref::Version, _dests: &[usize], _bad: &[std::net::SocketAddr]) -> Result<Option<String>, String> {
    crate::util::RESPONDER_API_SKIPPED.store(true, std::sync::atomic::Ordering::Relaxed);
    Ok(None)
}

#[cfg(not(feature = "no_responder_api"))]
fn send_failure_case(per_client: bool, v: rtref::Version, dests: &[usize], bad: &[std::net::SocketAddr]) -> Result<Option<String>, String> {
    use roughenough::config::MemoryConfig;
    use roughenough::key::LongTermKey;
    use roughenough::responder::Responder;
    crate::inproc::init();
    let std_sock = std::net::UdpSocket::bind("127.0.0.1:0").map_err(|e| e.to_string())?;
    std_sock.set_nonblocking(true).map_err(|e| e.to_string())?;
    let port = std_sock.local_addr().unwrap().port();
    let mut sock = mio::net::UdpSocket::from_socket(std_sock).map_err(|e| e.to_string())?;
    let mut mc = MemoryConfig::new(port);
    mc.seed = crate::inproc::DEFAULT_SEED.to_vec();
    let mut ltk = LongTermKey::new(&mc.seed);
    let rv = super::c10::rv(v);
    let mut resp = Responder::new(rv, &mc, &mut ltk);
    let mut stats: Box<dyn ServerStats> = if per_client { Box::new(PerClientStats::new()) } else { Box::new(AggregatedStats::new()) };
    let good: Vec<crate::inproc::Client> = (0..2).map(|_| crate::inproc::Client::new()).collect();
    let mut want_ok = 0u64;
    let mut want_fail = 0u64;
    let mut got_n = 0u64;
    let mut got_bytes = 0usize;
    for round in 0..2 {
        let order: Vec<usize> = if round == 0 { dests.to_vec() } else { dests.iter().rev().cloned().collect() };
        for (i, &d) in order.iter().enumerate() {
            let addr = if d < 2 { good[d].sock.local_addr().unwrap() } else { bad[d - 2] };
            let nonce = crate::inproc::nonce(0xfa11 + (round * 16 + i) as u64, v.nonce_len());
            if d < 2 {
                want_ok += 1;
            } else {
                want_fail += 1;
            }
            match v {
                rtref::Version::Classic => resp.add_classic_request(nonce, addr),
                rtref::Version::Ietf13 => {
                    let req = rtref::responder::std_request(v, &nonce);
                    resp.add_ietf_request(&req, nonce, addr)
                }
            }
        }
        resp.send_responses(&mut sock, &mut stats);
        resp.reset();
        // loopback delivery is synchronous; allow a little time all the same
        let deadline = std::time::Instant::now() + Duration::from_millis(200);
        loop {
            for g in &good {
                for (d, _) in g.drain() {
                    got_n += 1;
                    got_bytes += d.len();
                }
            }
            if got_n >= want_ok || std::time::Instant::now() > deadline {
                break;
            }
            std::thread::sleep(Duration::from_millis(1));
        }
        let st = c09::snap(&*stats);
        let (rc, rr) = if v == rtref::Version::Classic { (got_n, 0) } else { (0, got_n) };
        let problems: Vec<String> = [
            ("total_responses_sent", st.responses, got_n),
            ("num_classic_responses_sent", st.classic_resp, rc),
            ("num_rfc_responses_sent", st.rfc_resp, rr),
            ("total_bytes_sent", st.bytes as u64, got_bytes as u64),
            ("total_failed_send_attempts", st.failed_sends, want_fail),
        ]
        .iter()
        .filter(|(_, rec, real)| rec != real)
        .map(|(n, rec, real)| format!("{} recorded {} actual {}", n, rec, real))
        .collect();
        if got_n != want_ok {
            return Ok(Some(format!("batch {}: {} replies to sendable addresses expected, {} arrived", round, want_ok, got_n)));
        }
        if !problems.is_empty() {
            return Ok(Some(format!("after batch {}: {}", round, problems.join("; "))));
        }
    }
    Ok(None)
}

/// The reporter's own loop (`Reporter::processing_loop`, as the stats-reporting thread of the server
/// runs it) against one worker that hands off a snapshot in each of three publish windows of one
/// report interval, into a queue of the size the binary gives one worker (2). Each snapshot is handed
/// off once the previous one has been taken (or after 2.5 s). The reports written to disk must add up
/// to every recorded event. Returns a description of the disagreement.
fn reporter_loop_case() -> Result<Option<String>, String> {
    use std::sync::atomic::AtomicBool;
    let dir = crate::proc::scratch_dir();
    let queue = Arc::new(StatsQueue::new(2));
    let mut rep = Reporter::new(queue.clone(), &Duration::from_secs(8), Some(dir.clone()));
    let keep = Arc::new(AtomicBool::new(true));
    let k2 = keep.clone();
    let h = std::thread::Builder::new().name("stats-reporting".into()).spawn(move || rep.processing_loop(&k2)).map_err(|e| e.to_string())?;
    let mut worker = PerClientStats::verif_with_limit(1000);
    let mut recorded = 0u64;
    std::thread::sleep(Duration::from_millis(300));
    for w in 0..3u64 {
        for _ in 0..=w {
            apply(&mut worker, 1, 0);
            recorded += 1;
        }
        let clients: Vec<ClientStats> = worker.iter().map(|(_, s)| *s).collect();
        queue.force_push(clients);
        worker.clear();
        let t = std::time::Instant::now();
        while !queue.is_empty() && t.elapsed() < Duration::from_millis(2500) {
            std::thread::sleep(Duration::from_millis(20));
        }
    }
    // the sum over every report written so far, until it is complete or 14 s have passed
    let want_ip = addr(0).to_string();
    let t = std::time::Instant::now();
    let mut total = 0u64;
    let mut files = 0;
    while t.elapsed() < Duration::from_secs(14) {
        total = 0;
        files = 0;
        if let Ok(rd) = std::fs::read_dir(&dir) {
            for e in rd.flatten() {
                if !e.file_name().to_string_lossy().ends_with(".csv.zst") {
                    continue;
                }
                let raw = std::fs::read(e.path()).unwrap_or_default();
                let plain = String::from_utf8_lossy(&zstd::decode_all(&raw[..]).unwrap_or_default()).to_string();
                let mut lines = plain.lines();
                let head: Vec<&str> = lines.next().unwrap_or("").split(',').collect();
                let (ci, ii) = match (head.iter().position(|c| *c == "classic_requests"), head.iter().position(|c| *c == "ip_addr")) {
                    (Some(a), Some(b)) => (a, b),
                    _ => continue, // a file still being written
                };
                files += 1;
                for l in lines {
                    let f: Vec<&str> = l.split(',').collect();
                    if f.get(ii) == Some(&want_ip.as_str()) {
                        total += f.get(ci).and_then(|x| x.parse::<u64>().ok()).unwrap_or(0);
                    }
                }
            }
        }
        if total >= recorded {
            break;
        }
        std::thread::sleep(Duration::from_millis(200));
    }
    keep.store(false, std::sync::atomic::Ordering::Relaxed);
    let _ = h.join();
    let _ = std::fs::remove_dir_all(&dir);
    if total != recorded {
        return Ok(Some(format!("one worker recorded {} classic requests of one client in 3 publish windows of one report interval (queue of 2, each snapshot handed off after the previous one was taken or 2.5 s later); the {} report file(s) the reporter loop wrote add up to {}", recorded, files, total)));
    }
    Ok(None)
}

pub fn run(ctx: &Ctx) -> Result<(), String> {
    ctx.set_level("model_checking");
    crate::inproc::init();
    // the reporter's own loop runs in real time (one 8 s report interval): alongside everything else
    let reporter_loop = std::thread::spawn(reporter_loop_case);
    let transitions = AtomicU64::new(0);
    let evals = AtomicU64::new(0);
    let all_states: Mutex<BTreeSet<(usize, String)>> = Mutex::new(BTreeSet::new());

    // part 1: recorder, all sequences of length <= L over 25 operations
    let len1 = ctx.tier.pick(4usize, 5);
    for limit in [1usize, 2] {
        for len in 1..=len1 {
            let n = 25usize.pow(len as u32);
            let nchunks = (n + 4095) / 4096;
            par_for(nchunks, 1, |ch, _| {
                let mut states = BTreeSet::new();
                for idx0 in ch * 4096..((ch + 1) * 4096).min(n) {
                    let mut idx = idx0;
                    let mut ops = Vec::with_capacity(len);
                    for _ in 0..len {
                        ops.push(idx % 25);
                        idx /= 25;
                    }
                    evals.fetch_add(1, Relaxed);
                    transitions.fetch_add(len as u64, Relaxed);
                    if let Some((clause, msg)) = recorder_history(limit, &ops, &mut states) {
                        let names: Vec<String> = ops.iter().map(|&o| if o == 24 { "clear".into() } else { format!("{}@a{}", KINDS[o / 3], o % 3) }).collect();
                        ctx.violation(&clause, "recorder", &format!("limit{}", limit), json!({"kind":"recorder","limit":limit,"ops":ops,"names":names,"message":msg}));
                    }
                }
                let mut g = all_states.lock().unwrap();
                for s in states {
                    g.insert((limit, format!("{:?}", s)));
                }
            });
        }
    }
    let rec_states = all_states.lock().unwrap().len();

    // part 2: merge, all sequences of length <= L over 15 events
    let len2 = ctx.tier.pick(4usize, 5);
    let merge_n = AtomicU64::new(0);
    for (ops, family) in MERGE_OP_SETS.iter().flat_map(|o| [(*o, 0u8), (*o, 1u8)]) {
        let evs = merge_events_for(ops);
        let n = 15usize.pow(len2 as u32);
        // every sequence of exactly len2 events followed by a final `receive` (shorter sequences are prefixes)
        let nchunks = (n + 2047) / 2048;
        par_for(nchunks, 1, |ch, _| {
            // one long-lived rig per chunk: the reporter has no reset, the model is cumulative
            ADDR_FAMILY.with(|f| f.set(family));
            let mut rig = MergeRig::with_ops(ops);
            for idx0 in ch * 2048..((ch + 1) * 2048).min(n) {
                let mut idx = idx0;
                let mut seq = Vec::with_capacity(len2 + 1);
                for _ in 0..len2 {
                    seq.push(idx % 15);
                    idx /= 15;
                }
                seq.push(14);
                merge_n.fetch_add(1, Relaxed);
                transitions.fetch_add(seq.len() as u64, Relaxed);
                let mut bad = None;
                for &e in &seq {
                    match catch(|| rig.apply(e)) {
                        Ok(None) => {}
                        Ok(Some(v)) => {
                            bad = Some(v);
                            break;
                        }
                        Err(p) => {
                            bad = Some(("panic".to_string(), p));
                            break;
                        }
                    }
                }
                // flush workers so the next history starts from empty recorders
                for w in 0..2 {
                    rig.workers[w].clear();
                }
                if let Some((clause, msg)) = bad {
                    ctx.violation(&clause, "reporter", "merge", json!({"kind":"merge","ops":ops,"address_family":family,"addresses":[addr(0).to_string(), addr(1).to_string()],"events":seq.iter().map(|&e| evs[e].clone()).collect::<Vec<_>>(),"chunk":ch,"message":msg}));
                    rig = MergeRig::with_ops(ops);
                }
            }
            ADDR_FAMILY.with(|f| f.set(0));
        });
    }
    // first_seen = min (own check on ClientStats merge via the reporter)
    {
        let q = Arc::new(StatsQueue::new(4));
        let mut rep = Reporter::new(q.clone(), &Duration::from_secs(3600), None);
        let mut w = PerClientStats::verif_with_limit(10);
        w.add_classic_request(&addr(0));
        let mut a: Vec<ClientStats> = w.iter().map(|(_, s)| *s).collect();
        let mut b = a.clone();
        a[0].first_seen = 1000;
        b[0].first_seen = 500;
        q.force_push(a);
        q.force_push(b);
        rep.receive_client_stats();
        let got = rep.verif_client_stats();
        if got.len() != 1 || got[0].first_seen != 500 || got[0].classic_requests != 2 {
            ctx.violation("first-seen-not-min", "reporter", "merge", json!({"kind":"first_seen","got":format!("{:?}", got)}));
        }
    }

    // part 3: wiring — C09 histories with the stats totals compared with what was sent/received
    let wiring_n = AtomicU64::new(0);
    let failed: Mutex<Option<String>> = Mutex::new(None);
    {
        let mut al = c09::alphabet();
        // the periodic hand-off to the reporter queue as an event: nothing drains the queue here, so
        // it fills up (capacity 4) and the hand-off must stay non-blocking
        al.push(Ev::Handoff);
        let lt_pk = crypto::public_key(&crate::inproc::DEFAULT_SEED);
        for (client_stats, depth) in [(false, ctx.tier.pick(4usize, 5)), (true, ctx.tier.pick(3usize, 4))] {
            // (batch_size, fault_percentage): with fault injection on, deliberately invalid replies
            // differ in length from genuine ones; the byte total is still what was sent
            for (bs, fault) in [(1u8, 0u8), (3, 0), (3, 50)] {
                let cfg = SrvCfg { batch_size: bs, client_stats, fault, ..Default::default() };
                let n = al.len().pow(depth as u32);
                par_for(n, 16, |idx, _| {
                    let h = c09::history_from_index(idx, depth, &al);
                    let mut srv = match Srv::new(&cfg) {
                        Ok(s) => s,
                        Err(e) => {
                            *failed.lock().unwrap() = Some(e);
                            return;
                        }
                    };
                    let mut obs = c09::run_events(&mut srv, &h, 2, false);
                    let _ = c09::judge(&mut obs, &lt_pk, false);
                    wiring_n.fetch_add(1, Relaxed);
                    transitions.fetch_add(h.len() as u64 + 2, Relaxed);
                    if obs.panic.is_some() {
                        return; // C08/C09's concern
                    }
                    // a hand-off clears a per-client recorder (the snapshot went to the queue): the
                    // totals comparison below applies to histories without a hand-off; with hand-offs
                    // the oracle is that every call returned (watchdog) and the traffic was served
                    if h.iter().any(|e| *e == Ev::Handoff) {
                        return;
                    }
                    let st = obs.stats.clone().unwrap();
                    let sent_c = obs.sent.iter().filter(|s| s.version == Some(rtref::Version::Classic)).count() as u64;
                    let sent_i = obs.sent.iter().filter(|s| s.version == Some(rtref::Version::Ietf13)).count() as u64;
                    let sent_x = obs.sent.iter().filter(|s| s.version.is_none()).count() as u64;
                    let recv_n: u64 = obs.received.iter().map(|r| r.len() as u64).sum();
                    let recv_b: usize = obs.received.iter().flat_map(|r| r.iter().map(|d| d.0.len())).sum();
                    let framed = obs.received.iter().flat_map(|r| r.iter()).filter(|d| d.0.len() >= 8 && &d.0[..8] == rtref::codec::FRAME_MAGIC).count() as u64;
                    let want = c09::StatsSnap { valid: sent_c + sent_i, classic: sent_c, rfc: sent_i, invalid: sent_x, responses: recv_n, classic_resp: recv_n - framed, rfc_resp: framed, bytes: recv_b, failed_sends: 0, health: 0 };
                    if st != want {
                        ctx.violation("stats-differ-from-traffic", "server-wiring", &format!("{}{}", if client_stats { "per-client" } else { "aggregated" }, if fault > 0 { "/fault-injection-on" } else { "" }),
                            json!({"kind":"events","history":c09::hist_json(&cfg, &h),"recorded":format!("{:?}", st),"traffic":format!("{:?}", want)}));
                    }
                });
            }
        }
    }
    // hand-off sequences well beyond the queue capacity, with traffic in between (per-client recorder)
    {
        let lt_pk = crypto::public_key(&crate::inproc::DEFAULT_SEED);
        let cfg = SrvCfg { batch_size: 2, client_stats: true, ..Default::default() };
        let mut h = vec![];
        for k in 0..12 {
            h.push(Ev::Req(k % 2, if k % 3 == 0 { rtref::Version::Ietf13 } else { rtref::Version::Classic }));
            h.push(Ev::Step);
            h.push(Ev::Handoff);
        }
        let mut srv = Srv::new(&cfg)?;
        let mut obs = c09::run_events(&mut srv, &h, 2, false);
        let vs = c09::judge(&mut obs, &lt_pk, false);
        wiring_n.fetch_add(1, Relaxed);
        for (clause, class, msg) in vs {
            ctx.violation(&clause, "server-wiring", &format!("handoff-sequence/{}", class), json!({"kind":"events","history":c09::hist_json(&cfg, &h),"message":msg}));
        }
        if srv.queue.len() > 4 {
            ctx.violation("queue-exceeds-capacity", "server-wiring", "handoff-sequence", json!({"kind":"events","history":c09::hist_json(&cfg, &h),"queue_len":srv.queue.len()}));
        }
    }
    if let Some(e) = failed.lock().unwrap().take() {
        return Err(e);
    }

    // many distinct client addresses in one publish window (per-client recorder): N clients, each from
    // its own loopback address, one request each; then the hand-off; the snapshots in the queue
    // (capacity 2, as for one worker) together hold every address and every event
    {
        let mut ns: Vec<usize> = ctx.tier.pick(vec![1023, 1025, 2049, 3073], vec![1, 1023, 1024, 1025, 2047, 2048, 2049, 3073, 5000]);
        // one socket per client: stay below the limit of open files of this environment
        let nofile = unsafe {
            let mut rl = libc::rlimit { rlim_cur: 0, rlim_max: 0 };
            if libc::getrlimit(libc::RLIMIT_NOFILE, &mut rl) == 0 { rl.rlim_cur as usize } else { 1024 }
        };
        let skipped: Vec<usize> = ns.iter().cloned().filter(|n| n + 400 > nofile).collect();
        ns.retain(|n| n + 400 <= nofile);
        ctx.cov("many_addresses_clients", json!({"run": ns, "skipped_for_open_file_limit": skipped, "open_file_limit": nofile}));
        for n in ns {
            let r = crate::util::on_named_thread("worker-0", move || -> Result<Option<String>, String> {
                let queue = Arc::new(StatsQueue::new(2));
                let cfg = SrvCfg { batch_size: 64, client_stats: true, ..Default::default() };
                let mut srv = Srv::new_with_queue(&cfg, queue.clone())?;
                let mut socks = vec![];
                for i in 0..n {
                    let ip = format!("127.{}.{}.{}:0", 1 + i / 65536, (i / 256) % 256, i % 256);
                    let s = std::net::UdpSocket::bind(&ip).map_err(|e| format!("bind {}: {}", ip, e))?;
                    let req = rtref::responder::std_request(rtref::Version::Classic, &crate::inproc::nonce(0xadd_0000 + i as u64, 64));
                    s.send_to(&req, srv.addr).map_err(|e| e.to_string())?;
                    socks.push(s);
                    if i % 48 == 47 {
                        srv.settle()?;
                    }
                }
                srv.settle()?;
                srv.handoff_stats()?;
                let mut addrs = std::collections::BTreeSet::new();
                let (mut reqs, mut resps) = (0u64, 0u64);
                while let Some(snap) = queue.pop() {
                    for c in snap {
                        addrs.insert(c.ip_addr);
                        reqs += c.classic_requests as u64;
                        resps += c.classic_responses_sent as u64;
                    }
                }
                if addrs.len() != n || reqs != n as u64 || resps != n as u64 {
                    return Ok(Some(format!("{} clients from distinct addresses sent one request each; the published snapshots hold {} addresses, {} requests, {} responses", n, addrs.len(), reqs, resps)));
                }
                Ok(None)
            })?;
            wiring_n.fetch_add(1, Relaxed);
            if let Some(m) = r {
                ctx.violation("stats-differ-from-traffic", "server-wiring", "per-client/many-addresses", json!({"kind":"many-addresses","clients":n,"message":m}));
            }
        }
    }
    // part 4: replies that cannot be sent. The real Responder is driven through its public API with
    // return addresses the socket can and cannot send to; what the recorder reports is compared
    // with the datagrams that actually arrived.
    let sendfail_n = AtomicU64::new(0);
    {
        let bad = unsendable_addresses();
        ctx.cov("unsendable_return_addresses", json!(bad.iter().map(|a| a.to_string()).collect::<Vec<_>>()));
        if bad.is_empty() {
            ctx.assume("no return address on this host makes send_to fail: the send-error branch was not exercised");
        } else {
            // destination alphabet: two receiving sockets + every unsendable address
            let ndest = 2 + bad.len();
            let depth = ctx.tier.pick(3u32, 4);
            let mut cases = vec![];
            for per_client in [false, true] {
                for v in [rtref::Version::Classic, rtref::Version::Ietf13] {
                    for l in 1..=depth {
                        for code in 0..ndest.pow(l) {
                            cases.push((per_client, v, (0..l).map(|i| code / ndest.pow(i) % ndest).collect::<Vec<usize>>()));
                        }
                    }
                }
            }
            par_for(cases.len(), 16, |k, _| {
                let (per_client, v, dests) = &cases[k];
                sendfail_n.fetch_add(1, Relaxed);
                transitions.fetch_add(dests.len() as u64 * 2, Relaxed);
                match catch(|| send_failure_case(*per_client, *v, dests, &bad)) {
                    Err(p) => ctx.violation("panic", "send_responses", "unsendable-address", json!({"kind":"sendfail","per_client":per_client,"version":v.name(),"destinations":dests,"panic":p})),
                    Ok(Err(e)) => *failed.lock().unwrap() = Some(e),
                    Ok(Ok(None)) => {}
                    Ok(Ok(Some(msg))) => ctx.violation("stats-differ-from-traffic", "send_responses", if *per_client { "send-error/per-client" } else { "send-error/aggregated" },
                        json!({"kind":"sendfail","per_client":per_client,"version":v.name(),"destinations":dests,"unsendable":bad.iter().map(|a| a.to_string()).collect::<Vec<_>>(),"message":msg})),
                }
            });
            if let Some(e) = failed.lock().unwrap().take() {
                return Err(e);
            }
        }
    }

    // sampled extra: seeded random walk of length 10,000 on the recorder (limit 2)
    let mut sampled = 0u64;
    {
        let mut rng = crate::util::Rng(ctx.seed ^ 0xc17);
        let ops: Vec<usize> = (0..10_000).map(|_| rng.below(25) as usize).collect();
        let mut states = BTreeSet::new();
        // run in slices (the step oracle is local), keeping the object alive across the whole walk
        if let Some((clause, msg)) = recorder_history(2, &ops, &mut states) {
            ctx.violation(&clause, "recorder", "random-walk", json!({"kind":"random-walk","seed":ctx.seed,"message":msg}));
        }
        sampled += ops.len() as u64;
    }

    match reporter_loop.join() {
        Ok(Ok(None)) => {}
        Ok(Ok(Some(msg))) => ctx.violation("merge-loses-or-invents", "reporter", "processing-loop", json!({"kind":"reporter-loop","message":msg})),
        Ok(Err(e)) => return Err(e),
        Err(_) => return Err("reporter loop case panicked".into()),
    }
    ctx.cov("reporter_loop_runs", json!(1));
    ctx.cov("states", json!(rec_states));
    ctx.cov("transitions", json!(transitions.load(Relaxed)));
    ctx.cov("traces_validated_against_impl", json!(evals.load(Relaxed) + merge_n.load(Relaxed) + wiring_n.load(Relaxed)));
    ctx.cov("evaluations", json!(evals.load(Relaxed) + merge_n.load(Relaxed) + wiring_n.load(Relaxed)));
    ctx.cov("distinct_nontrivial", json!(evals.load(Relaxed) + merge_n.load(Relaxed) + wiring_n.load(Relaxed)));
    ctx.cov("recorder_histories", json!(evals.load(Relaxed)));
    ctx.cov("merge_histories", json!(merge_n.load(Relaxed)));
    ctx.cov("wiring_histories", json!(wiring_n.load(Relaxed)));
    ctx.cov("send_failure_batches", json!(sendfail_n.load(Relaxed)));
    ctx.cov("sampled_evaluations", json!(sampled));
    ctx.cov("exhaustive", json!(true));
    ctx.cov("bound", json!({"recorder_len": len1, "recorder_ops": 25, "limits": [1, 2], "merge_len": len2, "merge_events": 15, "wiring_depth": ctx.tier.pick("4 (aggregated) / 3 (per-client)", "5 / 4")}));
    ctx.cov("rule", json!(format!("(1) all sequences of length <= {} over 8 recording operations x 3 addresses + clear on the real PerClientStats (limit 1 and 2) and AggregatedStats, with a step oracle after every operation: the observable state (per-address counters, bytes, overflow count) changed by exactly the event's own counter +1 (bytes + argument) OR overflow +1; tracked <= limit; every getter equals the sum over rows; iter() == rows; aggregated totals equal per-client totals while overflow is 0. states = distinct canonical recorder states reached. (2) all sequences of {} events over {{record(w,op,addr) x12, snapshot(w0), snapshot(w1), receive}} (three explorations whose operation triples together hold all 8 recording kinds, each with two plain IPv4 addresses and again with an IPv4 address and its IPv4-mapped IPv6 form ::ffff:a.b.c.d, which are distinct addresses) + final receive through the real iter->force_push->clear hand-off, the real ArrayQueue (capacity 4) and the real Reporter::receive_client_stats, against a model queue that drops the oldest snapshot when full: reporter per-address sums == sums of popped snapshots. (2b) Reporter::processing_loop itself, in real time, against one worker handing off in three publish windows of one report interval into a queue of 2: the report files add up to the recorded events. (3) C09 event histories extended with the periodic hand-off event on real Servers (aggregated and per-client recorder): recorded valid/classic/ietf/invalid/responses/bytes == datagrams actually sent and received (histories without hand-off; batch_size 1 and 3, and 3 with fault_percentage 50, where deliberately invalid replies differ in length); every hand-off returns even when the undrained queue is full (wedge watchdog), traffic still served. (4) the real Responder driven through its public API: every sequence (length <= 3, thorough 4) of return addresses over {{two receiving sockets, addresses send_to fails for (IPv6 on an IPv4 socket, port 0, broadcast)}} as one batch and then reversed as a second batch, both protocols, both recorders: responses / bytes recorded == datagrams / bytes that arrived, failed send attempts == unsendable addresses, after each batch.", len1, len2)));
    ctx.sample(json!({"kind":"recorder","limit":1,"names":["classic_req@a0","rfc_resp@a1","clear","health@a1"]}));
    ctx.sample(json!({"kind":"merge","events":["rec:w0:classic_req:a0","snap:w0","rec:w1:classic_req:a0","snap:w1","receive"]}));
    ctx.assume("part 2 reuses one Reporter per chunk of histories (Reporter::new allocates a 5M-entry map); the model is cumulative, so the oracle stays exact");
    let _ = Tier::Quick;
    let _ = Ev::Step;
    Ok(())
}

pub fn replay_case(c: &Value) -> Result<Option<String>, String> {
    match c["kind"].as_str() {
        Some("recorder") => {
            let limit = c["limit"].as_u64().ok_or("limit")? as usize;
            let ops: Vec<usize> = c["ops"].as_array().ok_or("ops")?.iter().map(|x| x.as_u64().unwrap() as usize).collect();
            let mut st = BTreeSet::new();
            Ok(recorder_history(limit, &ops, &mut st).map(|(a, b)| format!("{} {}", a, b)))
        }
        Some("merge") => {
            let ops: [usize; 3] = match c["ops"].as_array() {
                Some(a) if a.len() == 3 => [a[0].as_u64().unwrap_or(1) as usize, a[1].as_u64().unwrap_or(6) as usize, a[2].as_u64().unwrap_or(2) as usize],
                _ => MERGE_OP_SETS[0],
            };
            let evs = merge_events_for(ops);
            let seq: Vec<usize> = c["events"].as_array().ok_or("events")?.iter().filter_map(|e| evs.iter().position(|x| Some(x.as_str()) == e.as_str())).collect();
            ADDR_FAMILY.with(|f| f.set(c["address_family"].as_u64().unwrap_or(0) as u8));
            let mut rig = MergeRig::with_ops(ops);
            let mut out = None;
            for e in seq {
                if let Some((a, b)) = rig.apply(e) {
                    out = Some(format!("{} {}", a, b));
                    break;
                }
            }
            ADDR_FAMILY.with(|f| f.set(0));
            Ok(out)
        }
        Some("sendfail") => {
            let dests: Vec<usize> = c["destinations"].as_array().ok_or("destinations")?.iter().map(|x| x.as_u64().unwrap_or(0) as usize).collect();
            let v = if c["version"].as_str() == Some("classic") { rtref::Version::Classic } else { rtref::Version::Ietf13 };
            let per_client = c["per_client"].as_bool().unwrap_or(false);
            let bad = unsendable_addresses();
            if dests.iter().any(|d| *d >= 2 + bad.len()) {
                return Err("this host has fewer unsendable addresses than the recording host".into());
            }
            crate::util::on_named_thread("worker-0", move || send_failure_case(per_client, v, &dests, &bad))
        }
        _ => Err("replay of this case kind: re-run the check".into()),
    }
}
