//! C13 — incremental signer/verifier equal one-shot RFC 8032 Ed25519, no carry-over (E-SEQ).

use super::alphabet::{canonical_message, seeds_subset};
use crate::ev::{Ctx, Tier};
use crate::util::{catch, hex, hex_trunc, par_for};
use roughenough::sign::{MsgSigner, MsgVerifier};
use rtref::crypto;
use serde_json::{json, Value};
use std::sync::atomic::{AtomicU64, Ordering::Relaxed};

/// Feed `chunks` of one message to the signer and sign. Compare with the one-shot signature.
fn sign_chunks(s: &mut MsgSigner, chunks: &[&[u8]]) -> Result<Vec<u8>, String> {
    catch(|| {
        for c in chunks {
            s.update(c);
        }
        s.sign()
    })
}

fn check_sig(ctx: &Ctx, seed: &[u8; 32], whole: &[u8], got: Result<Vec<u8>, String>, what: Value) {
    let want = crypto::sign(seed, whole).to_vec();
    match got {
        Ok(g) if g == want => {}
        Ok(g) => ctx.violation("signature-differs", "signer", what["kind"].as_str().unwrap_or("?"), json!({"seed":hex(seed),"case":what,"got":hex(&g),"want":hex(&want),"msg_len":whole.len()})),
        Err(p) => ctx.violation("signer-panic", "signer", what["kind"].as_str().unwrap_or("?"), json!({"seed":hex(seed),"case":what,"panic":p})),
    }
}

fn subject_verify(pk: &[u8], msg: &[u8], sig: &[u8]) -> bool {
    // a panic (key bytes that do not decode, wrong lengths) counts as "not accepted"
    catch(|| {
        let mut v = MsgVerifier::new(pk);
        // feed in two chunks to exercise update()
        let h = msg.len() / 2;
        v.update(&msg[..h]);
        v.update(&msg[h..]);
        v.verify(sig)
    })
    .unwrap_or(false)
}

/// Two signer objects on the calling thread; returns the first disagreement with the one-shot
/// signature of what the signing object was fed since its last sign().
fn two_signers(seed_a: &[u8; 32], seed_b: &[u8; 32], ops: &[usize]) -> Option<String> {
    let mut a = MsgSigner::from_seed(seed_a);
    let mut b = MsgSigner::from_seed(seed_b);
    let (mut ma, mut mb): (Vec<u8>, Vec<u8>) = (vec![], vec![]);
    for (step, &op) in ops.iter().enumerate() {
        match op {
            0 => {
                let c = canonical_message(7 + step * 5);
                a.update(&c);
                ma.extend_from_slice(&c);
            }
            1 => {
                let c = canonical_message(11 + step * 3);
                b.update(&c);
                mb.extend_from_slice(&c);
            }
            2 => {
                let got = a.sign();
                let want = crypto::sign(seed_a, &ma);
                if got[..] != want[..] {
                    return Some(format!("step {}: signer A signed something other than the {} bytes it was fed", step, ma.len()));
                }
                ma.clear();
            }
            3 => {
                let got = b.sign();
                let want = crypto::sign(seed_b, &mb);
                if got[..] != want[..] {
                    return Some(format!("step {}: signer B signed something other than the {} bytes it was fed", step, mb.len()));
                }
                mb.clear();
            }
            _ => {
                a = MsgSigner::from_seed(seed_a);
                ma.clear();
            }
        }
    }
    None
}

pub fn run(ctx: &Ctx) -> Result<(), String> {
    ctx.set_level("exploration");
    let seeds = seeds_subset(ctx.seed, ctx.tier.pick(20, 600));
    let evals = AtomicU64::new(0);
    let nontrivial = AtomicU64::new(0);
    let maxn = ctx.tier.pick(12usize, 14);
    let alphabet: Vec<Vec<u8>> = [0usize, 1, 64, 1024, 4096].iter().map(|&l| canonical_message(l)).collect();

    par_for(seeds.len(), 1, |si, _| {
        let (seed, _sampled) = seeds[si];
        let pk = crypto::public_key(&seed);
        let mut signer = MsgSigner::from_seed(&seed);
        if signer.public_key_bytes() != pk.to_vec() {
            ctx.violation("public-key-differs", "signer", "key", json!({"seed":hex(&seed),"got":hex(&signer.public_key_bytes()),"want":hex(&pk)}));
        }
        // (1) every message length 0..=4096, one chunk, on ONE long-lived signer (4097-message sequence)
        for len in 0..=4096usize {
            let m = canonical_message(len);
            let got = sign_chunks(&mut signer, &[&m]);
            check_sig(ctx, &seed, &m, got, json!({"kind":"length","len":len}));
            evals.fetch_add(1, Relaxed);
        }
        // (2) two-chunk splits around the 1024-byte initial buffer capacity
        for len in 1..=4096usize {
            let m = canonical_message(len);
            for p in [1usize, 1023, 1024, 1025, len - 1] {
                if p == 0 || p >= len {
                    continue;
                }
                if len > 1100 && len % 64 != 0 && p != 1024 {
                    continue; // thin out far-from-boundary lengths
                }
                let got = sign_chunks(&mut signer, &[&m[..p], &m[p..]]);
                check_sig(ctx, &seed, &m, got, json!({"kind":"split","len":len,"at":p}));
                evals.fetch_add(1, Relaxed);
                nontrivial.fetch_add(1, Relaxed);
            }
        }
        // (3) all 2^(n-1) chunkings of an n-byte message, n <= maxn
        for n in 1..=maxn {
            let m = canonical_message(n);
            for mask in 0u32..(1 << (n - 1)) {
                let mut chunks: Vec<&[u8]> = vec![];
                let mut start = 0;
                for i in 0..n - 1 {
                    if mask >> i & 1 == 1 {
                        chunks.push(&m[start..i + 1]);
                        start = i + 1;
                    }
                }
                chunks.push(&m[start..]);
                let got = sign_chunks(&mut signer, &chunks);
                check_sig(ctx, &seed, &m, got, json!({"kind":"chunking","n":n,"mask":mask}));
                evals.fetch_add(1, Relaxed);
                nontrivial.fetch_add(1, Relaxed);
            }
        }
        // (3b) very many update() calls for one message: byte by byte, and runs of empty chunks in front
        // of / inside a message (counts around 2^8 and 2^16)
        for n in [255usize, 256, 257, 258, 300, 511, 512, 513, 1000, 4096, 65535, 65536, 65537] {
            let m = canonical_message(n.min(4096));
            // n chunks in all: the message byte by byte, preceded by empty chunks when n > 4096
            let mut chunks: Vec<&[u8]> = vec![&m[..0]; n.saturating_sub(m.len())];
            chunks.extend(m.chunks(1));
            let got = sign_chunks(&mut signer, &chunks);
            check_sig(ctx, &seed, &m, got, json!({"kind":"many-chunks","chunks":n,"len":m.len(),"shape":"empty chunks then byte by byte"}));
            // a short message around a run of n empty chunks
            let short = canonical_message(40);
            let mut chunks: Vec<&[u8]> = vec![&short[..17]];
            chunks.extend(std::iter::repeat(&short[..0]).take(n));
            chunks.push(&short[17..]);
            let got = sign_chunks(&mut signer, &chunks);
            check_sig(ctx, &seed, &short, got, json!({"kind":"many-chunks","chunks":n + 2,"len":40,"shape":"17 bytes, empty chunks, 23 bytes"}));
            evals.fetch_add(2, Relaxed);
            nontrivial.fetch_add(2, Relaxed);
        }
        // (4) all message sequences of length <= 4 over the 5-message alphabet, each on a fresh signer
        for l in 1..=4u32 {
            for mut idx in 0..5usize.pow(l) {
                let mut s = MsgSigner::from_seed(&seed);
                let mut seq = vec![];
                for _ in 0..l {
                    seq.push(idx % 5);
                    idx /= 5;
                }
                for (k, &a) in seq.iter().enumerate() {
                    let m = &alphabet[a];
                    // alternate chunk shapes so that buffered remainders would show
                    let h = m.len() / 3;
                    let got = sign_chunks(&mut s, &[&m[..h], &m[h..]]);
                    check_sig(ctx, &seed, m, got, json!({"kind":"sequence","seq":seq,"position":k}));
                }
                evals.fetch_add(1, Relaxed);
                nontrivial.fetch_add(1, Relaxed);
            }
        }
        // (5) one 32-message sequence on one signer, mixed lengths
        {
            let mut s = MsgSigner::from_seed(&seed);
            for k in 0..32usize {
                let m = canonical_message((k * 337 + si * 13) % 4097);
                let got = sign_chunks(&mut s, &[&m]);
                check_sig(ctx, &seed, &m, got, json!({"kind":"sequence32","position":k}));
            }
            evals.fetch_add(1, Relaxed);
            nontrivial.fetch_add(1, Relaxed);
        }
    });

    // verifier: valid triples and every single-bit corruption of message, signature, key
    let vseeds = seeds_subset(ctx.seed, ctx.tier.pick(6, 40));
    let vlens: Vec<usize> = ctx.tier.pick(vec![0, 1, 31, 64], vec![0, 1, 2, 31, 32, 33, 63, 64]);
    let mut vcases = vec![];
    for (s, _) in &vseeds {
        for &l in &vlens {
            vcases.push((*s, l));
        }
    }
    par_for(vcases.len(), 1, |k, _| {
        let (seed, l) = vcases[k];
        let pk = crypto::public_key(&seed);
        let m = canonical_message(l);
        let sig = crypto::sign(&seed, &m);
        let cmp = |what: &str, pk: &[u8], m: &[u8], sig: &[u8], bit: i64| {
            evals.fetch_add(1, Relaxed);
            let want = crypto::verify(pk, m, sig);
            let got = subject_verify(pk, m, sig);
            if want != got {
                ctx.violation(if got { "accepts-invalid" } else { "rejects-valid" }, "verifier", what,
                    json!({"kind":"verify","pk":hex(pk),"msg":hex_trunc(m, 128),"sig":hex(sig),"bit":bit,"direct":want,"subject":got}));
            }
            want
        };
        if !cmp("valid", &pk, &m, &sig, -1) {
            panic!("harness: reference rejects its own signature");
        }
        nontrivial.fetch_add(1, Relaxed);
        for bit in 0..m.len() * 8 {
            let mut x = m.clone();
            x[bit / 8] ^= 1 << (bit % 8);
            cmp("message-bit", &pk, &x, &sig, bit as i64);
        }
        for bit in 0..512 {
            let mut x = sig;
            x[bit / 8] ^= 1 << (bit % 8);
            cmp("signature-bit", &pk, &m, &x, bit as i64);
        }
        for bit in 0..256 {
            let mut x = pk;
            x[bit / 8] ^= 1 << (bit % 8);
            cmp("key-bit", &x, &m, &sig, bit as i64);
        }
        nontrivial.fetch_add((m.len() * 8 + 768) as u64, Relaxed);
    });

    // verifier over every message length 0..=4096 and several chunkings: the valid triple, a bit
    // flipped in the first / middle / last byte of the message, the signature of every shorter
    // prefix at a 256-byte boundary (and of len-1), and a message extended by one byte
    {
        let lseeds = seeds_subset(ctx.seed, ctx.tier.pick(2, 8));
        let verify_chunked = |pk: &[u8], chunks: &[&[u8]], sig: &[u8]| -> bool {
            catch(|| {
                let mut v = MsgVerifier::new(pk);
                for c in chunks {
                    v.update(c);
                }
                v.verify(sig)
            })
            .unwrap_or(false)
        };
        par_for(lseeds.len() * 4097, 64, |k, _| {
            let (seed, _) = lseeds[k / 4097];
            let len = k % 4097;
            let pk = crypto::public_key(&seed);
            let m = canonical_message(len);
            let sig = crypto::sign(&seed, &m);
            let chunkings: Vec<Vec<&[u8]>> = {
                let mut v: Vec<Vec<&[u8]>> = vec![vec![&m[..]]];
                for p in [1usize, 1023, 1024, 1025] {
                    if p < len {
                        v.push(vec![&m[..p], &m[p..]]);
                    }
                }
                if len > 0 {
                    v.push(m.chunks(1000).collect());
                    v.push(m.chunks(7).collect());
                }
                // very many update() calls: byte by byte, and a run of empty chunks inside the message
                if [255usize, 256, 257, 258, 511, 512, 513, 1000, 4096].contains(&len) {
                    v.push(m.chunks(1).collect());
                    for empties in [256usize, 257, 65536, 65537] {
                        let mut c: Vec<&[u8]> = vec![&m[..100]];
                        c.extend(std::iter::repeat(&m[..0]).take(empties));
                        c.push(&m[100..]);
                        v.push(c);
                    }
                }
                v
            };
            for (ci, ch) in chunkings.iter().enumerate() {
                evals.fetch_add(1, Relaxed);
                if !verify_chunked(&pk, ch, &sig) {
                    ctx.violation("rejects-valid", "verifier", "length", json!({"kind":"verify-length","seed":hex(&seed),"len":len,"chunking":ci,"chunks":ch.len(),"chunk_lens":ch.iter().take(64).map(|c| c.len()).collect::<Vec<_>>(),"direct":true,"subject":false}));
                }
            }
            let mut wrong = |what: &str, msg: &[u8], sig: &[u8], extra: Value| {
                evals.fetch_add(1, Relaxed);
                nontrivial.fetch_add(1, Relaxed);
                let want = crypto::verify(&pk, msg, sig);
                for ch in [vec![msg], msg.chunks(1000).collect::<Vec<_>>()] {
                    let got = verify_chunked(&pk, &ch, sig);
                    if got != want {
                        ctx.violation(if got { "accepts-invalid" } else { "rejects-valid" }, "verifier", what, json!({"kind":"verify-length","seed":hex(&seed),"len":len,"case":what,"detail":extra,"direct":want,"subject":got}));
                        break;
                    }
                }
            };
            if len > 0 {
                for at in [0, len / 2, len - 1] {
                    let mut x = m.clone();
                    x[at] ^= 0x10;
                    wrong("message-bit", &x, &sig, json!({"byte": at}));
                }
                // the signature of a proper prefix must not verify the whole message
                let mut cuts: Vec<usize> = (0..len).step_by(256).collect();
                cuts.push(len - 1);
                for c in cuts {
                    let psig = crypto::sign(&seed, &m[..c]);
                    wrong("prefix-signature", &m, &psig, json!({"prefix_len": c}));
                }
            }
            let mut ext = m.clone();
            ext.push(0x5a);
            wrong("extended-message", &ext, &sig, json!({"extended_by": 1}));
        });
    }

    // one verifier object asked several questions: every sequence (length <= depth) over
    // {update(chunk), verify(signature of the message fed so far), verify(that signature with a bit
    // flipped), verify(signature of the message before the last update)} — each answer must equal
    // direct verification of the message fed so far, whatever was asked before
    let vdepth = ctx.tier.pick(4u32, 5);
    {
        let lseeds = seeds_subset(ctx.seed, ctx.tier.pick(2, 6));
        let nseq: usize = (1..=vdepth).map(|l| 4usize.pow(l)).sum();
        par_for(lseeds.len() * nseq, 64, |k, _| {
            let (seed, _) = lseeds[k / nseq];
            let mut idx = k % nseq;
            let mut l = 1u32;
            while idx >= 4usize.pow(l) {
                idx -= 4usize.pow(l);
                l += 1;
            }
            let ops: Vec<usize> = (0..l).map(|i| idx / 4usize.pow(i) % 4).collect();
            evals.fetch_add(1, Relaxed);
            nontrivial.fetch_add(1, Relaxed);
            let pk = crypto::public_key(&seed);
            let r = catch(|| {
                let mut v = MsgVerifier::new(&pk);
                let mut msg: Vec<u8> = vec![];
                let mut prev: Vec<u8> = vec![];
                let mut out = vec![];
                for (step, &op) in ops.iter().enumerate() {
                    match op {
                        0 => {
                            prev = msg.clone();
                            let chunk = canonical_message(5 + step * 3);
                            v.update(&chunk);
                            msg.extend_from_slice(&chunk);
                        }
                        _ => {
                            let mut sig = if op == 3 { crypto::sign(&seed, &prev) } else { crypto::sign(&seed, &msg) };
                            if op == 2 {
                                sig[7] ^= 0x20;
                            }
                            out.push((step, v.verify(&sig), crypto::verify(&pk, &msg, &sig)));
                        }
                    }
                }
                out
            });
            match r {
                Err(p) => ctx.violation("verifier-panic", "verifier", "object-reuse", json!({"kind":"verify-sequence","seed":hex(&seed),"ops":ops,"panic":p})),
                Ok(out) => {
                    for (step, got, want) in out {
                        if got != want {
                            ctx.violation(if got { "accepts-invalid" } else { "rejects-valid" }, "verifier", "object-reuse", json!({"kind":"verify-sequence","seed":hex(&seed),"ops":ops,"step":step,"direct":want,"subject":got,
                                "legend":"0 update(chunk), 1 verify(sig of message so far), 2 verify(that sig with a bit flipped), 3 verify(sig of the message before the last update)"}));
                            break;
                        }
                    }
                }
            }
        });
    }

    // two signer objects (same or different seeds) alive on one thread: every interleaving (length <=
    // depth) of {A.update, B.update, A.sign, B.sign, drop A and make a new one}. Each signature equals
    // the one-shot signature of what THAT object was fed since its last sign().
    let sdepth = ctx.tier.pick(5u32, 6);
    {
        let lseeds = seeds_subset(ctx.seed, ctx.tier.pick(2, 4));
        let nseq: usize = (1..=sdepth).map(|l| 5usize.pow(l)).sum();
        par_for(lseeds.len() * 2 * nseq, 64, |k, _| {
            let (seed_a, _) = lseeds[k / (2 * nseq)];
            let same_seed = (k / nseq) % 2 == 0;
            let seed_b = if same_seed { seed_a } else { let mut s = seed_a; s[0] ^= 0x5a; s };
            let mut idx = k % nseq;
            let mut l = 1u32;
            while idx >= 5usize.pow(l) {
                idx -= 5usize.pow(l);
                l += 1;
            }
            let ops: Vec<usize> = (0..l).map(|i| idx / 5usize.pow(i) % 5).collect();
            if !ops.iter().any(|o| *o == 2 || *o == 3) {
                return; // no signature produced: nothing to judge
            }
            evals.fetch_add(1, Relaxed);
            nontrivial.fetch_add(1, Relaxed);
            let r = catch(|| two_signers(&seed_a, &seed_b, &ops));
            match r {
                Err(p) => ctx.violation("signer-panic", "signer", "two-signers", json!({"kind":"two-signers","seed_a":hex(&seed_a),"seed_b":hex(&seed_b),"ops":ops,"panic":p})),
                Ok(Some(m)) => ctx.violation("signature-differs", "signer", if same_seed { "two-signers/same-seed" } else { "two-signers/different-seeds" }, json!({"kind":"two-signers","seed_a":hex(&seed_a),"seed_b":hex(&seed_b),"ops":ops,"message":m,
                    "legend":"0 A.update, 1 B.update, 2 A.sign, 3 B.sign, 4 drop A and create a new signer A"})),
                Ok(None) => {}
            }
        });
    }

    ctx.cov("evaluations", json!(evals.load(Relaxed)));
    ctx.cov("distinct_nontrivial", json!(nontrivial.load(Relaxed)));
    ctx.cov("two_signer_interleavings_depth", json!(sdepth));
    ctx.cov("verifier_object_sequences_depth", json!(vdepth));
    ctx.cov("seeds", json!(seeds.len()));
    ctx.cov("sampled_seeds", json!(seeds.iter().filter(|s| s.1).count()));
    ctx.cov("exhaustive", json!(true));
    ctx.cov("bound", json!({"message_length_max":4096,"chunkings_n_max":maxn,"sequence_len_max":4,"sequence_alphabet":5,"long_sequence":32}));
    ctx.cov("rule", json!(format!("per seed of a structured alphabet ({} seeds: zero, ff, RFC 8032 vectors, single-bit, single-byte-value, seeded random): every message length 0..=4096 signed back-to-back on one signer; two-chunk splits at 1/1023/1024/1025/len-1; all 2^(n-1) chunkings for n<={}; one message in 255..65537 update() calls (byte by byte, runs of empty chunks in front of and inside it); all sequences of length<=4 over 5 messages {{0,1,64,1024,4096 bytes}} on fresh signers; one 32-message sequence. Oracle: signature bytes == ed25519-dalek one-shot signature of that message alone. Verifier: valid triples and every single-bit corruption of message/signature/key vs direct verification (panic == reject); and for every message length 0..=4096 in 5-7 chunkings: the valid triple, a flipped bit in the first/middle/last byte, the signature of every 256-aligned proper prefix and of len-1, the message extended by one byte; and every sequence (length <= 4, thorough 5) of update/verify(valid)/verify(corrupted)/verify(signature of the earlier message) on ONE verifier object, every answer compared with direct verification of the message fed so far; every interleaving (length <= 5, thorough 6) of update/sign on TWO signer objects alive on one thread (same and different seeds; one may be dropped and re-created). Non-trivial = a case with >=2 chunks or >=2 messages on one signer, or a corrupted triple.", seeds.len(), maxn)));
    ctx.sample(json!({"kind":"chunking","n":5,"mask":"0b1010","chunks":[2,2,1]}));
    ctx.sample(json!({"kind":"sequence","seq":[4,0,2,1],"lengths":[4096,0,64,1]}));
    ctx.sample(json!({"kind":"verify","corruption":"signature-bit","bit":255}));
    ctx.assume("ed25519-dalek's curve arithmetic is correct (anchored by RFC 8032 section 7.1 vectors in rtref::selftest)");
    let _ = Tier::Quick;
    Ok(())
}

pub fn replay_case(c: &Value) -> Result<Option<String>, String> {
    if c["kind"] == "verify" {
        let pk = crypto::unhex(c["pk"].as_str().ok_or("pk")?);
        let msg = c["msg"].as_str().ok_or("msg")?;
        if msg.contains("..(") {
            return Err("truncated".into());
        }
        let m = crypto::unhex(msg);
        let sig = crypto::unhex(c["sig"].as_str().ok_or("sig")?);
        let want = crypto::verify(&pk, &m, &sig);
        let got = subject_verify(&pk, &m, &sig);
        return Ok(if want != got { Some(format!("direct={} subject={}", want, got)) } else { None });
    }
    if c["kind"] == "two-signers" {
        let sa: [u8; 32] = crypto::unhex(c["seed_a"].as_str().ok_or("seed_a")?).try_into().map_err(|_| "seed_a")?;
        let sb: [u8; 32] = crypto::unhex(c["seed_b"].as_str().ok_or("seed_b")?).try_into().map_err(|_| "seed_b")?;
        let ops: Vec<usize> = c["ops"].as_array().ok_or("ops")?.iter().map(|x| x.as_u64().unwrap_or(0) as usize).collect();
        return Ok(match catch(|| two_signers(&sa, &sb, &ops)) {
            Ok(x) => x,
            Err(p) => Some(format!("panic {}", p)),
        });
    }
    if c["kind"] == "verify-sequence" {
        let seed: [u8; 32] = crypto::unhex(c["seed"].as_str().ok_or("seed")?).try_into().map_err(|_| "seed")?;
        let ops: Vec<usize> = c["ops"].as_array().ok_or("ops")?.iter().map(|x| x.as_u64().unwrap_or(0) as usize).collect();
        let pk = crypto::public_key(&seed);
        let r = catch(|| {
            let mut v = MsgVerifier::new(&pk);
            let mut msg: Vec<u8> = vec![];
            let mut prev: Vec<u8> = vec![];
            for (step, &op) in ops.iter().enumerate() {
                if op == 0 {
                    prev = msg.clone();
                    let chunk = canonical_message(5 + step * 3);
                    v.update(&chunk);
                    msg.extend_from_slice(&chunk);
                } else {
                    let mut sig = if op == 3 { crypto::sign(&seed, &prev) } else { crypto::sign(&seed, &msg) };
                    if op == 2 {
                        sig[7] ^= 0x20;
                    }
                    let (got, want) = (v.verify(&sig), crypto::verify(&pk, &msg, &sig));
                    if got != want {
                        return Some(format!("step {}: direct={} subject={}", step, want, got));
                    }
                }
            }
            None
        });
        return Ok(match r {
            Ok(x) => x,
            Err(p) => Some(format!("panic {}", p)),
        });
    }
    if c["kind"] == "verify-length" {
        let seed: [u8; 32] = crypto::unhex(c["seed"].as_str().ok_or("seed")?).try_into().map_err(|_| "seed")?;
        let len = c["len"].as_u64().ok_or("len")? as usize;
        let pk = crypto::public_key(&seed);
        let mut m = canonical_message(len);
        let mut sig = crypto::sign(&seed, &m);
        match c["case"].as_str() {
            Some("message-bit") => m[c["detail"]["byte"].as_u64().unwrap_or(0) as usize] ^= 0x10,
            Some("prefix-signature") => sig = crypto::sign(&seed, &m[..c["detail"]["prefix_len"].as_u64().unwrap_or(0) as usize]),
            Some("extended-message") => m.push(0x5a),
            _ => {}
        }
        let want = crypto::verify(&pk, &m, &sig);
        for chunk in [usize::MAX, 1000, 7, 1024] {
            let got = catch(|| {
                let mut v = MsgVerifier::new(&pk);
                for ch in m.chunks(chunk.min(m.len().max(1))) {
                    v.update(ch);
                }
                v.verify(&sig)
            })
            .unwrap_or(false);
            if got != want {
                return Ok(Some(format!("direct={} subject={} (chunks of {})", want, got, chunk)));
            }
        }
        return Ok(None);
    }
    let seed: [u8; 32] = crypto::unhex(c["seed"].as_str().ok_or("seed")?).try_into().map_err(|_| "seed")?;
    let case = &c["case"];
    match case["kind"].as_str() {
        Some("length") | Some("split") => {
            let len = case["len"].as_u64().ok_or("len")? as usize;
            let m = canonical_message(len);
            let mut s = MsgSigner::from_seed(&seed);
            // carry-over shows only after an earlier message: sign the previous length first
            if len > 0 {
                let _ = sign_chunks(&mut s, &[&canonical_message(len - 1)]);
            }
            let at = case["at"].as_u64().unwrap_or(0) as usize;
            let got = sign_chunks(&mut s, &[&m[..at], &m[at..]]);
            let want = crypto::sign(&seed, &m).to_vec();
            Ok(if got.as_ref().ok() != Some(&want) { Some(format!("got {:?}", got.map(|g| hex(&g)))) } else { None })
        }
        _ => Err("replay of this case kind: re-run the check".into()),
    }
}
