//! C05 (codec round-trip / canonical / agrees with reference) and C06 (decode+print never
//! panics, values are exactly the bytes after the header) — E-SEQ over shared input spaces.

use crate::ev::{Ctx, Tier};
use crate::util::{catch, hex_trunc, par_for};
use roughenough::{RtMessage, Tag};
use rtref::codec::{self, Msg};
use serde_json::{json, Value};
use std::collections::BTreeMap;
use std::sync::atomic::{AtomicU64, Ordering::Relaxed};
use std::sync::Mutex;

#[derive(Clone, Copy, PartialEq, Eq)]
pub enum Which {
    C05,
    C06,
}

/// Word alphabet for the bounded-exhaustive small scope (26 words).
pub fn sigma() -> Vec<u32> {
    let mut s: Vec<u32> = vec![
        0, 1, 2, 3, 4, 8, 12, 16, 5, 0x7FFF_FFFC, 0x8000_0000, 0xFFFF_FFFC, 0xFFFF_FFFF, 19, 1024, 1025,
    ];
    for t in ["SIG", "NONC", "DELE", "CERT", "PAD"] {
        s.push(u32::from_le_bytes(codec::tag(t)));
    }
    s.push(u32::from_le_bytes(*b"XXXX")); // unknown tag
    s.push(u32::from_le_bytes(*b"NONB")); // NONC with one byte changed
    // near-spellings of known tags: other padding byte, other case
    s.push(u32::from_le_bytes(*b"PAD\x00"));
    s.push(u32::from_le_bytes(*b"SIG\xff"));
    s.push(u32::from_le_bytes(*b"nonc"));
    s
}

pub struct Stats {
    pub evals: AtomicU64,
    pub accepted: AtomicU64,
    pub classes: Mutex<BTreeMap<String, u64>>,
    pub nontrivial: AtomicU64,
}

impl Stats {
    fn new() -> Stats {
        Stats { evals: AtomicU64::new(0), accepted: AtomicU64::new(0), classes: Mutex::new(BTreeMap::new()), nontrivial: AtomicU64::new(0) }
    }
}

fn subject_fields(m: &RtMessage) -> Vec<([u8; 4], Vec<u8>)> {
    m.tags()
        .iter()
        .zip(m.values().iter())
        .map(|(t, v)| {
            let mut w = [0u8; 4];
            w.copy_from_slice(t.wire_value());
            (w, v.clone())
        })
        .collect()
}

/// Outcome class of one input (for the vacuity histogram) and violations found.
/// Returns (class, Vec<(property, clause, message)>)
pub fn judge(input: &[u8], with_display: bool) -> (&'static str, Vec<(Which, &'static str, String)>) {
    let mut out = vec![];
    let r = codec::decode(input);
    let s = catch(|| RtMessage::from_bytes(input));
    let s = match s {
        Err(p) => {
            // neither an accept nor a reject: violates C06 (never panics) and C05 (decides accept/reject
            // exactly as the reference does)
            out.push((Which::C06, "decode-panic", p.clone()));
            out.push((Which::C05, "decode-panic", p));
            return ("panic", out);
        }
        Ok(s) => s,
    };
    let class: &'static str = match (&r, &s) {
        (Ok(rm), Ok(sm)) => {
            let sf = subject_fields(sm);
            if sf != rm.fields {
                out.push((Which::C05, "content-differs", format!("reference {:?} subject {:?}", summarize(&rm.fields), summarize(&sf))));
            }
            if !rm.fields.is_empty() {
                // canonical: re-encodes to the identical bytes
                match catch(|| sm.encode()) {
                    Ok(Ok(b)) => {
                        if b != input {
                            out.push((Which::C05, "reencode-differs", format!("re-encoded {}", hex_trunc(&b, 64))));
                        }
                    }
                    Ok(Err(e)) => out.push((Which::C05, "reencode-error", format!("{:?}", e))),
                    Err(p) => out.push((Which::C05, "reencode-panic", p)),
                }
                // C06: values concatenated == bytes after the header
                let hl = codec::header_len(rm.fields.len());
                let cat: Vec<u8> = sm.values().iter().flat_map(|v| v.iter().copied()).collect();
                if cat != input[hl.min(input.len())..] {
                    out.push((Which::C06, "values-not-input-bytes", format!("concat {}", hex_trunc(&cat, 64))));
                }
            }
            if rm.fields.is_empty() { "accept-empty" } else { "accept" }
        }
        (Err(_), Err(_)) => {
            if input.len() < 4 || input.len() % 4 != 0 { "reject-guard" } else { "reject" }
        }
        (Ok(rm), Err(e)) => {
            out.push((Which::C05, "rejects-valid", format!("reference accepts {:?}, subject says {:?}", summarize(&rm.fields), e)));
            "disagree"
        }
        (Err(e), Ok(sm)) => {
            out.push((Which::C05, "accepts-invalid", format!("reference says {:?}, subject accepts {:?}", e, summarize(&subject_fields(sm)))));
            // C06 (independent of whether the message should have been accepted): the values of an
            // accepted non-empty message are exactly the input bytes that follow its header
            let nf = sm.tags().len();
            if nf > 0 {
                let hl = codec::header_len(nf);
                let cat: Vec<u8> = sm.values().iter().flat_map(|v| v.iter().copied()).collect();
                if cat != input[hl.min(input.len())..] {
                    out.push((Which::C06, "values-not-input-bytes", format!("accepted {} fields whose values ({} bytes) are not the {} input bytes after the header", nf, cat.len(), input.len().saturating_sub(hl))));
                }
            }
            "disagree"
        }
    };
    if with_display {
        if let Ok(sm) = &s {
            match catch(|| format!("{}", sm)) {
                Ok(_) => {}
                Err(p) => out.push((Which::C06, "display-panic", p)),
            }
        }
    }
    (class, out)
}

fn summarize(f: &[([u8; 4], Vec<u8>)]) -> Vec<String> {
    f.iter().map(|(t, v)| format!("{}({})", codec::tag_name(t), v.len())).collect()
}

/// Site = which nested tag made Display panic / which guard disagreed (for known-finding matching).
fn site_for(clause: &str, input: &[u8]) -> String {
    if clause == "display-panic" {
        // find the first nested tag whose value does not decode
        if let Ok(m) = codec::decode(input) {
            return nested_site(&m, 0);
        }
    }
    "codec".to_string()
}

fn nested_site(m: &Msg, depth: usize) -> String {
    for (t, v) in &m.fields {
        let n = codec::tag_name(t);
        if n == "CERT" || n == "DELE" || n == "SREP" {
            match codec::decode(v) {
                Err(_) => return "nested-value-not-a-message".to_string(),
                Ok(inner) => {
                    let s = nested_site(&inner, depth + 1);
                    if s != "codec" {
                        return s;
                    }
                }
            }
        }
    }
    "codec".to_string()
}

fn record(ctx: &Ctx, which: Which, st: &Stats, family: &str, input: &[u8]) {
    st.evals.fetch_add(1, Relaxed);
    let (class, vs) = judge(input, which == Which::C06);
    if class == "accept" {
        st.accepted.fetch_add(1, Relaxed);
    }
    if class != "reject-guard" {
        st.nontrivial.fetch_add(1, Relaxed);
    }
    {
        // cheap histogram: thread contention is acceptable at this granularity only for rare classes
        if class != "reject" && class != "reject-guard" {
            *st.classes.lock().unwrap().entry(format!("{}:{}", family, class)).or_insert(0) += 1;
        }
    }
    for (w, clause, msg) in vs {
        if w == which {
            let site = site_for(clause, input);
            ctx.violation(clause, &site, family, json!({"kind":"bytes","family":family,"len":input.len(),"hex":hex_trunc(input, 4096),"log_level":format!("{}", log::max_level()),"message":msg}));
        }
    }
}

fn words_to_bytes(ws: &[u32]) -> Vec<u8> {
    ws.iter().flat_map(|w| w.to_le_bytes()).collect()
}

/// (b) all word sequences of length 1..=l over sigma
fn family_words(ctx: &Ctx, which: Which, st: &Stats, l: usize) -> u64 {
    let sg = sigma();
    let k = sg.len();
    let mut total = 0u64;
    for len in 1..=l {
        let n = k.pow(len as u32);
        total += n as u64;
        par_for(n, 8192, |mut idx, _| {
            let mut ws = [0u32; 8];
            for i in 0..len {
                ws[i] = sg[idx % k];
                idx /= k;
            }
            let b = words_to_bytes(&ws[..len]);
            record(ctx, which, st, "words", &b);
        });
    }
    total
}

/// non-multiple-of-4 and tiny lengths over a byte alphabet
fn family_short_bytes(ctx: &Ctx, which: Which, st: &Stats, maxlen: usize) -> u64 {
    let al = [0u8, 1, 4, 0xff];
    let mut total = 0;
    for len in 0..=maxlen {
        let n = 4usize.pow(len as u32);
        total += n as u64;
        par_for(n, 8192, |mut idx, _| {
            let mut b = Vec::with_capacity(len);
            for _ in 0..len {
                b.push(al[idx % 4]);
                idx /= 4;
            }
            record(ctx, which, st, "short-bytes", &b);
        });
    }
    total
}

/// corpus of valid encodings used as deviation bases
pub fn corpus() -> Vec<(&'static str, Vec<u8>)> {
    use rtref::responder::*;
    use rtref::Version::*;
    let id = Identity::new(3, 9);
    let n64: Vec<u8> = (0..64u8).collect();
    let n32: Vec<u8> = (100..132u8).collect();
    let creq = classic_request(&n64, 1024);
    let ireq = ietf_request(&rtref::proto::VER_IETF13, Some(&[7u8; 32]), &n32, 1024);
    let creq2 = classic_request(&[1u8; 64], 1024);
    let creq3 = classic_request(&[2u8; 64], 1024);
    let c1 = honest_parts(Classic, &id, &[creq.clone()], 0, Stamp::at(Classic, 1_700_000_000, 5));
    let c3 = honest_parts(Classic, &id, &[creq.clone(), creq2, creq3], 2, Stamp::at(Classic, 1_700_000_000, 5));
    let i1 = honest_parts(Ietf13, &id, &[ireq.clone()], 0, Stamp::at(Ietf13, 1_700_000_000, 0));
    let all18 = Msg { fields: codec::known_tags().into_iter().enumerate().map(|(i, t)| (t, vec![i as u8; 4 * (i % 3)])).collect() };
    let big = Msg::from_pairs(&[("NONC", vec![1, 2, 3, 4]), ("PAD", vec![0xEE; 65536 - 16 - 4])]);
    vec![
        ("classic-request", creq),
        ("ietf-request-payload", ireq[12..].to_vec()),
        ("classic-reply-n1", c1.payload()),
        ("classic-reply-n3", c3.payload()),
        ("ietf-reply-payload", i1.payload()),
        ("srep", i1.srep_bytes()),
        ("cert", c1.cert_bytes()),
        ("dele", c1.dele_bytes()),
        ("all-18-tags", all18.encode()),
        ("two-tags-64KiB", big.encode()),
        ("one-tag", Msg::from_pairs(&[("CERT", c1.cert_bytes())]).encode()),
    ]
}

/// (c) deviations from valid encodings: every header word replaced (1 deviation), all pairs (2)
fn family_deviations(ctx: &Ctx, which: Which, st: &Stats, two: bool) -> u64 {
    let sg = sigma();
    let mut total = 0u64;
    for (name, base) in corpus() {
        let m = codec::decode(&base).expect("corpus entry must be valid");
        let n = m.fields.len();
        let hw = codec::header_len(n) / 4; // number of header words
        let subs = |orig: u32| -> Vec<u32> {
            let mut v = sg.clone();
            v.extend([orig.wrapping_add(4), orig.wrapping_sub(4), orig.wrapping_add(1), orig.wrapping_sub(1)]);
            v
        };
        // 0 deviations: the base itself
        record(ctx, which, st, "deviation-0", &base);
        total += 1;
        // 1 deviation
        let mut cases: Vec<(usize, u32)> = vec![];
        for w in 0..hw {
            let orig = u32::from_le_bytes(base[4 * w..4 * w + 4].try_into().unwrap());
            for s in subs(orig) {
                cases.push((w, s));
            }
        }
        // every byte of every tag word replaced by 00 / ff / case-flipped / +1 (near-spellings)
        let tag_base = if n == 0 { 0 } else { 1 + (n - 1) };
        for w in tag_base..hw {
            let orig = u32::from_le_bytes(base[4 * w..4 * w + 4].try_into().unwrap()).to_le_bytes();
            for b in 0..4 {
                for v in [0x00u8, 0xff, orig[b] ^ 0x20, orig[b].wrapping_add(1)] {
                    if v != orig[b] {
                        let mut t = orig;
                        t[b] = v;
                        cases.push((w, u32::from_le_bytes(t)));
                    }
                }
            }
        }
        total += cases.len() as u64;
        par_for(cases.len(), 16, |k, _| {
            let (w, s) = cases[k];
            let mut b = base.clone();
            b[4 * w..4 * w + 4].copy_from_slice(&s.to_le_bytes());
            record(ctx, which, st, "deviation-1", &b);
        });
        // 2 deviations (skip the 64 KiB base: each case copies 64 KiB; covered at 1 deviation)
        if two && base.len() <= 4096 {
            let mut pairs = vec![];
            for a in 0..hw {
                for b in a + 1..hw {
                    pairs.push((a, b));
                }
            }
            let per = (sg.len() + 4) * (sg.len() + 4);
            total += (pairs.len() * per) as u64;
            par_for(pairs.len(), 1, |k, _| {
                let (wa, wb) = pairs[k];
                let oa = u32::from_le_bytes(base[4 * wa..4 * wa + 4].try_into().unwrap());
                let ob = u32::from_le_bytes(base[4 * wb..4 * wb + 4].try_into().unwrap());
                let mut b = base.clone();
                for sa in subs(oa) {
                    b[4 * wa..4 * wa + 4].copy_from_slice(&sa.to_le_bytes());
                    for sb in subs(ob) {
                        b[4 * wb..4 * wb + 4].copy_from_slice(&sb.to_le_bytes());
                        record(ctx, which, st, "deviation-2", &b);
                    }
                }
            });
        }
        let _ = name;
    }
    total
}

/// truncations and extensions of the corpus (every length quick: 4-byte steps; thorough: every byte)
/// Every offset word of the multi-tag corpus messages swept over every aligned value from 0 to a
/// little past the whole message length (the window between the value-area length and the message
/// length is where a bounds check against the wrong length goes wrong), and every PAIR of offset
/// words over a coarse grid (decreasing, equal, past-the-end combinations).
fn family_offset_grids(ctx: &Ctx, which: Which, st: &Stats) -> u64 {
    let mut n = 0u64;
    for (name, base) in corpus() {
        if base.len() > 4096 {
            continue;
        }
        let cnt = if base.len() >= 4 { u32::from_le_bytes([base[0], base[1], base[2], base[3]]) as usize } else { 0 };
        if cnt < 2 || cnt > 18 || base.len() < codec::header_len(cnt) {
            continue;
        }
        let noff = cnt - 1;
        let len = base.len();
        let area = len - codec::header_len(cnt);
        let fam = format!("offset-grid:{}", name);
        // every value (aligned or not) for messages up to 1.5 KiB, every aligned value beyond
        let step = if len <= 1536 { 1 } else { 4 };
        for w in 0..noff {
            let mut v = 0usize;
            while v <= len + 16 {
                let mut b = base.clone();
                b[4 + 4 * w..8 + 4 * w].copy_from_slice(&(v as u32).to_le_bytes());
                record(ctx, which, st, &fam, &b);
                n += 1;
                v += step;
            }
        }
        // pairs: aligned landmarks and misaligned values (pairs whose misalignments cancel included)
        let grid: Vec<usize> = {
            let mut g = vec![0, 1, 2, 3, 4, 5, 6, 7, 8, 12, 32, 34, 64, area.saturating_sub(4), area.saturating_sub(2), area.saturating_sub(1), area, area + 1, area + 2, area + 4, area + 8, len.saturating_sub(4), len, len + 4];
            g.sort();
            g.dedup();
            g
        };
        for w1 in 0..noff {
            for w2 in w1 + 1..noff {
                for &a in &grid {
                    for &c in &grid {
                        let mut b = base.clone();
                        b[4 + 4 * w1..8 + 4 * w1].copy_from_slice(&(a as u32).to_le_bytes());
                        b[4 + 4 * w2..8 + 4 * w2].copy_from_slice(&(c as u32).to_le_bytes());
                        record(ctx, which, st, &fam, &b);
                        n += 1;
                    }
                }
            }
        }
    }
    n
}

/// Count words beyond the number of known tags (the decoder cannot know that before it has read
/// the tag words): for each count c the input holds w words after it, filled so that the would-be
/// offset words are all acceptable (zero / ascending multiples of 4) and the would-be tag words are
/// zero, one known tag repeated, or ascending known tags cycling.
fn family_big_counts(ctx: &Ctx, which: Which, st: &Stats) -> u64 {
    let mut n = 0u64;
    let known: Vec<u32> = codec::known_tags().iter().map(|t| u32::from_le_bytes(*t)).collect();
    let counts: Vec<usize> = (2..=40).chain([63, 64, 65, 127, 128, 129, 255, 256, 257, 1023, 1024, 1025, 4096]).collect();
    for &c in &counts {
        let mut ws: Vec<usize> = vec![c.saturating_sub(2), c - 1, c, c + 1, 2 * c - 2, 2 * c - 1, 2 * c, 2 * c + 3];
        ws.retain(|w| *w <= 9000);
        ws.sort();
        ws.dedup();
        for &w in &ws {
            for fill in 0..4 {
                let mut words: Vec<u32> = vec![c as u32];
                for i in 0..w {
                    let is_offset = i < c - 1;
                    words.push(match (fill, is_offset) {
                        (0, _) => 0,
                        (1, true) => 0,
                        (1, false) => known[0],
                        (2, true) => 0,
                        (2, false) => known[(i - (c - 1)) % known.len()],
                        (_, true) => (4 * i) as u32,
                        (_, false) => known[(i - (c - 1)) % known.len()],
                    });
                }
                record(ctx, which, st, "big-count", &words_to_bytes(&words));
                n += 1;
            }
        }
    }
    n
}

fn family_truncations(ctx: &Ctx, which: Which, st: &Stats, every_byte: bool) -> u64 {
    let mut total = 0;
    for (_, base) in corpus() {
        if base.len() > 4096 {
            continue;
        }
        let step = if every_byte { 1 } else { 4 };
        let lens: Vec<usize> = (0..=base.len() + 16).step_by(step).collect();
        total += lens.len() as u64;
        par_for(lens.len(), 16, |k, _| {
            let l = lens[k];
            let mut b = base.clone();
            b.resize(l, 0xAB);
            record(ctx, which, st, "truncation", &b);
        });
    }
    total
}

/// C05 (a): API -> bytes -> API over all 2^18 tag subsets x value-length patterns
fn family_api(ctx: &Ctx, st: &Stats, with_big: bool) -> u64 {
    let tags = codec::known_tags();
    let subject_tags: Vec<Tag> = tags
        .iter()
        .map(|w| Tag::from_wire(w).unwrap_or_else(|_| panic!("subject does not know documented tag {:?}", w)))
        .collect();
    let patterns: &[&str] = if with_big { &["zero", "four", "ascending", "one-big"] } else { &["zero", "four", "ascending"] };
    let total = (1u64 << 18) * patterns.len() as u64;
    for (pi, pat) in patterns.iter().enumerate() {
        par_for(1 << 18, 1024, |mask, _| {
            st.evals.fetch_add(1, Relaxed);
            let picked: Vec<usize> = (0..18).filter(|i| mask >> i & 1 == 1).collect();
            if *pat == "one-big" && (picked.len() > 3 || picked.is_empty()) {
                return; // big values only on small messages (64 KiB copies)
            }
            let vals: Vec<Vec<u8>> = picked
                .iter()
                .enumerate()
                .map(|(k, &ti)| {
                    let len = match *pat {
                        "zero" => 0,
                        "four" => 4,
                        "ascending" => 4 * k,
                        _ => if k == picked.len() / 2 { 65536 } else { 4 },
                    };
                    vec![(ti as u8) ^ 0x5a; len]
                })
                .collect();
            let r = catch(|| {
                let mut m = RtMessage::with_capacity(picked.len() as u32);
                for (k, &ti) in picked.iter().enumerate() {
                    m.add_field(subject_tags[ti], &vals[k]).map_err(|e| format!("add_field({}) in ascending order refused: {:?}", codec::tag_name(&tags[ti]), e))?;
                }
                let enc = m.encode().map_err(|e| format!("encode: {:?}", e))?;
                let framed = m.encode_framed().map_err(|e| format!("encode_framed: {:?}", e))?;
                Ok::<_, String>((enc, framed))
            });
            let want: Vec<([u8; 4], Vec<u8>)> = picked.iter().enumerate().map(|(k, &ti)| (tags[ti], vals[k].clone())).collect();
            let detail = |msg: String| json!({"kind":"api","mask":mask,"pattern":pat,"message":msg});
            match r {
                Err(p) => ctx.violation("api-panic", "codec", "api", detail(p)),
                Ok(Err(e)) => ctx.violation("api-error", "codec", "api", detail(e)),
                Ok(Ok((enc, framed))) => {
                    let refenc = codec::encode(&Msg { fields: want.clone() });
                    if enc != refenc {
                        ctx.violation("encode-differs-from-reference", "codec", "api", detail(format!("subject {} reference {}", hex_trunc(&enc, 64), hex_trunc(&refenc, 64))));
                    }
                    if framed != codec::frame(&enc) {
                        ctx.violation("framing", "codec", "api", detail(format!("framed {}", hex_trunc(&framed, 32))));
                    }
                    match catch(|| RtMessage::from_bytes(&enc)) {
                        Ok(Ok(back)) => {
                            if subject_fields(&back) != want {
                                ctx.violation("roundtrip-differs", "codec", "api", detail(format!("{:?}", summarize(&subject_fields(&back)))));
                            }
                        }
                        Ok(Err(e)) => ctx.violation("roundtrip-rejected", "codec", "api", detail(format!("{:?}", e))),
                        Err(p) => ctx.violation("api-panic", "codec", "api", detail(p)),
                    }
                    if !picked.is_empty() {
                        st.nontrivial.fetch_add(1, Relaxed);
                    }
                }
            }
        });
        let _ = pi;
    }
    // all 18^2 ordered tag pairs through add_field: accepted iff strictly ascending numeric wire order
    for a in 0..18 {
        for b in 0..18 {
            st.evals.fetch_add(1, Relaxed);
            let mut m = RtMessage::with_capacity(2);
            m.add_field(subject_tags[a], &[0; 4]).unwrap();
            let ok = m.add_field(subject_tags[b], &[0; 4]).is_ok();
            let want = codec::tag_num(&tags[a]) < codec::tag_num(&tags[b]);
            if ok != want {
                ctx.violation("add-field-order", "codec", "api", json!({"kind":"pair","a":codec::tag_name(&tags[a]),"b":codec::tag_name(&tags[b]),"accepted":ok}));
            }
            // a refused add_field leaves the message as it was: same fields, same encoding, and the
            // message can still be extended and round-trips
            if !ok {
                let only_a = codec::encode(&Msg { fields: vec![(tags[a], vec![0; 4])] });
                let r = catch(|| (m.num_fields(), subject_fields(&m), m.encode()));
                match r {
                    Ok((n, f, Ok(enc))) => {
                        if n != 1 || f != vec![(tags[a], vec![0u8; 4])] || enc != only_a {
                            ctx.violation("refused-add-field-changes-message", "codec", "api", json!({"kind":"pair","a":codec::tag_name(&tags[a]),"b":codec::tag_name(&tags[b]),"num_fields":n,"fields":summarize(&f),"encoded":hex_trunc(&enc, 64)}));
                        } else if RtMessage::from_bytes(&enc).is_err() {
                            ctx.violation("roundtrip-rejected", "codec", "api", json!({"kind":"pair","a":codec::tag_name(&tags[a]),"b":codec::tag_name(&tags[b])}));
                        }
                    }
                    Ok((_, _, Err(e))) => ctx.violation("api-error", "codec", "api", json!({"kind":"pair","a":codec::tag_name(&tags[a]),"b":codec::tag_name(&tags[b]),"message":format!("encode after a refused add_field: {:?}", e)})),
                    Err(p) => ctx.violation("api-panic", "codec", "api", json!({"kind":"pair","a":codec::tag_name(&tags[a]),"b":codec::tag_name(&tags[b]),"panic":p})),
                }
            }
        }
    }
    total + 324
}

/// C06: every length 0..=65536 for four fill patterns
fn family_lengths(ctx: &Ctx, st: &Stats, all: bool) -> u64 {
    let lens: Vec<usize> = if all { (0..=65536).collect() } else { (0..=4096).chain((4100..=65536).step_by(4)).collect() };
    let hdr2: Vec<u8> = words_to_bytes(&[2, 4, u32::from_le_bytes(codec::tag("NONC")), u32::from_le_bytes(codec::tag("PAD"))]);
    let hdr_cert: Vec<u8> = words_to_bytes(&[1, u32::from_le_bytes(codec::tag("CERT"))]);
    let n = lens.len() * 4;
    par_for(n, 64, |k, _| {
        let l = lens[k / 4];
        let b: Vec<u8> = match k % 4 {
            0 => vec![0u8; l],
            1 => vec![0xffu8; l],
            2 => {
                let mut b = hdr2.clone();
                b.resize(l.max(0), 0x33);
                b.truncate(l);
                b
            }
            _ => {
                // one-tag CERT message whose value is itself a one-tag DELE message with filler value
                let mut b = hdr_cert.clone();
                b.extend_from_slice(&words_to_bytes(&[1, u32::from_le_bytes(codec::tag("DELE"))]));
                b.resize(l, 0);
                b.truncate(l);
                b
            }
        };
        record(ctx, Which::C06, st, "lengths", &b);
    });
    n as u64
}

/// build a nesting chain of the given depth: tag_k( tag_k+1( ... inner ) )
pub fn nested_chain(depth: usize, variant: &str) -> Vec<u8> {
    let (cycle, inner): (Vec<&str>, Vec<u8>) = match variant {
        "cert-valid" => (vec!["CERT"], vec![0, 0, 0, 0]),
        "cert-invalid" => (vec!["CERT"], vec![5, 0, 0, 0]),
        "mixed-valid" => (vec!["SREP", "DELE", "CERT"], vec![0, 0, 0, 0]),
        "mixed-invalid" => (vec!["SREP", "DELE", "CERT"], vec![0xff, 0xff, 0xff, 0xff]),
        _ => panic!("variant"),
    };
    let mut b = inner;
    for k in (0..depth).rev() {
        let mut m = Vec::with_capacity(b.len() + 8);
        m.extend_from_slice(&1u32.to_le_bytes());
        m.extend_from_slice(&codec::tag(cycle[k % cycle.len()]));
        m.extend_from_slice(&b);
        b = m;
    }
    b
}

pub const DEPTH_VARIANTS: [&str; 4] = ["cert-valid", "cert-invalid", "mixed-valid", "mixed-invalid"];

/// child-process entry: decode and format one nesting chain on a thread with an 8 MiB stack
/// (the platform's default main-thread stack). prints "ok" / "rejected" / "panic: .."
pub fn depth_child(depth: usize, variant: &str) -> ! {
    let b = nested_chain(depth, variant);
    let h = std::thread::Builder::new().name("depth".into()).stack_size(8 << 20).spawn(move || {
        let r = catch(|| match RtMessage::from_bytes(&b) {
            Ok(m) => {
                let s = format!("{}", m);
                format!("ok {}", s.len())
            }
            Err(e) => format!("rejected {:?}", e),
        });
        match r {
            Ok(s) => s,
            Err(p) => format!("panic: {}", p),
        }
    });
    let s = h.unwrap().join().unwrap_or_else(|_| "panic: thread".into());
    println!("{}", s);
    std::process::exit(0);
}

fn family_depth(ctx: &Ctx, st: &Stats, depths: &[usize], cap_s: u64) -> (u64, u64) {
    let exe = std::env::current_exe().unwrap();
    let mut cases = vec![];
    for &d in depths {
        for v in DEPTH_VARIANTS {
            cases.push((d, v));
        }
    }
    let caps = AtomicU64::new(0);
    par_for(cases.len(), 1, |k, _| {
        let (d, v) = cases[k];
        st.evals.fetch_add(1, Relaxed);
        st.nontrivial.fetch_add(1, Relaxed);
        let mut child = std::process::Command::new(&exe)
            .args(["c06-depth", &d.to_string(), v])
            .stdout(std::process::Stdio::piped())
            .stderr(std::process::Stdio::null())
            .spawn()
            .expect("spawn depth child");
        let start = std::time::Instant::now();
        let status = loop {
            match child.try_wait().expect("wait") {
                Some(s) => break Some(s),
                None => {
                    if start.elapsed().as_secs() >= cap_s {
                        let _ = child.kill();
                        let _ = child.wait();
                        break None;
                    }
                    std::thread::sleep(std::time::Duration::from_millis(5));
                }
            }
        };
        let mut outs = String::new();
        if let Some(mut o) = child.stdout.take() {
            use std::io::Read;
            let _ = o.read_to_string(&mut outs);
        }
        let site = if v.ends_with("invalid") { "nested-value-not-a-message" } else { "codec" };
        match status {
            None => {
                caps.fetch_add(1, Relaxed);
            }
            Some(s) if !s.success() => {
                ctx.violation("display-abort", site, "depth", json!({"kind":"depth","depth":d,"variant":v,"status":format!("{:?}", s)}));
            }
            Some(_) => {
                if outs.starts_with("panic") {
                    let clause = if outs.contains("decode") { "decode-panic" } else { "display-panic" };
                    ctx.violation(clause, site, "depth", json!({"kind":"depth","depth":d,"variant":v,"message":outs.trim()}));
                } else if outs.starts_with("rejected") {
                    // a valid nesting chain must decode (outer layers are plain one-tag messages)
                    ctx.violation("rejects-valid-chain", "codec", "depth", json!({"kind":"depth","depth":d,"variant":v,"message":outs.trim()}));
                }
                *st.classes.lock().unwrap().entry(format!("depth:{}", outs.split_whitespace().next().unwrap_or("?"))).or_insert(0) += 1;
            }
        }
    });
    (cases.len() as u64, caps.load(Relaxed))
}

pub fn run(ctx: &Ctx, which: Which) -> Result<(), String> {
    ctx.set_level("exploration");
    let st = Stats::new();
    let l = ctx.tier.pick(5, 6);
    let mut fam = serde_json::Map::new();
    crate::inproc::init();
    // determinism self-test: the same input judged twice gives the same class
    {
        let b = words_to_bytes(&[2, 4, u32::from_le_bytes(codec::tag("NONC")), u32::from_le_bytes(codec::tag("PAD")), 7, 8]);
        let a1 = judge(&b, true);
        let a2 = judge(&b, true);
        if a1.0 != a2.0 || a1.0 != "accept" {
            return Err(format!("self-test: valid two-tag message judged {} / {}", a1.0, a2.0));
        }
    }
    // Decoding and formatting evaluate log statements only when a logger is installed and the level
    // enables them (the server and kms binaries install one at Info): every family runs with the
    // capturing logger at Trace (all log arguments are formatted) and with logging off. Thorough:
    // the full bounds at Trace, the quick bounds with logging off.
    let mut caps_hit = vec![];
    let thorough = ctx.tier == Tier::Thorough;
    for (level, full) in [(log::LevelFilter::Trace, thorough), (log::LevelFilter::Off, false)] {
        crate::inproc::set_level(level);
        let sfx = if level == log::LevelFilter::Off { "@log-off" } else { "@log-trace" };
        let l = if full { 6 } else { 5 };
        if which == Which::C05 {
            fam.insert(format!("api_subsets_x_patterns{}", sfx), json!(family_api(ctx, &st, full)));
        }
        fam.insert(format!("words_len_1_to_{}{}", l, sfx), json!(family_words(ctx, which, &st, l)));
        fam.insert(format!("short_bytes_len_0_to_11{}", sfx), json!(family_short_bytes(ctx, which, &st, if full { 11 } else { 9 })));
        fam.insert(format!("header_word_deviations{}", sfx), json!(family_deviations(ctx, which, &st, full)));
        fam.insert(format!("offset_grids{}", sfx), json!(family_offset_grids(ctx, which, &st)));
        fam.insert(format!("big_counts{}", sfx), json!(family_big_counts(ctx, which, &st)));
        fam.insert(format!("truncations_extensions{}", sfx), json!(family_truncations(ctx, which, &st, full)));
        if which == Which::C06 {
            fam.insert(format!("every_length_x4_fills{}", sfx), json!(family_lengths(ctx, &st, full)));
            if level == log::LevelFilter::Trace {
                let depths: Vec<usize> = match ctx.tier {
                    Tier::Quick => vec![1, 2, 3, 8, 64, 512, 1024],
                    Tier::Thorough => (1..=128).chain([192, 256, 384, 512, 768, 1024, 1536, 2048, 3072, 4096, 8191]).collect(),
                };
                let (n, caps) = family_depth(ctx, &st, &depths, ctx.tier.pick(40, 900));
                fam.insert("nesting_depth_x4_variants".into(), json!(n));
                if caps > 0 {
                    caps_hit.push(format!("{} nesting-depth case(s) exceeded the per-case wall cap and were not judged", caps));
                }
                ctx.cov("depths", json!({"max": depths.iter().max(), "count": depths.len()}));
                ctx.assume("nesting-depth family formats on a thread with an 8 MiB stack (the platform's default main-thread stack)");
            }
        }
    }
    crate::inproc::set_level(log::LevelFilter::Off);
    ctx.cov("log_records_formatted", json!(crate::inproc::LOG_RECORDS.load(Relaxed)));
    ctx.cov("evaluations", json!(st.evals.load(Relaxed)));
    ctx.cov("distinct_nontrivial", json!(st.nontrivial.load(Relaxed)));
    ctx.cov("accepted_nonempty", json!(st.accepted.load(Relaxed)));
    ctx.cov("families", Value::Object(fam));
    ctx.cov("outcome_classes", json!(*st.classes.lock().unwrap()));
    ctx.cov("caps_hit", json!(caps_hit));
    ctx.cov("exhaustive", json!(caps_hit.is_empty()));
    ctx.cov("bound", json!({"word_sequence_length": l, "alphabet_words": sigma().len(), "header_deviations": ctx.tier.pick(1, 2)}));
    ctx.cov("rule", json!(format!("(b) all word sequences of length 1..={} over a {}-word alphabet hitting every guard (counts, offsets, overflowing/unaligned values, known/unknown/nested tags); all byte strings of length 0..={} over {{00,01,04,ff}}; (c) every header word (count, each offset, each tag) of 11 valid corpus messages (requests, replies, nested SREP/CERT/DELE, all-18-tags, 64 KiB) replaced by every alphabet word and orig+-4/+-1, every byte of every tag word replaced by 00/ff/case-flip/+1 (thorough: all pairs of header words); every truncation/extension length of the corpus; {} Distinct by construction (enumeration without repetition); non-trivial = passes the first length/alignment guard (len>=4, len%4==0) or is an API case with >=1 field.", l, sigma().len(), ctx.tier.pick(9, 11),
        if which == Which::C05 { "(a) all 2^18 tag subsets x value-length patterns through add_field/encode/encode_framed/from_bytes and all 18^2 add_field pairs." } else { "every length 0..=65536 x 4 fill patterns; nesting chains CERT(CERT(..)) and SREP(DELE(CERT(..))) of listed depths with valid and invalid innermost payloads, formatted in a child process." })));
    ctx.sample(json!({"family":"words","hex": crate::util::hex(&words_to_bytes(&[2, 4, u32::from_le_bytes(codec::tag("NONC")), u32::from_le_bytes(codec::tag("PAD")), 0]))}));
    ctx.sample(json!({"family":"words","hex": crate::util::hex(&words_to_bytes(&[1, u32::from_le_bytes(codec::tag("CERT")), 5]))}));
    ctx.sample(json!({"family":"deviation-1","base":"classic-reply-n3","word":1,"substitute":"0x80000000"}));
    ctx.assume("reference codec rtref::codec encodes the tag-value format as stated in C05 (known tags, strictly ascending numeric order, aligned monotone in-range offsets)");
    Ok(())
}

pub fn replay_case(c: &Value, which: Which) -> Result<Option<String>, String> {
    match c["kind"].as_str() {
        Some("bytes") => {
            let h = c["hex"].as_str().ok_or("hex")?;
            if h.contains("..(") {
                return Err("input was truncated in the replay file".into());
            }
            let b = rtref::crypto::unhex(h);
            crate::inproc::set_level(log::LevelFilter::Trace);
            let (_, vs) = judge(&b, true);
            Ok(vs.into_iter().find(|v| v.0 == which).map(|v| format!("{} {}", v.1, v.2)))
        }
        Some("depth") => {
            let d = c["depth"].as_u64().ok_or("depth")? as usize;
            let v = c["variant"].as_str().ok_or("variant")?;
            let exe = std::env::current_exe().unwrap();
            let o = std::process::Command::new(exe).args(["c06-depth", &d.to_string(), v]).output().map_err(|e| e.to_string())?;
            let s = String::from_utf8_lossy(&o.stdout).to_string();
            if !o.status.success() || s.starts_with("panic") {
                Ok(Some(format!("status {:?} output {}", o.status, s.trim())))
            } else {
                Ok(None)
            }
        }
        _ => Err("kind (api cases: re-run the check)".into()),
    }
}
