//! C08 — no datagram sequence can crash or wedge a serving worker (E-STATE).

use super::c07::Prober;
use crate::ev::{Ctx, Tier};
use crate::inproc::{self, nonce, Client, SrvCfg, LEVELS};
use crate::util::{hex_trunc, par_for, Rng};
use rtref::codec::{self, Msg};
use rtref::proto::VER_IETF13;
use rtref::responder::{classic_request, ietf_request};
use rtref::crypto;
use rtref::Version;
use serde_json::{json, Value};
use std::sync::atomic::{AtomicU64, Ordering::Relaxed};
use std::sync::Mutex;

/// The 14 datagram classes (simplest first).
pub fn alphabet(seed: u64) -> Vec<(&'static str, Vec<u8>)> {
    alphabet_multi(seed).into_iter().filter(|c| c.1.len() == 1).map(|c| (c.0, c.1[0].clone())).collect()
}

/// Datagram classes; a class is one datagram, or a few valid requests arriving together (each from
/// its own socket) so that state left behind by a multi-request batch meets the next batch.
pub fn alphabet_multi(seed: u64) -> Vec<(&'static str, Vec<Vec<u8>>)> {
    let mut rng = Rng(seed ^ 0xc08);
    let r = rng.bytes(65507);
    let classic_nonce = |nl: usize| -> Vec<u8> { classic_request(&nonce(40 + nl as u64, nl), 1024) };
    let mut ietf_mut = ietf_request(&VER_IETF13, None, &nonce(41, 32), 1024);
    // count word -> 5, first offset -> 0xfffffffc
    ietf_mut[12..16].copy_from_slice(&5u32.to_le_bytes());
    ietf_mut[16..20].copy_from_slice(&0xffff_fffcu32.to_le_bytes());
    let mut magic_garbage = b"ROUGHTIM".to_vec();
    magic_garbage.extend_from_slice(&r[..1016]);
    // IETF request whose NONC is empty (frame and VER are fine)
    let ietf_empty_nonce = ietf_request(&VER_IETF13, None, &[], 1024);
    let single: Vec<(&'static str, Vec<u8>)> = vec![
        ("empty", vec![]),
        ("one-byte", vec![0x42]),
        ("random-1023", r[..1023].to_vec()),
        ("random-1024", r[..1024].to_vec()),
        ("random-1500", r[..1500].to_vec()),
        ("random-1501", r[..1501].to_vec()),
        ("random-65507", r[..65507].to_vec()),
        ("valid-classic", classic_nonce(64)),
        ("valid-ietf", ietf_request(&VER_IETF13, None, &nonce(42, 32), 1024)),
        ("classic-empty-nonce", classic_nonce(0)),
        ("classic-4-byte-nonce", classic_nonce(4)),
        ("classic-1008-byte-nonce", classic_nonce(1008)),
        ("ietf-header-mutated", ietf_mut),
        ("magic-plus-garbage", magic_garbage),
        ("ietf-empty-nonce", ietf_empty_nonce),
        // valid requests of other legal sizes (only the padding is bigger)
        ("valid-ietf-1500", ietf_request(&VER_IETF13, None, &nonce(43, 32), 1500)),
        ("valid-ietf-1028", ietf_request(&VER_IETF13, None, &nonce(44, 32), 1028)),
        ("valid-classic-1500", classic_request(&nonce(45, 64), 1500)),
    ];
    let mut out: Vec<(&'static str, Vec<Vec<u8>>)> = single.into_iter().map(|(n, d)| (n, vec![d])).collect();
    let c = |k: u64| classic_request(&nonce(0x800 + k, 64), 1024);
    let i = |k: u64| ietf_request(&VER_IETF13, None, &nonce(0x900 + k, 32), 1024);
    out.push(("2x-valid-classic", vec![c(1), c(2)]));
    out.push(("3x-valid-classic", vec![c(3), c(4), c(5)]));
    out.push(("2x-valid-ietf", vec![i(1), i(2)]));
    out.push(("3x-valid-ietf", vec![i(3), i(4), i(5)]));
    out
}

/// Valid requests of each shape with one header word replaced (see `run`).
pub fn header_sweeps() -> Vec<(String, Vec<u8>)> {
    let mut out = vec![];
    // requests carrying BOTH padding tags (legal: any known tags may accompany the nonce)
    let both_pads = |framed: bool| -> Vec<u8> {
        let mut pairs: Vec<(&str, Vec<u8>)> = if framed { vec![("VER", VER_IETF13.to_vec()), ("NONC", nonce(0x5e5, 32))] } else { vec![("NONC", nonce(0x5e4, 64))] };
        pairs.push(("ZZZZ", vec![0u8; 400]));
        let k = pairs.len() + 1;
        let total = if framed { 1012 } else { 1024 };
        let used = codec::header_len(k) + pairs.iter().map(|p| p.1.len()).sum::<usize>();
        pairs.push(("PAD", vec![0u8; total - used]));
        let b = Msg::from_pairs(&pairs).encode();
        if framed { codec::frame(&b) } else { b }
    };
    let bases: Vec<(&str, Vec<u8>, usize)> = vec![
        ("classic", classic_request(&nonce(0x5e1, 64), 1024), 0),
        ("ietf", ietf_request(&VER_IETF13, None, &nonce(0x5e2, 32), 1024), 12),
        ("ietf-srv", ietf_request(&VER_IETF13, Some(&crypto::srv_value(&crypto::public_key(&SrvCfg::default().seed))), &nonce(0x5e3, 32), 1024), 12),
        ("classic-both-pads", both_pads(false), 0),
        ("ietf-both-pads", both_pads(true), 12),
    ];
    let mut tags: Vec<u32> = codec::known_tags().iter().map(|t| u32::from_le_bytes(*t)).collect();
    tags.extend([u32::from_le_bytes(*b"XXXX"), u32::from_le_bytes(*b"PAD\x00"), 0, 0xffff_ffff]);
    // request-sized datagrams (bare and framed) that are a count word followed by zeros, for counts
    // around every fraction of the message length a header computation may use
    for framed in [false, true] {
        let l: usize = if framed { 1012 } else { 1024 };
        let mut counts: Vec<usize> = vec![19, 20, 21, 64, 100, 126, 127, 128, 129, 150, 160, 200, 202, 203, 250, 253, 254, 255, 256, 257, 300, 500, 505, 506, 507, 1000, 1011, 1012, 1013, 1024];
        counts.extend([l / 8 - 1, l / 8, l / 8 + 1, l / 5, l / 5 + 1, l / 4 - 1, l / 4, l / 4 + 1, l / 2, l]);
        counts.sort();
        counts.dedup();
        for c in counts {
            let mut m = vec![0u8; l];
            m[..4].copy_from_slice(&(c as u32).to_le_bytes());
            out.push((format!("sweep-count-zero-body:{}", if framed { "ietf" } else { "classic" }), if framed { codec::frame(&m) } else { m }));
        }
    }
    for (name, base, m0) in bases {
        let cnt = u32::from_le_bytes(base[m0..m0 + 4].try_into().unwrap()) as usize;
        let len = base.len();
        let mut put = |fam: String, at: usize, v: u32| {
            let mut b = base.clone();
            b[at..at + 4].copy_from_slice(&v.to_le_bytes());
            out.push((fam, b));
        };
        for c in (0..=20u32).chain([0x4000_0000, 0x8000_0000, 0xffff_ffff]) {
            put(format!("sweep-count:{}", name), m0, c);
        }
        for w in 0..cnt - 1 {
            let mut v = 0usize;
            while v <= len + 16 {
                put(format!("sweep-offset:{}", name), m0 + 4 + 4 * w, v as u32);
                v += 4;
            }
            for v in [1u32, 2, 3, 5, 0x7fff_fffc, 0x8000_0000, 0xffff_fffc, 0xffff_ffff] {
                put(format!("sweep-offset:{}", name), m0 + 4 + 4 * w, v);
            }
        }
        for w in 0..cnt {
            for &t in &tags {
                put(format!("sweep-tag:{}", name), m0 + 4 * cnt + 4 * w, t);
            }
        }
        // every non-empty subset of the offset words shifted by the same 1..3 bytes up or down: some
        // offsets misaligned, the others not; value lengths between shifted offsets unchanged
        let noff = cnt - 1;
        if noff >= 1 && noff <= 4 {
            for mask in 1u32..(1 << noff) {
                for delta in [1i64, 2, 3, -1, -2, -3] {
                    let mut b = base.clone();
                    let mut ok = true;
                    for w in 0..noff {
                        if mask >> w & 1 == 1 {
                            let at = m0 + 4 + 4 * w;
                            let cur = u32::from_le_bytes(b[at..at + 4].try_into().unwrap()) as i64;
                            if cur + delta < 0 {
                                ok = false;
                                break;
                            }
                            b[at..at + 4].copy_from_slice(&((cur + delta) as u32).to_le_bytes());
                        }
                    }
                    if ok {
                        out.push((format!("sweep-offset-shift:{}", name), b));
                    }
                }
            }
        }
        // pairs of offset words over a coarse grid (decreasing / equal / past-the-end combinations)
        let area = len - m0 - codec::header_len(cnt);
        let grid = [0usize, 4, 32, area.saturating_sub(4), area, area + 4, len - m0 - 4, len - m0, len, len + 4];
        for w1 in 0..cnt - 1 {
            for w2 in w1 + 1..cnt - 1 {
                for &a in &grid {
                    for &c in &grid {
                        let mut b = base.clone();
                        b[m0 + 4 + 4 * w1..m0 + 8 + 4 * w1].copy_from_slice(&(a as u32).to_le_bytes());
                        b[m0 + 4 + 4 * w2..m0 + 8 + 4 * w2].copy_from_slice(&(c as u32).to_le_bytes());
                        out.push((format!("sweep-offset-pair:{}", name), b));
                    }
                }
            }
        }
    }
    out
}

pub fn run_history(cfg: &SrvCfg, hist: &[usize], al: &[(&'static str, Vec<Vec<u8>>)]) -> Result<Option<(String, String)>, String> {
    let mut p = Prober::new(cfg)?;
    let mut clients: Vec<(Client, &'static str)> = vec![];
    for (k, &a) in hist.iter().enumerate() {
        for d in &al[a].1 {
            let c = Client::new();
            if !c.send(p.srv.addr, d) {
                return Err("send failed".into());
            }
            clients.push((c, al[a].0));
        }
        // step after every class: each class is its own poll cycle
        if let Err(pn) = p.srv.step() {
            return Ok(Some(("panic".into(), format!("process_events panicked after datagram #{} ({}): {}", k, al[a].0, pn))));
        }
    }
    if let Err(pn) = p.srv.settle() {
        return Ok(Some(("panic".into(), format!("process_events panicked while idle: {}", pn))));
    }
    if let Some(v) = valid_ones_answered(&clients) {
        return Ok(Some(v));
    }
    sentinels(&mut p)
}

/// The valid requests of the sequence itself (classes named "...valid-...") have been answered by the
/// time the server is quiescent — whatever was queued in front of, between or behind them.
fn valid_ones_answered(clients: &[(Client, &'static str)]) -> Option<(String, String)> {
    for (i, (c, class)) in clients.iter().enumerate() {
        if class.contains("valid-") && c.drain().is_empty() {
            return Some(("valid-request-unanswered".into(), format!("datagram #{} of the sequence (class {}) is a valid request and got no reply although the server went quiescent", i, class)));
        }
    }
    None
}

/// After the sequence: a pair of valid requests of each protocol queued together (so that a batch
/// of two meets whatever state the sequence left behind), then one of each alone. All must be
/// answered (fault 0: with an authentic reply).
fn sentinels(p: &mut Prober) -> Result<Option<(String, String)>, String> {
    for v in [rtref::Version::Classic, rtref::Version::Ietf13] {
        let reqs: Vec<Vec<u8>> = (0..2).map(|k| rtref::responder::std_request(v, &nonce(0xfeed_1000 + k + p.sentinel_ctr * 4 + if v == rtref::Version::Classic { 0 } else { 2 }, v.nonce_len()))).collect();
        p.sentinel_ctr += 1;
        let cs: Vec<Client> = reqs.iter().map(|_| Client::new()).collect();
        for (c, r) in cs.iter().zip(&reqs) {
            c.send(p.srv.addr, r);
        }
        if let Err(pn) = p.srv.settle() {
            return Ok(Some(("panic".into(), format!("process_events panicked on a pair of valid {} requests after the sequence: {}", v.name(), pn))));
        }
        for (c, r) in cs.iter().zip(&reqs) {
            let got = c.drain();
            let ok = got.len() == 1 && (p.srv.cfg.fault > 0 || rtref::verifier::authentic(&got[0].0, r, v, Some(&p.lt_pk), rtref::verifier::SERVER_VIEW).is_ok());
            if !ok {
                return Ok(Some(("sentinel-unanswered".into(), format!("pair of valid {} requests after the sequence not answered correctly ({} datagrams)", v.name(), got.len()))));
            }
        }
    }
    for _ in 0..2 {
        match p.sentinel() {
            Ok(true) => {}
            Ok(false) => return Ok(Some(("sentinel-unanswered".into(), "valid request after the sequence not answered correctly".into()))),
            Err(e) => return Err(e),
        }
    }
    Ok(None)
}

/// Same but all datagrams queued before the first step (one poll cycle sees the whole sequence).
pub fn run_history_burst(cfg: &SrvCfg, hist: &[usize], al: &[(&'static str, Vec<Vec<u8>>)]) -> Result<Option<(String, String)>, String> {
    let mut p = Prober::new(cfg)?;
    let mut clients: Vec<(Client, &'static str)> = vec![];
    for &a in hist.iter() {
        for d in &al[a].1 {
            let c = Client::new();
            c.send(p.srv.addr, d);
            clients.push((c, al[a].0));
        }
    }
    if let Err(pn) = p.srv.settle() {
        return Ok(Some(("panic".into(), format!("process_events panicked on queued sequence: {}", pn))));
    }
    if let Some(v) = valid_ones_answered(&clients) {
        return Ok(Some(v));
    }
    sentinels(&mut p)
}

fn panic_site(msg: &str) -> &'static str {
    if msg.contains("range end index") || msg.contains("out of range") || msg.contains("index out of bounds") {
        "slice-index"
    } else if msg.contains("unwrap") {
        "unwrap"
    } else {
        "other"
    }
}

pub fn run(ctx: &Ctx) -> Result<(), String> {
    ctx.set_level("model_checking");
    inproc::init();
    inproc::kernel_selftest(70)?;
    let al = alphabet_multi(ctx.seed);
    let d = ctx.tier.pick(2usize, 3);
    // all sequences of length 1..=d
    let mut hists: Vec<Vec<usize>> = vec![];
    for l in 1..=d {
        for mut idx in 0..al.len().pow(l as u32) {
            let mut h = vec![];
            for _ in 0..l {
                h.push(idx % al.len());
                idx /= al.len();
            }
            hists.push(h);
        }
    }
    let faults = [0u8, 50];
    let bss = [1u8, 2, 64];
    let evals = AtomicU64::new(0);
    let transitions = AtomicU64::new(0);
    let failed: Mutex<Option<String>> = Mutex::new(None);
    let mut configs = 0;
    for level in LEVELS {
        inproc::set_level(level);
        for &f in &faults {
            for &bs in &bss {
                configs += 1;
                let cfg = SrvCfg { batch_size: bs, fault: f, ..Default::default() };
                par_for(hists.len(), 8, |k, _| {
                    let h = &hists[k];
                    for burst in [false, true] {
                        if burst && h.len() < 2 {
                            continue;
                        }
                        evals.fetch_add(1, Relaxed);
                        transitions.fetch_add(h.len() as u64 * 2 + 6, Relaxed);
                        let r = if burst { run_history_burst(&cfg, h, &al) } else { run_history(&cfg, h, &al) };
                        match r {
                            Err(e) => *failed.lock().unwrap() = Some(e),
                            Ok(None) => {}
                            Ok(Some((clause, msg))) => {
                                // minimise: drop events while the failure persists
                                let mut hm = h.clone();
                                let mut i = 0;
                                while hm.len() > 1 && i < hm.len() {
                                    let mut t = hm.clone();
                                    t.remove(i);
                                    let rr = if burst { run_history_burst(&cfg, &t, &al) } else { run_history(&cfg, &t, &al) };
                                    if matches!(rr, Ok(Some(_))) {
                                        hm = t;
                                    } else {
                                        i += 1;
                                    }
                                }
                                let names: Vec<&str> = hm.iter().map(|&a| al[a].0).collect();
                                let lv = format!("{}", level);
                                let class = format!("{}@{}", names.join("+"), if level >= log::LevelFilter::Debug { "debug-or-trace" } else { "upto-info" });
                                ctx.violation(&clause, panic_site(&msg), &class,
                                    json!({"kind":"sequence","classes":names,"original":h.iter().map(|&a| al[a].0).collect::<Vec<_>>(),"queued_before_first_step":burst,"log_level":lv,"fault":f,"batch_size":bs,"message":msg,
                                           "datagrams": hm.iter().flat_map(|&a| al[a].1.iter().map(|d| hex_trunc(d, 1600))).collect::<Vec<_>>()}));
                            }
                        }
                    }
                });
                if let Some(e) = failed.lock().unwrap().take() {
                    inproc::set_level(log::LevelFilter::Off);
                    return Err(e);
                }
            }
        }
    }
    // near-valid requests: every header word of a valid request of each shape swept over its whole
    // interesting range (every aligned offset value from 0 to past the datagram length, every
    // count 0..=20, every known tag and some unknown ones), one datagram per fresh poll cycle, at
    // every log level; the worker must survive each and answer the sentinel after it
    let sweeps = header_sweeps();
    for level in LEVELS {
        inproc::set_level(level);
        let shards = crate::util::nthreads() * 2;
        par_for(shards, 1, |sh, _| {
            let mut p = match Prober::new(&SrvCfg::default()) {
                Ok(p) => p,
                Err(e) => {
                    *failed.lock().unwrap() = Some(e);
                    return;
                }
            };
            let mut i = sh;
            while i < sweeps.len() {
                let (fam, dg) = &sweeps[i];
                i += shards;
                evals.fetch_add(1, Relaxed);
                transitions.fetch_add(6, Relaxed);
                let lv = format!("{}", level);
                let cls = format!("{}@{}", fam, if level >= log::LevelFilter::Debug { "debug-or-trace" } else { "upto-info" });
                match p.probe(dg) {
                    Err(e) => {
                        *failed.lock().unwrap() = Some(e);
                        return;
                    }
                    Ok(o) => {
                        if let Some(pn) = o.panic {
                            ctx.violation("panic", panic_site(&pn), &cls, json!({"kind":"datagram","family":fam,"len":dg.len(),"hex":hex_trunc(dg, 1600),"log_level":lv,"message":pn}));
                            p = Prober::new(&SrvCfg::default()).unwrap();
                        } else if !o.sentinel_ok {
                            ctx.violation("sentinel-unanswered", "other", &cls, json!({"kind":"datagram","family":fam,"len":dg.len(),"hex":hex_trunc(dg, 1600),"log_level":lv}));
                        }
                    }
                }
            }
        });
        if let Some(e) = failed.lock().unwrap().take() {
            inproc::set_level(log::LevelFilter::Off);
            return Err(e);
        }
    }
    // bursts of k valid requests of one protocol queued before the first step (Merkle paths of every
    // depth 0..=6 and the step from one batch to two), preceded by nothing / by a smaller burst, at
    // three log levels
    let burst_ks: Vec<usize> = ctx.tier.pick(vec![4, 8, 16, 17, 32, 33, 63, 64, 65, 129], (2..=130).collect());
    let mut burst_n = 0u64;
    for level in [log::LevelFilter::Off, log::LevelFilter::Info, log::LevelFilter::Trace] {
        inproc::set_level(level);
        let mut cases: Vec<(Version, usize, bool, u8)> = vec![];
        for v in [Version::Classic, Version::Ietf13] {
            for &k in &burst_ks {
                for warm in [false, true] {
                    for bs in [64u8, 33] {
                        cases.push((v, k, warm, bs));
                    }
                    // small batch sizes: the burst exceeds what one call of the event loop handles
                    // (16 batches), so the worker re-arms its socket and must keep serving afterwards
                    if k <= 65 {
                        for bs in [1u8, 2] {
                            cases.push((v, k, warm, bs));
                        }
                    }
                }
            }
        }
        burst_n += cases.len() as u64;
        par_for(cases.len(), 1, |ci, _| {
            let (v, k, warm, bs) = cases[ci];
            let cfg = SrvCfg { batch_size: bs, ..Default::default() };
            let r = (|| -> Result<Option<(String, String)>, String> {
                let mut p = Prober::new(&cfg)?;
                let ks: Vec<usize> = if warm { vec![3, k] } else { vec![k] };
                for (round, &kk) in ks.iter().enumerate() {
                    let cs: Vec<Client> = (0..kk).map(|_| Client::new()).collect();
                    let reqs: Vec<Vec<u8>> = (0..kk).map(|i| rtref::responder::std_request(v, &nonce(0xb0000 + (round * 1000 + i) as u64, v.nonce_len()))).collect();
                    for (c, r) in cs.iter().zip(&reqs) {
                        c.send(p.srv.addr, r);
                    }
                    if let Err(pn) = p.srv.settle() {
                        return Ok(Some(("panic".into(), format!("process_events panicked on a burst of {} valid {} requests: {}", kk, v.name(), pn))));
                    }
                    for (c, r) in cs.iter().zip(&reqs) {
                        let got = c.drain();
                        if got.len() != 1 || rtref::verifier::authentic(&got[0].0, r, v, Some(&p.lt_pk), rtref::verifier::SERVER_VIEW).is_err() {
                            return Ok(Some(("sentinel-unanswered".into(), format!("burst of {} valid {} requests: a request got {} datagrams / not authentic", kk, v.name(), got.len()))));
                        }
                    }
                }
                sentinels(&mut p)
            })();
            evals.fetch_add(1, Relaxed);
            transitions.fetch_add(k as u64 + 8, Relaxed);
            match r {
                Err(e) => *failed.lock().unwrap() = Some(e),
                Ok(None) => {}
                Ok(Some((clause, msg))) => ctx.violation(&clause, panic_site(&msg), &format!("burst-of-valid-requests@{}", if level >= log::LevelFilter::Debug { "debug-or-trace" } else { "upto-info" }),
                    json!({"kind":"burst","version":v.name(),"requests":k,"after_a_burst_of_3":warm,"batch_size":bs,"log_level":format!("{}", level),"message":msg})),
            }
        });
        if let Some(e) = failed.lock().unwrap().take() {
            inproc::set_level(log::LevelFilter::Off);
            return Err(e);
        }
    }
    ctx.cov("bursts_of_valid_requests", json!(burst_n));
    // thorough: the C07 datagram space as single-datagram histories at level Trace
    let mut extra = 0usize;
    if ctx.tier == Tier::Thorough {
        inproc::set_level(log::LevelFilter::Trace);
        let ds = super::c07::datagrams(Tier::Quick, ctx.seed);
        extra = ds.len();
        let shards = crate::util::nthreads() * 4;
        par_for(shards, 1, |sh, _| {
            let mut p = match Prober::new(&SrvCfg::default()) {
                Ok(p) => p,
                Err(e) => {
                    *failed.lock().unwrap() = Some(e);
                    return;
                }
            };
            let mut i = sh;
            while i < ds.len() {
                let (fam, dg) = &ds[i];
                i += shards;
                evals.fetch_add(1, Relaxed);
                transitions.fetch_add(6, Relaxed);
                match p.probe(dg) {
                    Err(e) => {
                        *failed.lock().unwrap() = Some(e);
                        return;
                    }
                    Ok(o) => {
                        if let Some(pn) = o.panic {
                            ctx.violation("panic", panic_site(&pn), &format!("{}@debug-or-trace", fam), json!({"kind":"datagram","family":fam,"len":dg.len(),"hex":hex_trunc(dg, 1600),"log_level":"TRACE","message":pn}));
                            p = Prober::new(&SrvCfg::default()).unwrap();
                        } else if !o.sentinel_ok {
                            ctx.violation("sentinel-unanswered", "other", fam, json!({"kind":"datagram","family":fam,"len":dg.len(),"hex":hex_trunc(dg, 1600),"log_level":"TRACE"}));
                        }
                    }
                }
            }
        });
    }
    inproc::set_level(log::LevelFilter::Off);
    if let Some(e) = failed.lock().unwrap().take() {
        return Err(e);
    }
    let _ = (codec::FRAME_MAGIC, Msg::new(), crypto::hex(&[]));
    ctx.cov("states", json!(hists.len() * configs));
    ctx.cov("transitions", json!(transitions.load(Relaxed)));
    ctx.cov("traces_validated_against_impl", json!(evals.load(Relaxed)));
    ctx.cov("evaluations", json!(evals.load(Relaxed)));
    ctx.cov("distinct_nontrivial", json!(evals.load(Relaxed)));
    ctx.cov("log_records_formatted", json!(inproc::LOG_RECORDS.load(Relaxed)));
    ctx.cov("exhaustive", json!(true));
    ctx.cov("bound", json!({"sequence_length": d, "alphabet": al.iter().map(|a| a.0).collect::<Vec<_>>(), "log_levels": 6, "fault_percentage": faults, "batch_size": bss, "extra_single_datagrams_at_trace": extra, "header_sweep_datagrams_x6_levels": sweeps.len()}));
    ctx.cov("rule", json!(format!("all sequences of length 1..={} over {} datagram classes (15 single datagrams + 2/3 valid requests of one protocol arriving together), each executed twice (stepping after every datagram; all queued before the first step) on a fresh real in-process Server, for every log level Off..Trace (a capturing logger formats every enabled record) x fault_percentage {{0,50}} x batch_size {{1,2,64}}; after the sequence a pair of valid requests of each protocol queued together and then one of each alone must be answered (fault 0: with an authentic reply). Plus {} near-valid single datagrams (every header word of a valid classic / IETF / IETF+SRV request swept: all aligned offset values 0..len+16, counts 0..=20, every known tag, offset pairs on a grid) at every log level. Plus bursts of k valid requests of one protocol (k around every power of two up to 129; thorough every k 2..=130), fresh and after a burst of 3, batch_size 64 and 33, at three log levels: every request answered authentically. Oracle: process_events never unwinds, sentinels answered. A failing history is minimised by dropping events. states = histories x configurations; every one executes on the implementation.", d, al.len(), sweeps.len())));
    ctx.sample(json!({"classes":["classic-empty-nonce"],"log_level":"DEBUG","fault":0,"batch_size":64}));
    ctx.sample(json!({"classes":["random-65507","valid-ietf","ietf-header-mutated"],"log_level":"TRACE","fault":50,"batch_size":2}));
    ctx.assume("log level is process-global in the `log` crate: levels are explored one after another, all worker threads sharing the level");
    Ok(())
}

pub fn replay_case(c: &Value) -> Result<Option<String>, String> {
    inproc::init();
    let level = match c["log_level"].as_str().unwrap_or("OFF").to_uppercase().as_str() {
        "ERROR" => log::LevelFilter::Error,
        "WARN" => log::LevelFilter::Warn,
        "INFO" => log::LevelFilter::Info,
        "DEBUG" => log::LevelFilter::Debug,
        "TRACE" => log::LevelFilter::Trace,
        _ => log::LevelFilter::Off,
    };
    inproc::set_level(level);
    let cfg = SrvCfg { batch_size: c["batch_size"].as_u64().unwrap_or(64) as u8, fault: c["fault"].as_u64().unwrap_or(0) as u8, ..Default::default() };
    let dgs: Vec<Vec<u8>> = match c["kind"].as_str() {
        Some("sequence") => c["datagrams"].as_array().ok_or("datagrams")?.iter().map(|h| crypto::unhex(h.as_str().unwrap_or(""))).collect(),
        Some("datagram") => vec![crypto::unhex(c["hex"].as_str().ok_or("hex")?)],
        Some("burst") => {
            let v = if c["version"] == "classic" { Version::Classic } else { Version::Ietf13 };
            let k = c["requests"].as_u64().ok_or("requests")? as usize;
            let warm = c["after_a_burst_of_3"].as_bool().unwrap_or(false);
            let r = crate::util::on_named_thread("worker-0", move || -> Result<Option<String>, String> {
                let mut p = Prober::new(&cfg)?;
                for kk in if warm { vec![3, k] } else { vec![k] } {
                    let cs: Vec<Client> = (0..kk).map(|_| Client::new()).collect();
                    for (i, c) in cs.iter().enumerate() {
                        c.send(p.srv.addr, &rtref::responder::std_request(v, &nonce(0xb0000 + i as u64, v.nonce_len())));
                    }
                    if let Err(pn) = p.srv.settle() {
                        return Ok(Some(format!("panic {}", pn)));
                    }
                    if cs.iter().any(|c| c.drain().len() != 1) {
                        return Ok(Some("a request of the burst was not answered exactly once".into()));
                    }
                }
                Ok(None)
            })?;
            inproc::set_level(log::LevelFilter::Off);
            return Ok(r);
        }
        _ => return Err("kind".into()),
    };
    let al: Vec<(&'static str, Vec<Vec<u8>>)> = dgs.into_iter().map(|d| ("replayed", vec![d])).collect();
    let hist: Vec<usize> = (0..al.len()).collect();
    let burst = c["queued_before_first_step"].as_bool().unwrap_or(false);
    let r = crate::util::on_named_thread("worker-0", || if burst { run_history_burst(&cfg, &hist, &al) } else { run_history(&cfg, &hist, &al) })?;
    inproc::set_level(log::LevelFilter::Off);
    Ok(r.map(|(a, b)| format!("{} {}", a, b)))
}
