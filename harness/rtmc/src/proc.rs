//! Process-level harness (E-PROC): the real client and server binaries as black boxes.

use crate::ev::Ctx;
use std::io::Read;
use std::net::{SocketAddr, UdpSocket};
use std::path::PathBuf;
use std::process::{Child, Command, Stdio};
use std::sync::atomic::AtomicU64;
use std::time::{Duration, Instant};

thread_local! {
    /// when set, `repo_bin` of this thread resolves in this directory (a build of the repository with
    /// other Cargo features)
    pub static BIN_DIR_OVERRIDE: std::cell::RefCell<Option<PathBuf>> = std::cell::RefCell::new(None);
}

pub fn repo_bin(name: &str) -> PathBuf {
    if let Some(d) = BIN_DIR_OVERRIDE.with(|o| o.borrow().clone()) {
        return d.join(name);
    }
    let dir = std::env::var("VERIF_REPO_BIN").unwrap_or_else(|_| format!("{}/target/repo/debug", crate::ev::verif_dir()));
    PathBuf::from(dir).join(name)
}

#[derive(Debug, Clone)]
pub struct Exit {
    pub code: Option<i32>,
    pub signal: Option<i32>,
    pub stdout: String,
    pub stderr: String,
    pub timed_out: bool,
}

/// Wait for a child with a deadline; kill on timeout. Collects stdout/stderr (piped).
pub fn wait_child(mut child: Child, timeout: Duration) -> Exit {
    use std::os::unix::process::ExitStatusExt;
    let start = Instant::now();
    // read pipes on helper threads so a chatty child cannot block
    let mut so = child.stdout.take();
    let mut se = child.stderr.take();
    let h1 = std::thread::spawn(move || {
        let mut s = String::new();
        if let Some(o) = so.as_mut() {
            let mut b = vec![];
            let _ = o.read_to_end(&mut b);
            s = String::from_utf8_lossy(&b).to_string();
        }
        s
    });
    let h2 = std::thread::spawn(move || {
        let mut s = String::new();
        if let Some(o) = se.as_mut() {
            let mut b = vec![];
            let _ = o.read_to_end(&mut b);
            s = String::from_utf8_lossy(&b).to_string();
        }
        s
    });
    let mut timed_out = false;
    let status = loop {
        match child.try_wait() {
            Ok(Some(s)) => break Some(s),
            Ok(None) => {
                if start.elapsed() > timeout {
                    let _ = child.kill();
                    timed_out = true;
                    break child.wait().ok();
                }
                std::thread::sleep(Duration::from_micros(300));
            }
            Err(_) => break None,
        }
    };
    let stdout = h1.join().unwrap_or_default();
    let stderr = h2.join().unwrap_or_default();
    Exit { code: status.and_then(|s| s.code()), signal: status.and_then(|s| s.signal()), stdout, stderr, timed_out }
}

// ---------------------------------------------------------------------------------------------
// client driver with a harness-owned responder

pub struct ClientRun {
    pub exit: Exit,
    /// requests received from the client, in arrival order, with their source address
    pub requests: Vec<(Vec<u8>, SocketAddr)>,
}

thread_local! {
    /// `run_client` of this thread sends the replies of a multi-request run last request first
    pub static REPLY_ORDER_REVERSED: std::cell::Cell<bool> = std::cell::Cell::new(false);
}

/// Run the real client against a loopback responder. `respond` gets all `n` requests once they
/// have arrived and returns, per request, the datagrams to send back to that request's source.
pub fn run_client<F>(args: &[&str], n: usize, respond: F) -> Result<ClientRun, String>
where
    F: FnOnce(&[(Vec<u8>, SocketAddr)]) -> Vec<Vec<Vec<u8>>>,
{
    run_client_tz(args, n, "UTC", respond)
}

/// `run_client` with the client process's local time zone (TZ) chosen by the caller.
pub fn run_client_tz<F>(args: &[&str], n: usize, tz: &str, respond: F) -> Result<ClientRun, String>
where
    F: FnOnce(&[(Vec<u8>, SocketAddr)]) -> Vec<Vec<Vec<u8>>>,
{
    // a port below the kernel's ephemeral range: late datagrams of unrelated processes go to
    // (reused) ephemeral ports, and everything that arrives here is taken for a client request
    let sock = {
        let mut s = None;
        for _ in 0..20 {
            if let Ok(x) = UdpSocket::bind(("127.0.0.1", free_port())) {
                s = Some(x);
                break;
            }
        }
        s.ok_or("cannot bind a responder socket")?
    };
    sock.set_read_timeout(Some(Duration::from_secs(10))).unwrap();
    let port = sock.local_addr().unwrap().port();
    let mut cmd = Command::new(repo_bin("roughenough-client"));
    cmd.args(args).arg("127.0.0.1").arg(port.to_string());
    cmd.env("RUST_BACKTRACE", "0").env("TZ", tz);
    cmd.stdin(Stdio::null()).stdout(Stdio::piped()).stderr(Stdio::piped());
    let child = cmd.spawn().map_err(|e| format!("spawn client: {}", e))?;
    let mut reqs = vec![];
    let mut buf = vec![0u8; 65536];
    while reqs.len() < n {
        match sock.recv_from(&mut buf) {
            Ok((l, from)) => reqs.push((buf[..l].to_vec(), from)),
            Err(e) if e.kind() == std::io::ErrorKind::Interrupted => continue,
            Err(e) => {
                let ex = wait_child(child, Duration::from_secs(1));
                return Err(format!("client sent {} of {} requests ({}); stderr: {}", reqs.len(), n, e, ex.stderr.lines().next().unwrap_or("")));
            }
        }
    }
    let replies = respond(&reqs);
    // replies go out in request order, or (REPLY_ORDER_REVERSED) last request first
    let order: Vec<usize> = if REPLY_ORDER_REVERSED.with(|r| r.get()) { (0..replies.len()).rev().collect() } else { (0..replies.len()).collect() };
    for k in order {
        for r in &replies[k] {
            let _ = sock.send_to(r, reqs[k].1);
        }
    }
    let exit = wait_child(child, Duration::from_secs(20));
    if exit.timed_out {
        return Err("client did not exit within 20 s".into());
    }
    Ok(ClientRun { exit, requests: reqs })
}

/// Sum of the receive-queue bytes of every UDP socket bound to `port` (all SO_REUSEPORT members).
pub fn udp_rx_queue(port: u16) -> u64 {
    let mut sum = 0u64;
    if let Ok(t) = std::fs::read_to_string("/proc/net/udp") {
        let want = format!(":{:04X}", port);
        for l in t.lines().skip(1) {
            let c: Vec<&str> = l.split_whitespace().collect();
            if c.len() > 4 && c[1].ends_with(&want) {
                if let Some(rx) = c[4].split(':').nth(1).and_then(|h| u64::from_str_radix(h, 16).ok()) {
                    sum += rx;
                }
            }
        }
    }
    sum
}

/// Time lines printed by the client when run with `-z -f "%s %f"`: (secs, nanos) per line.
pub fn printed_times(stdout: &str) -> Vec<(u64, u32)> {
    let mut out = vec![];
    for l in stdout.lines() {
        let l = l.trim();
        let cand = if l.starts_with('{') {
            // { "midpoint": "S N", "radius": R, "verified": B, "merkle_index": I }
            match l.split("\"midpoint\": \"").nth(1).and_then(|r| r.split('"').next()) {
                Some(m) => m.to_string(),
                None => continue,
            }
        } else {
            l.to_string()
        };
        let p: Vec<&str> = cand.split(' ').collect();
        if p.len() == 2 && p[1].len() == 9 {
            if let (Ok(s), Ok(n)) = (p[0].parse::<u64>(), p[1].parse::<u32>()) {
                out.push((s, n));
            }
        }
    }
    out
}


// ---------------------------------------------------------------------------------------------
// cfgprobe: real make_config + is_valid_config in a throw-away process

pub fn cfgprobe_main(arg: &str) -> ! {
    use roughenough::config;
    // panics (unwrap/expect/as-casts with overflow checks) mean "start refused"; keep them quiet
    std::panic::set_hook(Box::new(|_| {}));
    let r = std::panic::catch_unwind(|| match config::make_config(arg) {
        Err(e) => Err(format!("make_config: {:?}", e)),
        Ok(cfg) => {
            if !config::is_valid_config(cfg.as_ref()) {
                return Err("is_valid_config: false".to_string());
            }
            Ok(serde_json::json!({
                "interface": cfg.interface(),
                "port": cfg.port(),
                "seed": rtref::crypto::hex(&cfg.seed()),
                "batch_size": cfg.batch_size(),
                "status_interval": cfg.status_interval().as_secs(),
                "kms_protection": format!("{}", cfg.kms_protection()),
                "health_check_port": cfg.health_check_port(),
                "client_stats": cfg.client_stats_enabled(),
                "persistence_directory": cfg.persistence_directory().map(|p| p.display().to_string()),
                "fault_percentage": cfg.fault_percentage(),
                "num_workers": cfg.num_workers(),
            }))
        }
    });
    match r {
        Ok(Ok(v)) => println!("{}", serde_json::json!({"accepted": true, "effective": v})),
        Ok(Err(e)) => println!("{}", serde_json::json!({"accepted": false, "why": e})),
        Err(p) => println!("{}", serde_json::json!({"accepted": false, "why": format!("panic: {}", crate::util::panic_msg(&p))})),
    }
    std::process::exit(0)
}

#[derive(Clone, Copy, Debug, PartialEq, Eq)]
pub enum Source {
    File,
    Env,
}

/// A written configuration: ordered (yaml key, literal text) pairs.
#[derive(Clone, Debug)]
pub struct Written {
    pub pairs: Vec<(String, String)>,
}

pub const BASE_SEED_HEX: &str = "a32049da0ffde0ded92ce10a0230d35fe615ec8461c14986baa63fe3b3bac3db";

impl Written {
    pub fn base(port: u16) -> Written {
        Written { pairs: vec![("interface".into(), "127.0.0.1".into()), ("port".into(), port.to_string()), ("seed".into(), BASE_SEED_HEX.into())] }
    }
    pub fn set(&mut self, k: &str, v: &str) {
        if let Some(e) = self.pairs.iter_mut().find(|p| p.0 == k) {
            e.1 = v.to_string();
        } else {
            self.pairs.push((k.to_string(), v.to_string()));
        }
    }
    pub fn remove(&mut self, k: &str) {
        self.pairs.retain(|p| p.0 != k);
    }
    pub fn get(&self, k: &str) -> Option<&str> {
        self.pairs.iter().find(|p| p.0 == k).map(|p| p.1.as_str())
    }
    pub fn yaml(&self) -> String {
        let mut s = String::new();
        for (k, v) in &self.pairs {
            // strings that YAML would read as something else are quoted; numbers and plain words are not
            let lit = if v.is_empty() { "\"\"".to_string() } else { v.clone() };
            s.push_str(&format!("{}: {}\n", k, lit));
        }
        s
    }
    pub fn env(&self) -> Vec<(String, String)> {
        self.pairs.iter().map(|(k, v)| (format!("ROUGHENOUGH_{}", k.to_uppercase()), v.clone())).collect()
    }
    pub fn to_json(&self) -> serde_json::Value {
        serde_json::json!(self.pairs.iter().map(|(k, v)| format!("{}={}", k, v)).collect::<Vec<_>>())
    }
}

static SCRATCH_N: AtomicU64 = AtomicU64::new(0);

pub fn scratch_dir() -> PathBuf {
    let n = SCRATCH_N.fetch_add(1, std::sync::atomic::Ordering::Relaxed);
    let d = PathBuf::from(format!("{}/target/scratch/{}-{}", crate::ev::verif_dir(), std::process::id(), n));
    let _ = std::fs::create_dir_all(&d);
    d
}

fn clean_env(cmd: &mut Command) {
    // the subject must see only the variables we give it
    for (k, _) in std::env::vars() {
        if k.starts_with("ROUGHENOUGH_") {
            cmd.env_remove(k);
        }
    }
    cmd.env("RUST_BACKTRACE", "0");
}

/// Run the probe on a literal YAML text (file source).
pub fn cfgprobe_raw(yaml: &str) -> Result<serde_json::Value, String> {
    let exe = std::env::current_exe().map_err(|e| e.to_string())?;
    let dir = scratch_dir();
    let p = dir.join("probe.yaml");
    std::fs::write(&p, yaml).map_err(|e| e.to_string())?;
    let mut cmd = Command::new(exe);
    clean_env(&mut cmd);
    cmd.arg("cfgprobe").arg(&p);
    cmd.stdin(Stdio::null()).stdout(Stdio::piped()).stderr(Stdio::piped());
    let child = cmd.spawn().map_err(|e| e.to_string())?;
    let ex = wait_child(child, Duration::from_secs(20));
    let _ = std::fs::remove_dir_all(&dir);
    let line = ex.stdout.lines().last().unwrap_or("");
    serde_json::from_str(line).map_err(|e| format!("cfgprobe output unparsable ({}): {:?}", e, ex.stdout))
}

/// Run the probe for a written configuration from the given source.
pub fn cfgprobe(w: &Written, src: Source) -> Result<serde_json::Value, String> {
    let exe = std::env::current_exe().map_err(|e| e.to_string())?;
    let dir = scratch_dir();
    let mut cmd = Command::new(exe);
    clean_env(&mut cmd);
    cmd.arg("cfgprobe");
    match src {
        Source::File => {
            let p = dir.join("probe.yaml");
            std::fs::write(&p, w.yaml()).map_err(|e| e.to_string())?;
            cmd.arg(&p);
        }
        Source::Env => {
            cmd.arg("ENV");
            for (k, v) in w.env() {
                cmd.env(k, v);
            }
        }
    }
    cmd.stdin(Stdio::null()).stdout(Stdio::piped()).stderr(Stdio::piped());
    let child = cmd.spawn().map_err(|e| e.to_string())?;
    let ex = wait_child(child, Duration::from_secs(20));
    let _ = std::fs::remove_dir_all(&dir);
    if ex.timed_out {
        return Err("cfgprobe timed out".into());
    }
    let line = ex.stdout.lines().last().unwrap_or("");
    serde_json::from_str(line).map_err(|e| format!("cfgprobe output unparsable ({}): {:?} / {:?} code {:?}", e, ex.stdout, ex.stderr.lines().next(), ex.code))
}

// ---------------------------------------------------------------------------------------------
// real server process

static PORT_N: AtomicU64 = AtomicU64::new(0);

/// A port that is currently free for UDP and TCP on loopback (from a per-process rotating range).
pub fn free_port() -> u16 {
    loop {
        let n = PORT_N.fetch_add(1, std::sync::atomic::Ordering::Relaxed);
        // below the kernel's ephemeral range (32768..), so that port-0 client sockets never take it
        let p = 10000 + ((std::process::id() as u64 * 131 + n * 7) % 22000) as u16;
        let u = UdpSocket::bind(("127.0.0.1", p));
        let t = std::net::TcpListener::bind(("127.0.0.1", p));
        if u.is_ok() && t.is_ok() {
            return p;
        }
    }
}

// ---------------------------------------------------------------------------------------------
// every server process the harness starts is registered; whatever way the harness ends (normal
// exit, machinery error, panic, SIGTERM/SIGINT from a timeout wrapper) the registered ones are killed

static CHILD_PIDS: [std::sync::atomic::AtomicI32; 2048] = [const { std::sync::atomic::AtomicI32::new(0) }; 2048];

fn register_child(pid: u32) {
    for s in CHILD_PIDS.iter() {
        if s.compare_exchange(0, pid as i32, std::sync::atomic::Ordering::SeqCst, std::sync::atomic::Ordering::SeqCst).is_ok() {
            return;
        }
    }
}

fn unregister_child(pid: u32) {
    for s in CHILD_PIDS.iter() {
        if s.compare_exchange(pid as i32, 0, std::sync::atomic::Ordering::SeqCst, std::sync::atomic::Ordering::SeqCst).is_ok() {
            return;
        }
    }
}

/// Async-signal-safe: only atomics and kill(2).
pub fn kill_registered_children() {
    for s in CHILD_PIDS.iter() {
        let p = s.swap(0, std::sync::atomic::Ordering::SeqCst);
        if p > 0 {
            unsafe {
                libc::kill(p, libc::SIGKILL);
            }
        }
    }
}

extern "C" fn on_fatal_signal(_sig: libc::c_int) {
    kill_registered_children();
    unsafe { libc::_exit(2) }
}

pub fn install_child_reaper() {
    unsafe {
        libc::signal(libc::SIGTERM, on_fatal_signal as usize);
        libc::signal(libc::SIGINT, on_fatal_signal as usize);
        libc::signal(libc::SIGHUP, on_fatal_signal as usize);
    }
}

pub struct ServerProc {
    pub child: Option<Child>,
    pub pid: u32,
    pub dir: PathBuf,
    pub port: u16,
}

impl ServerProc {
    pub fn start(w: &Written, src: Source, extra_env: &[(String, String)]) -> Result<ServerProc, String> {
        let dir = scratch_dir();
        let mut cmd = Command::new(repo_bin("roughenough-server"));
        clean_env(&mut cmd);
        match src {
            Source::File => {
                let p = dir.join("server.yaml");
                std::fs::write(&p, w.yaml()).map_err(|e| e.to_string())?;
                cmd.arg(&p);
            }
            Source::Env => {
                cmd.arg("ENV");
                for (k, v) in w.env() {
                    cmd.env(k, v);
                }
            }
        }
        for (k, v) in extra_env {
            cmd.env(k, v);
        }
        let out = std::fs::File::create(dir.join("stdout")).map_err(|e| e.to_string())?;
        let err = std::fs::File::create(dir.join("stderr")).map_err(|e| e.to_string())?;
        cmd.stdin(Stdio::null()).stdout(out).stderr(err);
        let child = cmd.spawn().map_err(|e| format!("spawn server: {}", e))?;
        let pid = child.id();
        register_child(pid);
        let port = w.get("port").and_then(|p| p.parse().ok()).unwrap_or(0);
        Ok(ServerProc { child: Some(child), pid, dir, port })
    }
    /// Start the server (file source) with the given signals inherited as IGNORED, as a process
    /// started under nohup (SIGHUP) or as a background job of a non-interactive shell (SIGINT) is.
    pub fn start_ignoring(w: &Written, ignored: &[i32]) -> Result<ServerProc, String> {
        use std::os::unix::process::CommandExt;
        let dir = scratch_dir();
        let mut cmd = Command::new(repo_bin("roughenough-server"));
        clean_env(&mut cmd);
        let p = dir.join("server.yaml");
        std::fs::write(&p, w.yaml()).map_err(|e| e.to_string())?;
        cmd.arg(&p);
        let out = std::fs::File::create(dir.join("stdout")).map_err(|e| e.to_string())?;
        let err = std::fs::File::create(dir.join("stderr")).map_err(|e| e.to_string())?;
        cmd.stdin(Stdio::null()).stdout(out).stderr(err);
        let sigs: Vec<i32> = ignored.to_vec();
        unsafe {
            cmd.pre_exec(move || {
                for s in &sigs {
                    libc::signal(*s, libc::SIG_IGN);
                }
                Ok(())
            });
        }
        let child = cmd.spawn().map_err(|e| format!("spawn server: {}", e))?;
        let pid = child.id();
        register_child(pid);
        let port = w.get("port").and_then(|p| p.parse().ok()).unwrap_or(0);
        Ok(ServerProc { child: Some(child), pid, dir, port })
    }
    /// Start the server on a configuration file with exactly this content.
    pub fn start_raw(file_content: &[u8], port: u16) -> Result<ServerProc, String> {
        let dir = scratch_dir();
        let mut cmd = Command::new(repo_bin("roughenough-server"));
        clean_env(&mut cmd);
        let p = dir.join("server.yaml");
        std::fs::write(&p, file_content).map_err(|e| e.to_string())?;
        cmd.arg(&p);
        let out = std::fs::File::create(dir.join("stdout")).map_err(|e| e.to_string())?;
        let err = std::fs::File::create(dir.join("stderr")).map_err(|e| e.to_string())?;
        cmd.stdin(Stdio::null()).stdout(out).stderr(err);
        let child = cmd.spawn().map_err(|e| format!("spawn server: {}", e))?;
        let pid = child.id();
        register_child(pid);
        Ok(ServerProc { child: Some(child), pid, dir, port })
    }
    pub fn stdout(&self) -> String {
        std::fs::read_to_string(self.dir.join("stdout")).unwrap_or_default()
    }
    pub fn stderr(&self) -> String {
        std::fs::read_to_string(self.dir.join("stderr")).unwrap_or_default()
    }
    /// None while running
    pub fn try_status(&mut self) -> Option<(Option<i32>, Option<i32>)> {
        use std::os::unix::process::ExitStatusExt;
        match self.child.as_mut().and_then(|c| c.try_wait().ok()).flatten() {
            Some(s) => Some((s.code(), s.signal())),
            None => None,
        }
    }
    /// Wait until `n` workers have printed their start-up block, or the process exits, or a
    /// worker panicked (stderr), or the deadline passes. Returns the number of blocks seen.
    pub fn wait_started(&mut self, n: usize, timeout: Duration) -> usize {
        static HUNG_STARTS: std::sync::atomic::AtomicUsize = std::sync::atomic::AtomicUsize::new(0);
        let start = Instant::now();
        let mut last_change = Instant::now();
        let mut last = (0usize, 0usize);
        loop {
            let so = self.stdout();
            let seen = so.matches("Deliberate response errors").count();
            let errlen = self.stderr().len();
            if (seen, errlen) != last {
                last = (seen, errlen);
                last_change = Instant::now();
            }
            if seen >= n || self.try_status().is_some() {
                return seen;
            }
            // a start-up that prints nothing for a long time is stuck: no point in waiting out the
            // whole timeout (shorter once several starts of this run were stuck: a broken tree)
            let quiet = if HUNG_STARTS.load(std::sync::atomic::Ordering::Relaxed) >= 3 { Duration::from_secs(3) } else { Duration::from_secs(8) };
            if start.elapsed() > timeout || last_change.elapsed() > quiet {
                HUNG_STARTS.fetch_add(1, std::sync::atomic::Ordering::Relaxed);
                return seen;
            }
            // a worker panicked and nothing has moved for a while: start-up is over
            if errlen > 0 && last_change.elapsed() > Duration::from_millis(400) {
                return seen;
            }
            std::thread::sleep(Duration::from_millis(2));
        }
    }
    /// Thread id of the thread with this name (from /proc/<pid>/task/*/comm), if any.
    pub fn tid_of(&self, name: &str) -> Option<i32> {
        let rd = std::fs::read_dir(format!("/proc/{}/task", self.pid)).ok()?;
        let mut tids: Vec<i32> = vec![];
        for e in rd.flatten() {
            if let Ok(c) = std::fs::read_to_string(e.path().join("comm")) {
                if c.trim() == name {
                    if let Ok(t) = e.file_name().to_string_lossy().parse::<i32>() {
                        tids.push(t);
                    }
                }
            }
        }
        // (a helper thread a worker starts inherits its name: the worker itself is the older one)
        tids.sort();
        tids.first().copied()
    }
    /// Deliver a signal to ONE thread of the server (tgkill).
    pub fn signal_thread(&self, tid: i32, sig: i32) {
        unsafe {
            libc::syscall(libc::SYS_tgkill, self.pid as libc::c_long, tid as libc::c_long, sig as libc::c_long);
        }
    }
    pub fn thread_names(&self) -> Vec<String> {
        let mut v = vec![];
        if let Ok(rd) = std::fs::read_dir(format!("/proc/{}/task", self.pid)) {
            for e in rd.flatten() {
                if let Ok(s) = std::fs::read_to_string(e.path().join("comm")) {
                    v.push(s.trim().to_string());
                }
            }
        }
        v.sort();
        v
    }
    pub fn signal(&self, sig: i32) {
        unsafe {
            libc::kill(self.pid as i32, sig);
        }
    }
    /// Wait for exit up to `timeout`; returns (code, signal, seconds) or None.
    pub fn wait_exit(&mut self, timeout: Duration) -> Option<(Option<i32>, Option<i32>, f64)> {
        let start = Instant::now();
        loop {
            if let Some((c, s)) = self.try_status() {
                return Some((c, s, start.elapsed().as_secs_f64()));
            }
            if start.elapsed() > timeout {
                return None;
            }
            std::thread::sleep(Duration::from_millis(1));
        }
    }
    pub fn kill(&mut self) {
        if let Some(c) = self.child.as_mut() {
            let _ = c.kill();
            let _ = c.wait();
        }
        unregister_child(self.pid);
    }
}

impl Drop for ServerProc {
    fn drop(&mut self) {
        self.kill();
        let _ = std::fs::remove_dir_all(&self.dir);
    }
}

/// Send classic requests from up to `max_clients` fresh sockets and return, per distinct
/// delegated (online) public key seen in the replies, the number of authentic replies.
/// Stops early once `want` distinct keys have answered.
pub fn probe_workers(port: u16, lt_pk: &[u8], want: usize, max_clients: usize, allow_invalid: bool) -> (std::collections::BTreeMap<Vec<u8>, usize>, usize, usize) {
    use rtref::verifier::{authentic, SERVER_VIEW};
    let addr: SocketAddr = format!("127.0.0.1:{}", port).parse().unwrap();
    let mut keys = std::collections::BTreeMap::new();
    let mut sent = 0;
    let mut bad = 0;
    let mut k = 0u64;
    let mut silent_waves = 0;
    // requests a live server left unanswered: each is a lost request (a worker that does not serve);
    // ten of them settle the matter, no need to wait out 48N+32 timeouts
    let mut unanswered = 0usize;
    while sent < max_clients && keys.len() < want && silent_waves < 2 && unanswered < 10 {
        // a small wave of sockets at a time
        let wave: Vec<(UdpSocket, Vec<u8>)> = (0..8.min(max_clients - sent))
            .map(|_| {
                k += 1;
                let s = UdpSocket::bind("127.0.0.1:0").unwrap();
                s.set_read_timeout(Some(Duration::from_millis(1500))).unwrap();
                let req = rtref::responder::std_request(rtref::Version::Classic, &crate::inproc::nonce(0xabc000 + k, 64));
                let _ = s.send_to(&req, addr);
                (s, req)
            })
            .collect();
        sent += wave.len();
        let mut buf = [0u8; 4096];
        let before: usize = keys.values().sum::<usize>() + bad;
        for (wi, (s, req)) in wave.iter().enumerate() {
            if wi > 0 && keys.values().sum::<usize>() + bad == before {
                // nothing answered the first socket of this wave: do not wait the full timeout on the rest
                s.set_read_timeout(Some(Duration::from_millis(150))).unwrap();
            } else if unanswered >= 4 {
                s.set_read_timeout(Some(Duration::from_millis(500))).unwrap();
            }
            let mut got_datagram = false;
            loop {
                match s.recv_from(&mut buf) {
                    Ok((l, _)) => {
                        got_datagram = true;
                        match authentic(&buf[..l], req, rtref::Version::Classic, Some(lt_pk), SERVER_VIEW) {
                            Ok(info) => *keys.entry(info.online_pk).or_insert(0) += 1,
                            Err(_) => {
                                if allow_invalid {
                                    // fault injection: identify the worker by the CERT if it still decodes
                                    if let Some(pk) = rtref::codec::decode(&buf[..l]).ok().and_then(|m| m.get("CERT").and_then(|c| rtref::codec::decode(c).ok())).and_then(|c| c.get("DELE").and_then(|d| rtref::codec::decode(d).ok())).and_then(|d| d.get("PUBK").map(|p| p.to_vec())) {
                                        *keys.entry(pk).or_insert(0) += 1;
                                    }
                                } else {
                                    bad += 1;
                                }
                            }
                        }
                        break;
                    }
                    Err(e) if e.kind() == std::io::ErrorKind::Interrupted => continue,
                    Err(_) => break,
                }
            }
            if !got_datagram {
                unanswered += 1;
            }
        }
        if keys.values().sum::<usize>() + bad == before {
            silent_waves += 1; // a dead server must not be waited for 48N+32 timeouts
        } else {
            silent_waves = 0;
        }
    }
    (keys, sent, bad)
}

pub const HTTP_RESPONSE: &str = "HTTP/1.1 200 OK\nContent-Length: 0\nConnection: close\n\n";

/// Connect to the health-check port and read the reply until EOF (or timeout).
pub fn health_probe(port: u16, timeout: Duration) -> Result<Vec<u8>, String> {
    use std::net::TcpStream;
    let addr: SocketAddr = format!("127.0.0.1:{}", port).parse().unwrap();
    let mut s = crate::util::tcp_connect(&addr, timeout).map_err(|e| format!("connect: {}", e))?;
    s.set_read_timeout(Some(timeout)).unwrap();
    let mut out = vec![];
    let mut buf = [0u8; 256];
    loop {
        match s.read(&mut buf) {
            Ok(0) => break,
            Ok(n) => out.extend_from_slice(&buf[..n]),
            Err(e) if e.kind() == std::io::ErrorKind::Interrupted => continue,
            Err(e) => return Err(format!("read: {} (got {} bytes)", e, out.len())),
        }
    }
    Ok(out)
}


/// C03 part 2: the real server binary as the honest peer; `-n k` so requests really land in batches.
pub fn c03_real_server_part(ctx: &Ctx, classes: &std::sync::Mutex<std::collections::BTreeMap<String, u64>>) -> Result<u64, String> {
    use serde_json::json;
    let ks: Vec<usize> = ctx.tier.pick(vec![1, 2, 3, 8, 33], vec![1, 2, 3, 5, 8, 16, 33, 64]);
    let lt_pk = rtref::crypto::public_key(&rtref::crypto::unhex(BASE_SEED_HEX).try_into().unwrap());
    let mut n = 0u64;
    // (batch_size, num_workers): with several workers the replies of one -n run come from
    // different workers, each with its own delegated key and certificate
    for (batch_size, workers) in [(64u8, 1usize), (3, 1), (64, 4)] {
        let (mut sp, port) = start_serving(
            &|port| {
                let mut w = Written::base(port);
                w.set("num_workers", &workers.to_string());
                w.set("batch_size", &batch_size.to_string());
                w
            },
            Source::File,
            workers,
            Duration::from_secs(10),
        )?;
        if sp.try_status().is_some() {
            return Err(format!("real server did not start: {}", sp.stderr()));
        }
        let mut server_gone = false;
        'protos: for proto in ["0", "13"] {
            for &k in &ks {
                for key in [None, Some(rtref::crypto::hex(&lt_pk)), Some(rtref::crypto::base64(&lt_pk, false, true))] {
                    let kstr = k.to_string();
                    let ps = port.to_string();
                    let mut args: Vec<&str> = vec!["-z", "-v", "-f", "%s %f", "-p", proto, "-n", &kstr, "-t", "5"];
                    if let Some(kk) = &key {
                        args.push("-k");
                        args.push(kk);
                    }
                    args.push("127.0.0.1");
                    args.push(&ps);
                    let t0 = std::time::SystemTime::now().duration_since(std::time::UNIX_EPOCH).unwrap().as_secs();
                    let mut cmd = Command::new(repo_bin("roughenough-client"));
                    cmd.args(&args).env("RUST_BACKTRACE", "0").stdin(Stdio::null()).stdout(Stdio::piped()).stderr(Stdio::piped());
                    let child = cmd.spawn().map_err(|e| e.to_string())?;
                    let ex = wait_child(child, Duration::from_secs(30));
                    let t1 = std::time::SystemTime::now().duration_since(std::time::UNIX_EPOCH).unwrap().as_secs();
                    n += 1;
                    let times = printed_times(&ex.stdout);
                    let max_index = ex.stderr.lines().filter_map(|l| l.split("merkle_index=").nth(1).and_then(|r| r.trim_end_matches(')').parse::<u32>().ok())).max().unwrap_or(0);
                    let cls = format!("real:p{}:{}:maxidx{}", proto, if ex.code == Some(0) && times.len() == k { "accepted" } else { "rejected" }, if max_index > 0 { ">0" } else { "=0" });
                    *classes.lock().unwrap().entry(cls).or_insert(0) += 1;
                    let detail = |m: String| json!({"kind":"honest","peer":"real-server","version":if proto == "0" {"classic"} else {"ietf13"},"n":k,"batch_size":batch_size,"num_workers":workers,"key":key.is_some(),"message":m,"exit":ex.code,"stdout":ex.stdout.lines().take(6).collect::<Vec<_>>(),"stderr_first":ex.stderr.lines().filter(|l| l.contains("panicked") || l.contains("Nonce")).take(3).collect::<Vec<_>>()});
                    let vclass = format!("{}{}{}", if proto == "0" { "classic" } else { "ietf13" }, if k > 1 { "/n>=2" } else { "/n=1" }, if workers > 1 { "/several-workers" } else { "" });
                    if ex.code != Some(0) || times.len() != k {
                        ctx.violation("honest-reply-rejected", if ex.stderr.contains("merkle") { "merkle" } else { "other" }, &vclass, detail(format!("{} of {} times printed", times.len(), k)));
                        if sp.try_status().is_some() {
                            // the server is gone: every further run would only wait out the client's timeout
                            server_gone = true;
                            break 'protos;
                        }
                        continue;
                    }
                    // every printed time lies within the harness clock bracket (+/- 1 s for rounding)
                    if times.iter().any(|t| t.0 + 1 < t0 || t.0 > t1 + 1) {
                        ctx.violation("printed-time-differs", "client", &vclass, detail(format!("printed {:?} outside [{}, {}]", times, t0, t1)));
                    }
                    let yes = ex.stderr.matches("verified=Yes").count();
                    if (key.is_some() && yes != k) || (key.is_none() && yes != 0) {
                        ctx.violation("verified-flag", "client", &vclass, detail(format!("verified=Yes printed {} times for {} requests, key given: {}", yes, k, key.is_some())));
                    }
                }
            }
        }
        let _ = server_gone;
        sp.kill();
    }
    Ok(n)
}

/// C03 part 3: the real server as honest peer when the client's requests share a batch with other
/// traffic. A forwarding proxy takes the client's -n k requests, stops the server process (SIGSTOP),
/// queues them on its socket together with "company" (a request of the other protocol, a junk
/// datagram — in front of, between or behind them), lets it continue (SIGCONT) and hands the
/// server's replies to the client. The client must accept every one.
pub fn c03_mixed_company_part(ctx: &Ctx, classes: &std::sync::Mutex<std::collections::BTreeMap<String, u64>>) -> Result<u64, String> {
    use serde_json::json;
    let lt_pk = rtref::crypto::public_key(&rtref::crypto::unhex(BASE_SEED_HEX).try_into().unwrap());
    let (mut sp, port) = start_serving(
        &|port| {
            let mut w = Written::base(port);
            w.set("num_workers", "1");
            w.set("batch_size", "64");
            w
        },
        Source::File,
        1,
        Duration::from_secs(10),
    )?;
    if sp.try_status().is_some() {
        return Err(format!("real server did not start: {}", sp.stderr()));
    }
    let server: SocketAddr = format!("127.0.0.1:{}", port).parse().unwrap();
    let pid = sp.pid;
    let stopped = |want: bool| {
        let t0 = std::time::Instant::now();
        while t0.elapsed() < Duration::from_millis(500) {
            let st = std::fs::read_to_string(format!("/proc/{}/stat", pid)).ok().and_then(|s| s.rsplit(')').next().map(|r| r.trim_start().starts_with('T'))).unwrap_or(false);
            if st == want {
                return;
            }
            std::thread::sleep(Duration::from_millis(2));
        }
    };
    let mut n = 0u64;
    let ks: Vec<usize> = ctx.tier.pick(vec![2, 3], vec![1, 2, 3, 5, 8]);
    for proto in ["0", "13"] {
        let (mine, other) = if proto == "0" { (rtref::Version::Classic, rtref::Version::Ietf13) } else { (rtref::Version::Ietf13, rtref::Version::Classic) };
        for &k in &ks {
            for company in ["other-protocol-first", "junk-first", "other-protocol-between", "junk-between", "other-protocol-last", "both-first"] {
                let kstr = k.to_string();
                let keyhex = rtref::crypto::hex(&lt_pk);
                let args = ["-z", "-v", "-f", "%s %f", "-p", proto, "-n", kstr.as_str(), "-t", "5", "-k", keyhex.as_str()];
                let mut upstream_err: Option<String> = None;
                let mut forwarded: Vec<(Vec<u8>, Vec<u8>)> = vec![];
                let run = run_client(&args, k, |reqs| {
                    // the datagrams in the order they are queued on the server's socket; None = company
                    let other_req = rtref::responder::std_request(other, &crate::inproc::nonce(0xc03_7000 + n, other.nonce_len()));
                    let junk = vec![0x5au8; 1024];
                    let mut order: Vec<(Option<usize>, Vec<u8>)> = reqs.iter().enumerate().map(|(i, r)| (Some(i), r.0.clone())).collect();
                    let mid = (order.len() + 1) / 2;
                    match company {
                        "other-protocol-first" => order.insert(0, (None, other_req)),
                        "junk-first" => order.insert(0, (None, junk)),
                        "other-protocol-between" => order.insert(mid, (None, other_req)),
                        "junk-between" => order.insert(mid, (None, junk)),
                        "other-protocol-last" => order.push((None, other_req)),
                        _ => {
                            order.insert(0, (None, junk));
                            order.insert(0, (None, other_req));
                        }
                    }
                    let socks: Vec<UdpSocket> = order.iter().map(|_| UdpSocket::bind("127.0.0.1:0").unwrap()).collect();
                    unsafe {
                        libc::kill(pid as i32, libc::SIGSTOP);
                    }
                    stopped(true);
                    for (s, (_, d)) in socks.iter().zip(&order) {
                        s.set_read_timeout(Some(Duration::from_secs(4))).unwrap();
                        let _ = s.send_to(d, server);
                    }
                    unsafe {
                        libc::kill(pid as i32, libc::SIGCONT);
                    }
                    let mut out: Vec<Vec<Vec<u8>>> = vec![vec![]; reqs.len()];
                    let mut buf = [0u8; 4096];
                    for (s, (who, d)) in socks.iter().zip(&order) {
                        if let Some(i) = who {
                            match s.recv_from(&mut buf) {
                                Ok((l, _)) => {
                                    forwarded.push((d.clone(), buf[..l].to_vec()));
                                    out[*i].push(buf[..l].to_vec());
                                }
                                Err(e) => upstream_err = Some(format!("the real server left request {} of the client unanswered ({})", i, e)),
                            }
                        }
                    }
                    out
                })?;
                n += 1;
                let times = printed_times(&run.exit.stdout);
                let ok = run.exit.code == Some(0) && times.len() == k;
                *classes.lock().unwrap().entry(format!("real-mixed-company:p{}:{}:{}", proto, company, if ok { "accepted" } else { "rejected" })).or_insert(0) += 1;
                if !ok {
                    let verdicts: Vec<String> = forwarded.iter().map(|(rq, rp)| match rtref::verifier::authentic(rp, rq, mine, Some(&lt_pk), rtref::verifier::SERVER_VIEW) { Ok(_) => "authentic".to_string(), Err(c) => format!("not authentic: {}", c) }).collect();
                    ctx.violation("honest-reply-rejected", if run.exit.stderr.contains("merkle") { "merkle" } else { "other" }, &format!("{}/mixed-company", if proto == "0" { "classic" } else { "ietf13" }),
                        json!({"kind":"honest-mixed-company","peer":"real-server","version":if proto == "0" {"classic"} else {"ietf13"},"n":k,"company":company,"message":format!("{} of {} times printed; {}", times.len(), k, upstream_err.clone().unwrap_or_default()),
                            "reference_verdict_on_the_servers_replies":verdicts,"exit":run.exit.code,"stdout":run.exit.stdout.lines().take(6).collect::<Vec<_>>(),"stderr_first":run.exit.stderr.lines().filter(|l| l.contains("panicked") || l.contains("Nonce")).take(3).collect::<Vec<_>>()}));
                }
                if sp.try_status().is_some() {
                    return Ok(n);
                }
            }
        }
    }
    sp.kill();
    Ok(n)
}

/// C20 part 5: real server binary runs (file and ENV, accepted and refused) with stdout/stderr scanned.
pub fn c20_process_part(ctx: &Ctx, scanned: &AtomicU64) -> Result<u64, String> {
    use crate::checks::c20::Scanner;
    use serde_json::json;
    use std::sync::atomic::Ordering::Relaxed;
    let seeds: Vec<String> = vec![
        BASE_SEED_HEX.to_string(),
        "00".repeat(32),
        "ff".repeat(32),
        "0102030405060708090a0b0c0d0e0f101112131415161718191a1b1c1d1e1f20".to_string(),
        // seeds whose hex form has decimal digits only (YAML may type them as numbers)
        "1234567890123456789012345678901234567890123456789012345678901234".to_string(),
        "9".repeat(64),
    ];
    let mut runs = 0u64;
    for (si, seed_hex) in seeds.iter().enumerate() {
        let seed: [u8; 32] = rtref::crypto::unhex(seed_hex).try_into().unwrap();
        let sc = Scanner::for_seed(&seed);
        // variants: (description, mutate written, expect running)
        let variants: Vec<(&str, Box<dyn Fn(&mut Written)>)> = vec![
            ("accepted", Box::new(|_w: &mut Written| {})),
            ("accepted-fault-50", Box::new(|w: &mut Written| w.set("fault_percentage", "50"))),
            // the seed written in upper-case / mixed-case hexadecimal (legal spellings)
            ("accepted-seed-upper-case", Box::new(|w: &mut Written| { let s = w.get("seed").unwrap_or("").to_uppercase(); w.set("seed", &s) })),
            ("accepted-seed-mixed-case", Box::new(|w: &mut Written| { let s: String = w.get("seed").unwrap_or("").chars().enumerate().map(|(i, c)| if i % 3 == 0 { c.to_ascii_uppercase() } else { c }).collect(); w.set("seed", &s) })),
            ("refused-batch-size", Box::new(|w: &mut Written| w.set("batch_size", "65"))),
            ("refused-port", Box::new(|w: &mut Written| w.set("port", "0"))),
            ("refused-unknown-key", Box::new(|w: &mut Written| w.set("frobnicate", "1"))),
            ("refused-fault", Box::new(|w: &mut Written| w.set("fault_percentage", "51"))),
            ("refused-interval", Box::new(|w: &mut Written| w.set("status_interval", "abc"))),
            ("refused-workers", Box::new(|w: &mut Written| w.set("num_workers", "0"))),
            ("refused-kms", Box::new(|w: &mut Written| w.set("kms_protection", "arn:aws:kms:x"))),
            ("refused-interface", Box::new(|w: &mut Written| w.set("interface", "not-an-address"))),
        ];
        for (vi, (what, f)) in variants.iter().enumerate() {
            for src in [Source::File, Source::Env] {
                if *what == "refused-unknown-key" && src == Source::Env {
                    continue;
                }
                if si > 0 && vi > 5 && src == Source::Env {
                    continue;
                }
                let port = free_port();
                let mut w = Written::base(port);
                w.set("seed", seed_hex);
                w.set("num_workers", "2");
                f(&mut w);
                let mut sp = ServerProc::start(&w, src, &[])?;
                sp.wait_started(2, Duration::from_secs(10));
                let mut received: Vec<Vec<u8>> = vec![];
                if sp.try_status().is_none() {
                    // some traffic: valid classic + IETF, invalid, then SIGINT
                    let addr: SocketAddr = format!("127.0.0.1:{}", port).parse().unwrap();
                    let s = UdpSocket::bind("127.0.0.1:0").unwrap();
                    s.set_read_timeout(Some(Duration::from_millis(500))).unwrap();
                    for (k, v) in [rtref::Version::Classic, rtref::Version::Ietf13, rtref::Version::Classic].iter().enumerate() {
                        let _ = s.send_to(&rtref::responder::std_request(*v, &crate::inproc::nonce(0xc20 + k as u64, v.nonce_len())), addr);
                    }
                    let _ = s.send_to(&[0u8; 1024], addr);
                    let _ = s.send_to(&[1u8; 10], addr);
                    let mut buf = [0u8; 4096];
                    for _ in 0..3 {
                        if let Ok((l, _)) = s.recv_from(&mut buf) {
                            received.push(buf[..l].to_vec());
                        }
                    }
                    sp.signal(libc::SIGINT);
                    let _ = sp.wait_exit(Duration::from_secs(10));
                }
                runs += 1;
                let so = sp.stdout();
                let se = sp.stderr();
                for (wh, text) in [("stdout", so.as_bytes()), ("stderr", se.as_bytes())] {
                    scanned.fetch_add(text.len() as u64, Relaxed);
                    if let Some(p) = sc.scan(text) {
                        let line = String::from_utf8_lossy(text).lines().find(|l| sc.scan(l.as_bytes()).is_some()).unwrap_or("").to_string();
                        ctx.violation("secret-in-process-output", p.split('/').next().unwrap_or("?"), what, json!({"kind":"process","variant":what,"source":format!("{:?}", src),"seed":seed_hex,"where":wh,"pattern":p,"line":line.chars().take(300).collect::<String>()}));
                    }
                }
                for d in &received {
                    scanned.fetch_add(d.len() as u64, Relaxed);
                    if let Some(p) = sc.scan(d) {
                        ctx.violation("secret-in-datagram", p.split('/').next().unwrap_or("?"), "datagram", json!({"kind":"process","variant":what,"pattern":p}));
                    }
                }
                sp.kill();
            }
        }
    }
    // per-client statistics persisted to disk: the files the reporter writes are emitted output too
    {
        let seed_hex = BASE_SEED_HEX;
        let seed: [u8; 32] = rtref::crypto::unhex(seed_hex).try_into().unwrap();
        let sc = Scanner::for_seed(&seed);
        for src in [Source::File, Source::Env] {
            let dir = scratch_dir();
            let dirs = dir.display().to_string();
            let (mut sp, port) = start_serving(
                &|port| {
                    let mut w = Written::base(port);
                    w.set("num_workers", "2");
                    w.set("client_stats", "on");
                    w.set("persistence_directory", &dirs);
                    w.set("status_interval", "1");
                    w
                },
                src,
                2,
                Duration::from_secs(10),
            )?;
            let lt_pk = rtref::crypto::public_key(&seed);
            let t = Instant::now();
            while t.elapsed() < Duration::from_millis(2400) {
                let _ = probe_workers(port, &lt_pk, 3, 8, false);
                std::thread::sleep(Duration::from_millis(50));
            }
            sp.signal(libc::SIGINT);
            let _ = sp.wait_exit(Duration::from_secs(10));
            runs += 1;
            let mut files = 0;
            // everything below the persistence directory, at any depth; the NAMES of files and
            // directories the server created are emitted output too
            let mut all: Vec<PathBuf> = vec![];
            let mut stack = vec![dir.clone()];
            while let Some(d) = stack.pop() {
                if let Ok(rd) = std::fs::read_dir(&d) {
                    for e in rd.flatten() {
                        let p = e.path();
                        if p.is_dir() {
                            stack.push(p.clone());
                        }
                        all.push(p);
                    }
                }
            }
            for p in &all {
                if let Ok(rel) = p.strip_prefix(&dir) {
                    let name = rel.display().to_string();
                    // (the server's own configuration file and output files of this run live here too)
                    if let Some(pt) = sc.scan(name.as_bytes()) {
                        ctx.violation("secret-in-persisted-stats", pt.split('/').next().unwrap_or("?"), "file-or-directory-name", json!({"kind":"process","variant":"client-stats-persisted","source":format!("{:?}", src),"where":"name of a file or directory the server created","name":name,"pattern":pt}));
                    }
                }
            }
            {
                for p in all.iter().filter(|p| p.is_file()) {
                    let p = p.clone();
                    if p.extension().map(|x| x == "zst").unwrap_or(false) {
                        files += 1;
                        let raw = std::fs::read(&p).unwrap_or_default();
                        let plain = zstd::decode_all(&raw[..]).unwrap_or_default();
                        for (wh, text) in [("stats-file(compressed)", &raw), ("stats-file", &plain)] {
                            scanned.fetch_add(text.len() as u64, Relaxed);
                            if let Some(pt) = sc.scan(text) {
                                ctx.violation("secret-in-persisted-stats", pt.split('/').next().unwrap_or("?"), "stats-file", json!({"kind":"process","variant":"client-stats-persisted","source":format!("{:?}", src),"where":wh,"pattern":pt}));
                            }
                        }
                    }
                }
            }
            for (wh, text) in [("stdout", sp.stdout()), ("stderr", sp.stderr())] {
                scanned.fetch_add(text.len() as u64, Relaxed);
                if let Some(pt) = sc.scan(text.as_bytes()) {
                    ctx.violation("secret-in-process-output", pt.split('/').next().unwrap_or("?"), "client-stats-persisted", json!({"kind":"process","variant":"client-stats-persisted","source":format!("{:?}", src),"where":wh,"pattern":pt}));
                }
            }
            ctx.cov(&format!("persisted_stats_files_{:?}", src), json!(files));
            sp.kill();
            let _ = std::fs::remove_dir_all(&dir);
        }
    }
    // configuration files whose STRUCTURE is not what the server expects (the seed is in the file
    // all the same): settings as a list, a bare scalar, nested mappings, the seed as a sequence or
    // mapping, several documents, wrong-case keys, broken quoting, trailing garbage, binary junk.
    // (Not: the seed's text written as the value of ANOTHER setting or as a key — a server that
    // echoes an invalid port value echoes what the operator wrote as the port, not its seed.)
    {
        let n = std::sync::atomic::AtomicU64::new(0);
        let failed: std::sync::Mutex<Option<String>> = std::sync::Mutex::new(None);
        let mut cases: Vec<(String, String, Vec<u8>, u16)> = vec![]; // seed hex, description, file content, port
        for seed_hex in seeds.iter().take(3).chain(seeds.iter().skip(4).take(1)) {
            let x = seed_hex.as_str();
            let docs: Vec<(&str, String)> = vec![
                ("settings-as-list", "- seed: {X}\n- port: {P}\n- interface: 127.0.0.1\n- num_workers: 2\n".into()),
                ("list-of-one-mapping", "- seed: {X}\n  port: {P}\n  interface: 127.0.0.1\n".into()),
                ("bare-seed-scalar", "{X}\n".into()),
                ("list-of-seed-scalar", "- {X}\n".into()),
                ("nested-under-key", "server:\n  seed: {X}\n  port: {P}\n  interface: 127.0.0.1\n".into()),
                ("seed-as-flow-sequence", "interface: 127.0.0.1\nport: {P}\nseed: [{X}]\n".into()),
                ("seed-as-block-sequence", "interface: 127.0.0.1\nport: {P}\nseed:\n  - {X}\n".into()),
                ("seed-as-mapping", "interface: 127.0.0.1\nport: {P}\nseed: {hex: {X}}\n".into()),
                ("seed-written-twice", "interface: 127.0.0.1\nport: {P}\nseed: {X}\nseed: {X}\n".into()),
                ("two-documents", "---\ninterface: 127.0.0.1\nport: {P}\nseed: {X}\n---\nseed: {X}\n".into()),
                ("seed-single-quoted", "interface: 127.0.0.1\nport: {P}\nseed: '{X}'\n".into()),
                ("seed-double-quoted-trailing-comment", "interface: 127.0.0.1\nport: {P}\nseed: \"{X}\"   # the seed\n".into()),
                ("seed-unterminated-quote", "interface: 127.0.0.1\nport: {P}\nseed: \"{X}\n".into()),
                ("key-upper-case", "interface: 127.0.0.1\nport: {P}\nSEED: {X}\n".into()),
                ("key-capitalised", "interface: 127.0.0.1\nport: {P}\nSeed: {X}\n".into()),
                ("seed-with-0x-prefix", "interface: 127.0.0.1\nport: {P}\nseed: 0x{X}\n".into()),
                ("seed-with-trailing-text", "interface: 127.0.0.1\nport: {P}\nseed: {X} extra\n".into()),
                ("tab-indented-garbage-after", "interface: 127.0.0.1\nport: {P}\nseed: {X}\n\t}} not yaml {{\n".into()),
                ("binary-junk-then-seed", "\u{1}\u{2}\u{3}: \u{7f}\nseed: {X}\n".into()),
                ("empty-file-comment-only", "# seed: {X}\n".into()),
            ];
            for (what, tmpl) in docs {
                let port = free_port();
                let text = tmpl.replace("{X}", x).replace("{P}", &port.to_string());
                cases.push((seed_hex.clone(), what.to_string(), text.into_bytes(), port));
            }
            // every other setting given a value of an unexpected YAML type (null, tilde, integer for a
            // string, sequence, mapping, boolean, real), written after and before the seed line
            if cases.len() < 200 {
                let keys = ["interface", "port", "batch_size", "status_interval", "fault_percentage", "num_workers", "client_stats", "persistence_directory", "kms_protection", "health_check_port"];
                for key in keys {
                    for val in ["", "~", "0", "[]", "{}", "true", "1.5"] {
                        for seed_first in [true, false] {
                            let port = free_port();
                            let mut lines: Vec<String> = vec![];
                            if key != "interface" {
                                lines.push("interface: 127.0.0.1".into());
                            }
                            if key != "port" {
                                lines.push(format!("port: {}", port));
                            }
                            let seed_line = format!("seed: {}", x);
                            let odd = format!("{}: {}", key, val);
                            if seed_first {
                                lines.insert(0, seed_line);
                                lines.insert(1, odd);
                            } else {
                                lines.push(odd);
                                lines.push(seed_line);
                            }
                            cases.push((seed_hex.clone(), format!("value-type:{}={:?}:{}", key, val, if seed_first { "after-seed" } else { "before-seed" }), (lines.join("\n") + "\n").into_bytes(), port));
                        }
                    }
                }
            }
        }
        crate::util::par_for(cases.len(), 1, |k, _| {
            let (seed_hex, what, content, port) = &cases[k];
            let seed: [u8; 32] = rtref::crypto::unhex(seed_hex).try_into().unwrap();
            let sc = Scanner::for_seed(&seed);
            let mut sp = match ServerProc::start_raw(content, *port) {
                Ok(s) => s,
                Err(e) => {
                    *failed.lock().unwrap() = Some(e);
                    return;
                }
            };
            sp.wait_started(1, Duration::from_secs(3));
            if sp.try_status().is_none() {
                sp.signal(libc::SIGINT);
                let _ = sp.wait_exit(Duration::from_secs(5));
            }
            n.fetch_add(1, Relaxed);
            let so = sp.stdout();
            let se = sp.stderr();
            for (wh, text) in [("stdout", so.as_bytes()), ("stderr", se.as_bytes())] {
                scanned.fetch_add(text.len() as u64, Relaxed);
                if let Some(p) = sc.scan(text) {
                    let line = String::from_utf8_lossy(text).lines().find(|l| sc.scan(l.as_bytes()).is_some()).unwrap_or("").to_string();
                    ctx.violation("secret-in-process-output", p.split('/').next().unwrap_or("?"), "config-file-structure", json!({"kind":"process","variant":what,"file":String::from_utf8_lossy(content),"seed":seed_hex,"where":wh,"pattern":p,"line":line.chars().take(300).collect::<String>()}));
                }
            }
            sp.kill();
        });
        if let Some(e) = failed.lock().unwrap().take() {
            return Err(e);
        }
        runs += n.load(Relaxed);
        ctx.cov("config_file_structure_cases", json!(n.load(Relaxed)));
    }
    // every point of the C16 configuration grid (one deviation from the minimal base and from the
    // base with every optional key set, per-client statistics with and without a directory), both
    // sources: error paths are where a configuration value is most likely to be echoed
    {
        use crate::checks::c16;
        let seed_hex = BASE_SEED_HEX;
        let seed: [u8; 32] = rtref::crypto::unhex(seed_hex).try_into().unwrap();
        let sc = Scanner::for_seed(&seed);
        let pdir = scratch_dir();
        let pdir_s = pdir.display().to_string();
        let g = c16::grid(&pdir_s);
        let mut cases: Vec<(Written, Source, String)> = vec![];
        for (key, lit, _) in &g {
            if *key == "seed" {
                continue; // the written seed differs from the scanned one on these points
            }
            for base_kind in 0..3 {
                let mut w = Written::base(0);
                match base_kind {
                    0 => {}
                    1 => {
                        for (k, v) in [("batch_size", "32"), ("status_interval", "10"), ("fault_percentage", "25"), ("client_stats", "on")] {
                            w.set(k, v);
                        }
                        w.set("persistence_directory", &pdir_s);
                    }
                    _ => {
                        // per-client statistics requested without a directory (refused)
                        w.set("client_stats", "on");
                    }
                }
                w.set("num_workers", "2");
                w.set(key, lit);
                for src in [Source::File, Source::Env] {
                    cases.push((w.clone(), src, format!("{}={}", key, lit)));
                }
            }
        }
        let n = std::sync::atomic::AtomicU64::new(0);
        let failed: std::sync::Mutex<Option<String>> = std::sync::Mutex::new(None);
        crate::util::par_for(cases.len(), 1, |k, _| {
            let (w0, src, what) = &cases[k];
            let mut w = w0.clone();
            if w.get("port") == Some("0") {
                w.set("port", &free_port().to_string());
            }
            let mut sp = match ServerProc::start(&w, *src, &[]) {
                Ok(s) => s,
                Err(e) => {
                    *failed.lock().unwrap() = Some(e);
                    return;
                }
            };
            sp.wait_started(2, Duration::from_secs(3));
            if sp.try_status().is_none() {
                sp.signal(libc::SIGINT);
                let _ = sp.wait_exit(Duration::from_secs(5));
            }
            n.fetch_add(1, Relaxed);
            let so = sp.stdout();
            let se = sp.stderr();
            for (wh, text) in [("stdout", so.as_bytes()), ("stderr", se.as_bytes())] {
                scanned.fetch_add(text.len() as u64, Relaxed);
                if let Some(p) = sc.scan(text) {
                    let line = String::from_utf8_lossy(text).lines().find(|l| sc.scan(l.as_bytes()).is_some()).unwrap_or("").to_string();
                    ctx.violation("secret-in-process-output", p.split('/').next().unwrap_or("?"), "config-grid", json!({"kind":"process","variant":what,"written":w.to_json(),"source":format!("{:?}", src),"where":wh,"pattern":p,"line":line.chars().take(300).collect::<String>()}));
                }
            }
            sp.kill();
        });
        let _ = std::fs::remove_dir_all(&pdir);
        if let Some(e) = failed.lock().unwrap().take() {
            return Err(e);
        }
        runs += n.load(Relaxed);
    }
    Ok(runs)
}

/// After a server died with "Address already in use": was that an external collision (somebody
/// else holds one of our ports, or the UDP bind of `main` itself failed) rather than the subject's
/// own doing? Used to retry with fresh ports instead of reporting a verdict.
pub fn external_port_collision(stderr: &str, ports: &[u16]) -> bool {
    if !stderr.contains("Address already in use") && !stderr.contains("AddrInUse") {
        return false;
    }
    if stderr.contains("thread 'main'") && stderr.contains("AddrInUse") && !stderr.contains("PoisonError") {
        return true;
    }
    ports.iter().any(|&p| UdpSocket::bind(("127.0.0.1", p)).is_err() || std::net::TcpListener::bind(("127.0.0.1", p)).is_err())
}

/// Start the real server on a fresh port and wait for its `n` workers; an external port collision
/// (somebody else bound the port between the free-port test and the server's bind) is retried.
pub fn start_serving(mk: &dyn Fn(u16) -> Written, src: Source, n: usize, timeout: Duration) -> Result<(ServerProc, u16), String> {
    let mut last = String::new();
    for _ in 0..4 {
        let port = free_port();
        let w = mk(port);
        let mut sp = ServerProc::start(&w, src, &[])?;
        sp.wait_started(n, timeout);
        if sp.try_status().is_some() {
            let se = sp.stderr();
            if external_port_collision(&se, &[port]) {
                last = se;
                continue;
            }
        }
        return Ok((sp, port));
    }
    Err(format!("could not start the server on a free port: {}", last.lines().next().unwrap_or("")))
}
