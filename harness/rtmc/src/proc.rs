//! Process-level harness (E-PROC).
pub fn cfgprobe_main(_arg: &str) -> ! {
    std::process::exit(2)
}
