//! Process-level harness (E-PROC): the real client and server binaries as black boxes.

use crate::ev::Ctx;
use std::io::Read;
use std::net::{SocketAddr, UdpSocket};
use std::path::PathBuf;
use std::process::{Child, Command, Stdio};
use std::sync::atomic::AtomicU64;
use std::time::{Duration, Instant};

pub fn repo_bin(name: &str) -> PathBuf {
    let dir = std::env::var("VERIF_REPO_BIN").unwrap_or_else(|_| format!("{}/target/repo/debug", crate::ev::verif_dir()));
    PathBuf::from(dir).join(name)
}

#[derive(Debug, Clone)]
pub struct Exit {
    pub code: Option<i32>,
    pub signal: Option<i32>,
    pub stdout: String,
    pub stderr: String,
    pub timed_out: bool,
}

/// Wait for a child with a deadline; kill on timeout. Collects stdout/stderr (piped).
pub fn wait_child(mut child: Child, timeout: Duration) -> Exit {
    use std::os::unix::process::ExitStatusExt;
    let start = Instant::now();
    // read pipes on helper threads so a chatty child cannot block
    let mut so = child.stdout.take();
    let mut se = child.stderr.take();
    let h1 = std::thread::spawn(move || {
        let mut s = String::new();
        if let Some(o) = so.as_mut() {
            let mut b = vec![];
            let _ = o.read_to_end(&mut b);
            s = String::from_utf8_lossy(&b).to_string();
        }
        s
    });
    let h2 = std::thread::spawn(move || {
        let mut s = String::new();
        if let Some(o) = se.as_mut() {
            let mut b = vec![];
            let _ = o.read_to_end(&mut b);
            s = String::from_utf8_lossy(&b).to_string();
        }
        s
    });
    let mut timed_out = false;
    let status = loop {
        match child.try_wait() {
            Ok(Some(s)) => break Some(s),
            Ok(None) => {
                if start.elapsed() > timeout {
                    let _ = child.kill();
                    timed_out = true;
                    break child.wait().ok();
                }
                std::thread::sleep(Duration::from_micros(300));
            }
            Err(_) => break None,
        }
    };
    let stdout = h1.join().unwrap_or_default();
    let stderr = h2.join().unwrap_or_default();
    Exit { code: status.and_then(|s| s.code()), signal: status.and_then(|s| s.signal()), stdout, stderr, timed_out }
}

// ---------------------------------------------------------------------------------------------
// client driver with a harness-owned responder

pub struct ClientRun {
    pub exit: Exit,
    /// requests received from the client, in arrival order, with their source address
    pub requests: Vec<(Vec<u8>, SocketAddr)>,
}

/// Run the real client against a loopback responder. `respond` gets all `n` requests once they
/// have arrived and returns, per request, the datagrams to send back to that request's source.
pub fn run_client<F>(args: &[&str], n: usize, respond: F) -> Result<ClientRun, String>
where
    F: FnOnce(&[(Vec<u8>, SocketAddr)]) -> Vec<Vec<Vec<u8>>>,
{
    let sock = UdpSocket::bind("127.0.0.1:0").map_err(|e| e.to_string())?;
    sock.set_read_timeout(Some(Duration::from_secs(10))).unwrap();
    let port = sock.local_addr().unwrap().port();
    let mut cmd = Command::new(repo_bin("roughenough-client"));
    cmd.args(args).arg("127.0.0.1").arg(port.to_string());
    cmd.env("RUST_BACKTRACE", "0").env("TZ", "UTC");
    cmd.stdin(Stdio::null()).stdout(Stdio::piped()).stderr(Stdio::piped());
    let child = cmd.spawn().map_err(|e| format!("spawn client: {}", e))?;
    let mut reqs = vec![];
    let mut buf = vec![0u8; 65536];
    while reqs.len() < n {
        match sock.recv_from(&mut buf) {
            Ok((l, from)) => reqs.push((buf[..l].to_vec(), from)),
            Err(e) if e.kind() == std::io::ErrorKind::Interrupted => continue,
            Err(e) => {
                let ex = wait_child(child, Duration::from_secs(1));
                return Err(format!("client sent {} of {} requests ({}); stderr: {}", reqs.len(), n, e, ex.stderr.lines().next().unwrap_or("")));
            }
        }
    }
    let replies = respond(&reqs);
    for (k, rs) in replies.iter().enumerate() {
        for r in rs {
            let _ = sock.send_to(r, reqs[k].1);
        }
    }
    let exit = wait_child(child, Duration::from_secs(20));
    if exit.timed_out {
        return Err("client did not exit within 20 s".into());
    }
    Ok(ClientRun { exit, requests: reqs })
}

/// Time lines printed by the client when run with `-z -f "%s %f"`: (secs, nanos) per line.
pub fn printed_times(stdout: &str) -> Vec<(u64, u32)> {
    let mut out = vec![];
    for l in stdout.lines() {
        let l = l.trim();
        let cand = if l.starts_with('{') {
            // { "midpoint": "S N", "radius": R, "verified": B, "merkle_index": I }
            match l.split("\"midpoint\": \"").nth(1).and_then(|r| r.split('"').next()) {
                Some(m) => m.to_string(),
                None => continue,
            }
        } else {
            l.to_string()
        };
        let p: Vec<&str> = cand.split(' ').collect();
        if p.len() == 2 && p[1].len() == 9 {
            if let (Ok(s), Ok(n)) = (p[0].parse::<u64>(), p[1].parse::<u32>()) {
                out.push((s, n));
            }
        }
    }
    out
}

pub fn cfgprobe_main(_arg: &str) -> ! {
    std::process::exit(2)
}

pub fn c20_process_part(_ctx: &Ctx, _scanned: &AtomicU64) -> Result<u64, String> {
    Ok(0)
}

pub fn c03_real_server_part(_ctx: &Ctx, _classes: &std::sync::Mutex<std::collections::BTreeMap<String, u64>>) -> Result<u64, String> {
    Ok(0)
}
