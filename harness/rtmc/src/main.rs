//! rtmc — bounded-exhaustive explorers for int08h/roughenough (see /verif/DESIGN.md).
//!
//! usage: rtmc check <ID> [--tier quick|thorough]
//!        rtmc replay <file>
//!        rtmc selftest
//!        rtmc cfgprobe <ENV|file>          (internal: C16 probe subprocess)
//!
//! exit: 0 property held on everything explored (known findings are printed, not alarms)
//!       1 violation (a line `VIOLATION property=<id> replay=<path>` is printed)
//!       2 machinery error (never a verdict)

mod audit;
mod checks;
mod ev;
mod inproc;
mod proc;
mod sched;
mod util;

use ev::{Ctx, Tier};

/// Every way out kills the server processes still registered (destructors do not run on exit()).
fn exit_clean(code: i32) -> ! {
    proc::kill_registered_children();
    std::process::exit(code)
}

fn usage() -> ! {
    eprintln!("usage: rtmc check <ID> [--tier quick|thorough] | replay <file> | selftest | cfgprobe <arg>");
    exit_clean(2);
}

/// One pass of a check; Some(message) if the machinery failed.
fn run_pass(ctx: &Ctx, id: &str) -> Option<String> {
    let r = std::panic::catch_unwind(std::panic::AssertUnwindSafe(|| checks::run(ctx)));
    if cfg!(feature = "no_responder_api") {
        let used = util::RESPONDER_API_SKIPPED.load(std::sync::atomic::Ordering::Relaxed);
        ctx.cov("harness_built_without_responder_api", serde_json::json!(if used { "the tree's roughenough::responder::Responder API differs from the one the harness is written against: the parts of this check that call it directly were skipped; everything else ran" } else { "yes (this check has no part that calls it)" }));
    }
    match r {
        Ok(Ok(())) => None,
        Ok(Err(e)) => {
            eprintln!("MACHINERY-ERROR {}: {}", id, e);
            Some(e)
        }
        Err(p) => {
            let m = format!("harness panic: {}", util::panic_msg(&p));
            eprintln!("MACHINERY-ERROR {}: {}", id, m);
            Some(m)
        }
    }
}

fn main() {
    let args: Vec<String> = std::env::args().collect();
    if args.len() < 2 {
        usage();
    }
    // Panics of the harness itself are machinery errors. Panics of the subject are caught by
    // the checks with catch_unwind; the hook stays quiet for those (see util::quiet_panics).
    util::install_panic_hook();
    proc::install_child_reaper();
    // some histories hold thousands of sockets at once: use the whole hard limit of open files
    unsafe {
        let mut rl = libc::rlimit { rlim_cur: 0, rlim_max: 0 };
        if libc::getrlimit(libc::RLIMIT_NOFILE, &mut rl) == 0 && rl.rlim_cur < rl.rlim_max {
            rl.rlim_cur = rl.rlim_max;
            libc::setrlimit(libc::RLIMIT_NOFILE, &rl);
        }
    }
    match args[1].as_str() {
        "selftest" => {
            if let Err(e) = rtref::selftest() {
                eprintln!("MACHINERY-ERROR rtref selftest failed: {}", e);
                exit_clean(2);
            }
            println!("rtref selftest ok");
        }
        "cfgprobe" => {
            if args.len() < 3 {
                usage();
            }
            proc::cfgprobe_main(&args[2]);
        }
        "c06-depth" => {
            if args.len() < 4 {
                usage();
            }
            checks::codec::depth_child(args[2].parse().unwrap(), &args[3]);
        }
        "check" => {
            if args.len() < 3 {
                usage();
            }
            let id = args[2].clone();
            let mut tier = match std::env::var("VERIF_TIER").ok().as_deref() {
                Some("thorough") => Tier::Thorough,
                _ => Tier::Quick,
            };
            let mut i = 3;
            while i < args.len() {
                match args[i].as_str() {
                    "--tier" => {
                        i += 1;
                        tier = match args.get(i).map(|s| s.as_str()) {
                            Some("quick") => Tier::Quick,
                            Some("thorough") => Tier::Thorough,
                            _ => usage(),
                        };
                    }
                    _ => usage(),
                }
                i += 1;
            }
            if let Err(e) = rtref::selftest() {
                eprintln!("MACHINERY-ERROR rtref selftest failed: {}", e);
                exit_clean(2);
            }
            let seed = std::env::var("VERIF_SEED").ok().and_then(|s| s.parse::<u64>().ok()).unwrap_or(1);
            inproc::watchdog_identity(&id, tier.name(), seed);
            // Pass 1. If it records candidate violations, the whole check is run a second time in
            // "patient" mode (the in-process harness pauses before every step of the event loop and
            // wants three idle steps for quiescence, so that late kernel delivery of what the
            // harness itself sent cannot masquerade as a lost datagram). Only what the second pass
            // finds is reported: a defect of the code under test is there on both passes, an
            // artefact of harness timing on a loaded machine is not.
            let mut ctx = Ctx::new(&id, tier, seed);
            let mut abort = run_pass(&ctx, &id);
            let first = ctx.unlisted_count();
            if first > 0 && std::env::var("VERIF_NO_CONFIRM").is_err() {
                eprintln!("pass 1: {} candidate violation(s); confirming with a second pass", first);
                let summary = ctx.candidate_summary();
                inproc::set_patient(true);
                ctx = Ctx::new(&id, tier, seed);
                abort = run_pass(&ctx, &id);
                ctx.cov("first_pass_candidates", serde_json::json!({"count": first, "groups": summary}));
                if ctx.unlisted_count() == 0 {
                    eprintln!("UNCONFIRMED property={}: {} candidate violation(s) of the first pass did not recur in the confirming pass (harness timing on a loaded machine); not reported", id, first);
                }
            }
            if let Some(e) = abort {
                // A machinery error is never a verdict; but witnesses recorded before it are: each
                // is a concrete failing input/history with its own replay file.
                if ctx.unlisted_count() == 0 {
                    exit_clean(2);
                }
                ctx.cov("aborted_by_machinery_error", serde_json::json!(e));
            }
            let code = ctx.finish();
            exit_clean(code);
        }
        "replay" => {
            if args.len() < 3 {
                usage();
            }
            let code = checks::replay(&args[2]);
            exit_clean(code);
        }
        _ => usage(),
    }
}
