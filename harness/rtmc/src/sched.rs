//! Controlled scheduler (E-SCHED): CHESS-style exploration of the real server process through
//! the cfg(roughenough_verif) hook points.

use crate::ev::Ctx;
use serde_json::{json, Value};

#[derive(Default)]
pub struct SchedSummary {
    pub executions: u64,
    pub states: u64,
    pub transitions: u64,
    pub bound_completed: i64,
    pub caps_hit: Vec<String>,
    pub scenarios: Vec<Value>,
}

impl SchedSummary {
    pub fn to_json(&self) -> Value {
        json!({"executions": self.executions, "distinct_hook_states": self.states, "transitions": self.transitions, "preemption_bound_completed": self.bound_completed, "scenarios": self.scenarios})
    }
}

pub fn c15_startup_schedules(_ctx: &Ctx) -> Result<SchedSummary, String> {
    Ok(SchedSummary::default())
}
