//! Controlled scheduler (E-SCHED).
