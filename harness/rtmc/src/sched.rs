//! Controlled scheduler (E-SCHED): CHESS-style stateless exploration of the real server process
//! through the cfg(roughenough_verif) hook points. Exactly one actor runs at a time; every
//! thread of the subject parks at each `point` until the controller releases it.
//!
//! Actors: main, worker-i, stats-reporting, env (a fixed program of sends / connects / signals).
//! Search: depth-first over choice sequences with replay from process start, canonical order
//! (running actor first, then main, workers ascending, reporter, env), iterative preemption bounding.

use crate::ev::Ctx;
use crate::proc::{free_port, scratch_dir, ServerProc, Source, Written, BASE_SEED_HEX};
use rtref::verifier::{authentic, SERVER_VIEW};
use rtref::Version;
use serde_json::{json, Value};
use std::collections::{BTreeMap, BTreeSet};
use std::io::{Read, Write};
use std::net::{SocketAddr, UdpSocket};
use std::os::unix::io::AsRawFd;
use std::os::unix::net::{UnixListener, UnixStream};
use std::sync::atomic::{AtomicU64, Ordering::Relaxed};
use std::sync::Mutex;
use std::time::{Duration, Instant};

#[derive(Clone, Debug, PartialEq)]
pub enum EnvAct {
    /// send a valid request of the given protocol from client socket #idx
    Send(usize, Version),
    ConnectTcp,
    Signal(i32),
    /// no action: the environment goes on only once every worker is back at the top of its loop with
    /// nothing pending (it has taken everything sent so far)
    WaitIdle,
}

impl EnvAct {
    pub fn name(&self) -> String {
        match self {
            EnvAct::Send(c, v) => format!("send(c{},{})", c, if *v == Version::Classic { "C" } else { "I" }),
            EnvAct::ConnectTcp => "connect_tcp".into(),
            EnvAct::Signal(s) => format!("signal({})", if *s == libc::SIGINT { "INT" } else { "TERM" }),
            EnvAct::WaitIdle => "wait_idle".into(),
        }
    }
}

#[derive(Clone, Debug)]
pub struct Scenario {
    pub name: String,
    pub workers: usize,
    pub health: bool,
    pub stats: bool,
    pub batch_size: u8,
    pub env: Vec<EnvAct>,
    /// every worker performs one idle iteration before it blocks in poll
    pub idle_iteration: bool,
    pub horizon: usize,
    /// what the end of an execution must look like
    pub expect: Expect,
    /// Serving: additionally let the process run freely at the end and probe all N workers over UDP
    /// (otherwise liveness is read off the hook state: every worker parked at loop_top, none exited)
    pub probe_at_end: bool,
}

#[derive(Clone, Copy, Debug, PartialEq, Eq)]
pub enum Expect {
    /// process alive, all N workers serving
    Serving,
    /// process exited with status 0 (a signal is part of the environment program)
    CleanExit,
}

impl Scenario {
    pub fn to_json(&self) -> Value {
        json!({"name": self.name, "num_workers": self.workers, "health_check_port": self.health, "client_stats": self.stats, "batch_size": self.batch_size,
               "env": self.env.iter().map(|e| e.name()).collect::<Vec<_>>(), "idle_iteration": self.idle_iteration, "horizon": self.horizon, "probe_at_end": self.probe_at_end})
    }
}

#[derive(Clone, Debug, PartialEq, Eq, PartialOrd, Ord, Hash)]
pub enum Actor {
    Main,
    Worker(usize),
    Reporter,
    Env,
}

impl Actor {
    fn thread_name(&self) -> String {
        match self {
            Actor::Main => "main".into(),
            Actor::Worker(i) => format!("worker-{}", i),
            Actor::Reporter => "stats-reporting".into(),
            Actor::Env => "env".into(),
        }
    }
    fn from_thread(n: &str) -> Option<Actor> {
        if n == "main" {
            Some(Actor::Main)
        } else if n == "stats-reporting" {
            Some(Actor::Reporter)
        } else {
            n.strip_prefix("worker-").and_then(|i| i.parse().ok()).map(Actor::Worker)
        }
    }
    pub fn name(&self) -> String {
        self.thread_name()
    }
}

#[derive(Default, Debug)]
struct ThreadState {
    conn: Option<usize>,
    parked: Option<(String, i64)>,
    exited: Option<String>,
    /// released and expected to park again or exit
    running: bool,
}

struct Conn {
    stream: UnixStream,
    buf: Vec<u8>,
}

#[derive(Clone, Debug)]
pub struct StepRec {
    pub enabled: Vec<String>,
    pub chosen: usize,
    pub running_still_enabled: bool,
    pub action: String,
}

pub struct Execution {
    pub steps: Vec<StepRec>,
    pub end: String, // "exit:<code>" | "signal:<n>" | "quiescent" | "horizon"
    pub trace: Vec<String>,
    pub violations: Vec<(String, String, String)>, // clause, site, message
    pub abstract_states: Vec<u64>,
    pub outcome_class: String,
}

pub struct ClientSock {
    pub sock: UdpSocket,
    pub port: u16,
}

/// Per-thread-slot resources that outlive executions: the server port, the candidate client
/// sockets (stable source ports) and the learned source-port -> worker map.
pub struct Slot {
    pub port: u16,
    pub hport: u16,
    pub clients: Vec<ClientSock>,
    pub map: BTreeMap<(usize, usize), Vec<usize>>, // (n_workers, worker) -> client indices
    pub dir: std::path::PathBuf,
    pub lt_pk: [u8; 32],
}

impl Slot {
    pub fn new(nclients: usize) -> Slot {
        let clients = (0..nclients)
            .map(|_| {
                let s = UdpSocket::bind("127.0.0.1:0").expect("bind client");
                s.set_nonblocking(true).unwrap();
                let port = s.local_addr().unwrap().port();
                ClientSock { sock: s, port }
            })
            .collect();
        Slot { port: free_port(), hport: free_port(), clients, map: BTreeMap::new(), dir: scratch_dir(), lt_pk: rtref::crypto::public_key(&rtref::crypto::unhex(BASE_SEED_HEX).try_into().unwrap()) }
    }
    fn drain_all(&self) -> Vec<Vec<Vec<u8>>> {
        let mut buf = [0u8; 4096];
        self.clients
            .iter()
            .map(|c| {
                let mut v = vec![];
                while let Ok((l, _)) = c.sock.recv_from(&mut buf) {
                    v.push(buf[..l].to_vec());
                }
                v
            })
            .collect()
    }
}

impl Drop for Slot {
    fn drop(&mut self) {
        let _ = std::fs::remove_dir_all(&self.dir);
    }
}

struct Ctl<'a> {
    scn: &'a Scenario,
    slot: &'a Slot,
    listener: UnixListener,
    conns: Vec<Conn>,
    threads: BTreeMap<String, ThreadState>,
    proc_: ServerProc,
    flag_stored: bool,
    main_in_join: bool,
    last_wait: Vec<String>,
    trace: Vec<String>,
    // enabling bookkeeping
    wake: Vec<bool>,
    reporter_wake: bool,
    env_pc: usize,
    ready_seen: BTreeSet<usize>,
    sent_reqs: Vec<(usize, Version, Vec<u8>, Option<usize>)>, // client idx, version, request, target worker
    tcp: Vec<std::net::TcpStream>,
    req_ctr: u64,
    signal_sent_at: Option<usize>,
}

const IO_TIMEOUT: Duration = Duration::from_secs(15);

impl<'a> Ctl<'a> {
    fn start(scn: &'a Scenario, slot: &'a Slot, exec_id: u64) -> Result<Ctl<'a>, String> {
        let path = slot.dir.join(format!("ctl-{}.sock", exec_id));
        let _ = std::fs::remove_file(&path);
        let listener = UnixListener::bind(&path).map_err(|e| format!("bind {}: {}", path.display(), e))?;
        listener.set_nonblocking(true).unwrap();
        let mut w = Written::base(slot.port);
        w.set("num_workers", &scn.workers.to_string());
        w.set("batch_size", &scn.batch_size.to_string());
        w.set("status_interval", "600");
        if scn.health {
            w.set("health_check_port", &slot.hport.to_string());
        }
        if scn.stats {
            w.set("client_stats", "on");
            w.set("persistence_directory", &slot.dir.display().to_string());
        }
        let env = vec![("ROUGHENOUGH_VERIF_CTL".to_string(), path.display().to_string()), ("ROUGHENOUGH_VERIF_POLL_MS".to_string(), "0".to_string())];
        let proc_ = ServerProc::start(&w, Source::File, &env)?;
        Ok(Ctl {
            scn,
            slot,
            listener,
            conns: vec![],
            threads: BTreeMap::new(),
            proc_,
            flag_stored: false,
            main_in_join: false,
            last_wait: vec![],
            trace: vec![],
            wake: vec![scn.idle_iteration; scn.workers],
            reporter_wake: true,
            env_pc: 0,
            ready_seen: BTreeSet::new(),
            sent_reqs: vec![],
            tcp: vec![],
            req_ctr: exec_id << 16,
            signal_sent_at: None,
        })
    }

    fn exited(&mut self) -> Option<(Option<i32>, Option<i32>)> {
        self.proc_.try_status()
    }

    /// Read whatever the subject has reported; returns true if anything arrived.
    fn pump(&mut self, wait_ms: i32) -> bool {
        let mut fds: Vec<libc::pollfd> = vec![libc::pollfd { fd: self.listener.as_raw_fd(), events: libc::POLLIN, revents: 0 }];
        for c in &self.conns {
            fds.push(libc::pollfd { fd: c.stream.as_raw_fd(), events: libc::POLLIN, revents: 0 });
        }
        let r = unsafe { libc::poll(fds.as_mut_ptr(), fds.len() as libc::nfds_t, wait_ms) };
        if r <= 0 {
            return false;
        }
        let mut any = false;
        if fds[0].revents & libc::POLLIN != 0 {
            while let Ok((s, _)) = self.listener.accept() {
                s.set_nonblocking(true).unwrap();
                self.conns.push(Conn { stream: s, buf: vec![] });
                any = true;
            }
        }
        let n = fds.len() - 1;
        for i in 0..n {
            if fds[i + 1].revents & (libc::POLLIN | libc::POLLHUP) != 0 {
                let mut tmp = [0u8; 512];
                loop {
                    match self.conns[i].stream.read(&mut tmp) {
                        Ok(0) => break,
                        Ok(k) => {
                            self.conns[i].buf.extend_from_slice(&tmp[..k]);
                            any = true;
                        }
                        Err(_) => break,
                    }
                }
                while let Some(pos) = self.conns[i].buf.iter().position(|&b| b == b'\n') {
                    let line: Vec<u8> = self.conns[i].buf.drain(..=pos).collect();
                    let line = String::from_utf8_lossy(&line[..line.len() - 1]).to_string();
                    self.on_line(i, &line);
                }
            }
        }
        any
    }

    fn on_line(&mut self, conn: usize, line: &str) {
        let p: Vec<&str> = line.split(' ').collect();
        if p.len() < 4 {
            return;
        }
        let (ty, name, kind, arg) = (p[0], p[1].to_string(), p[2].to_string(), p[3].parse::<i64>().unwrap_or(0));
        match ty {
            "P" => {
                let t = self.threads.entry(name.clone()).or_default();
                t.conn = Some(conn);
                t.parked = Some((kind.clone(), arg));
                t.running = false;
                self.trace.push(format!("{}@{}({})", name, kind, arg));
                if kind == "worker_ready" {
                    if let Some(Actor::Worker(i)) = Actor::from_thread(&name) {
                        self.ready_seen.insert(i);
                    }
                }
            }
            "X" => {
                let t = self.threads.entry(name.clone()).or_default();
                t.exited = Some(kind.clone());
                t.parked = None;
                t.running = false;
                self.trace.push(format!("{}!{}", name, kind));
            }
            "N" => {
                if kind == "flag_stored" {
                    self.flag_stored = true;
                    for w in self.wake.iter_mut() {
                        *w = true;
                    }
                    self.reporter_wake = true;
                    self.trace.push("flag_stored".into());
                }
            }
            _ => {}
        }
    }

    /// Wait until `pred` holds, the process exits, or the deadline passes.
    fn wait_for(&mut self, what: &str, pred: &dyn Fn(&Ctl) -> bool) -> Result<bool, String> {
        let start = Instant::now();
        loop {
            if pred(self) {
                return Ok(true);
            }
            if self.exited().is_some() {
                // drain what is left
                self.pump(0);
                return Ok(pred(self));
            }
            if start.elapsed() > IO_TIMEOUT {
                return Err(format!("controller timeout waiting for {}; trace tail: {:?}; stderr: {}", what, self.trace.iter().rev().take(8).collect::<Vec<_>>(), self.proc_.stderr().lines().take(3).collect::<Vec<_>>().join(" | ")));
            }
            self.pump(20);
        }
    }

    fn parked_at(&self, a: &Actor) -> Option<&(String, i64)> {
        self.threads.get(&a.thread_name()).and_then(|t| t.parked.as_ref())
    }

    fn settled(&self, name: &str) -> bool {
        self.threads.get(name).map(|t| t.parked.is_some() || t.exited.is_some()).unwrap_or(false)
    }

    fn release(&mut self, a: &Actor) -> Result<(), String> {
        let name = a.thread_name();
        let (kind, arg) = self.parked_at(a).cloned().ok_or_else(|| format!("release of {} which is not parked", name))?;
        let t = self.threads.get_mut(&name).unwrap();
        t.parked = None;
        t.running = true;
        let conn = t.conn.unwrap();
        let _ = self.conns[conn].stream.write_all(b"G");
        // what must happen before the step is complete
        let mut expect: Vec<String> = vec![];
        match (a, kind.as_str()) {
            (Actor::Main, "spawn") => {
                expect.push("main".into());
                expect.push(format!("worker-{}", arg));
            }
            (Actor::Main, "cfg_read") => {
                expect.push("main".into());
                if self.scn.stats {
                    expect.push("stats-reporting".into());
                }
            }
            (Actor::Main, "join_all") => {
                self.main_in_join = true;
                self.threads.get_mut("main").unwrap().running = false;
            }
            (Actor::Main, "main_done") => {
                // process::exit follows
                let start = Instant::now();
                while self.exited().is_none() {
                    if start.elapsed() > IO_TIMEOUT {
                        return Err("process did not exit after main_done".into());
                    }
                    self.pump(5);
                }
                return Ok(());
            }
            _ => expect.push(name.clone()),
        }
        if let Actor::Worker(i) = a {
            if kind == "loop_top" {
                self.wake[*i] = false;
            }
        }
        if *a == Actor::Reporter {
            self.reporter_wake = false;
        }
        let what = format!("{} after {}({})", expect.join("+"), kind, arg);
        self.last_wait = expect.clone();
        self.wait_for(&what, &|c: &Ctl| expect.iter().all(|n| c.settled(n)))?;
        // main blocked in join parks at main_done once every thread is gone
        if self.main_in_join && self.threads.iter().filter(|(n, _)| n.as_str() != "main").all(|(_, t)| t.exited.is_some()) && self.threads.len() > 1 {
            let all_expected = self.scn.workers + if self.scn.stats { 1 } else { 0 };
            let exited = self.threads.iter().filter(|(n, t)| n.as_str() != "main" && t.exited.is_some()).count();
            if exited >= all_expected {
                self.wait_for("main after the last join", &|c: &Ctl| c.settled("main"))?;
                if self.parked_at(&Actor::Main).is_some() {
                    self.main_in_join = false;
                }
            }
        }
        Ok(())
    }

    /// `release`, but a thread that does not reach its next point is examined instead of being
    /// reported as a controller failure. Either it waits for something a thread parked by the
    /// controller holds (then the controller is in the way: machinery error), or it is blocked for
    /// good. Decided on the real process: the scheduler gets out of the way (every thread runs
    /// freely) and the waited-for threads are watched. Ok(Some(description)) = blocked for good.
    fn release_or_stuck(&mut self, a: &Actor) -> Result<Option<String>, String> {
        let e = match self.release(a) {
            Ok(()) => return Ok(None),
            Err(e) => e,
        };
        if !e.starts_with("controller timeout") || self.exited().is_some() {
            self.proc_.kill();
            return Err(e);
        }
        let waiting: Vec<String> = self.last_wait.iter().filter(|n| !self.settled(n)).cloned().collect();
        let before = self.trace.len();
        // (a thread that was only waiting for a parked one moves within milliseconds)
        self.free_run(Duration::from_secs(4));
        let progressed = self.trace[before..].iter().any(|t| waiting.iter().any(|n| t.starts_with(&format!("{}@", n)) || t.starts_with(&format!("{}!", n))));
        if progressed || self.exited().is_some() {
            self.proc_.kill();
            return Err(format!("{} (the thread moved on once every parked thread was released: a hook point sits inside a critical section)", e));
        }
        Ok(Some(format!("{:?} released and never reached another point: not while every other thread was held ({} s), nor during {} s with every thread running freely; the process is alive and blocked", waiting, IO_TIMEOUT.as_secs(), 4)))
    }

    fn target_worker(&self, client: usize) -> Option<usize> {
        for w in 0..self.scn.workers {
            if let Some(v) = self.slot.map.get(&(self.scn.workers, w)) {
                if v.contains(&client) {
                    return Some(w);
                }
            }
        }
        None
    }

    fn do_env(&mut self) -> Result<(), String> {
        let act = self.scn.env[self.env_pc].clone();
        self.env_pc += 1;
        self.trace.push(format!("env:{}", act.name()));
        match act {
            EnvAct::Send(c, v) => {
                self.req_ctr += 1;
                let req = rtref::responder::std_request(v, &crate::inproc::nonce(self.req_ctr, v.nonce_len()));
                let addr: SocketAddr = format!("127.0.0.1:{}", self.slot.port).parse().unwrap();
                // the action is complete when the datagram sits in a worker's socket (every thread is
                // parked, nothing drains the queues): under load the kernel may deliver it a little
                // after send_to returned
                let before = crate::proc::udp_rx_queue(self.slot.port);
                self.slot.clients[c].sock.send_to(&req, addr).map_err(|e| format!("env send: {}", e))?;
                let t0 = Instant::now();
                while crate::proc::udp_rx_queue(self.slot.port) <= before && t0.elapsed() < Duration::from_millis(500) {
                    std::thread::sleep(Duration::from_micros(200));
                }
                let tw = self.target_worker(c);
                match tw {
                    Some(w) => self.wake[w] = true,
                    None => {
                        for w in self.wake.iter_mut() {
                            *w = true;
                        }
                    }
                }
                self.sent_reqs.push((c, v, req, tw));
            }
            EnvAct::ConnectTcp => {
                let addr: SocketAddr = format!("127.0.0.1:{}", self.slot.hport).parse().unwrap();
                match crate::util::tcp_connect(&addr, Duration::from_secs(2)) {
                    Ok(s) => self.tcp.push(s),
                    Err(e) => self.trace.push(format!("connect failed: {}", e)),
                }
                for w in self.wake.iter_mut() {
                    *w = true;
                }
            }
            EnvAct::WaitIdle => {}
            EnvAct::Signal(s) => {
                let again = self.flag_stored;
                self.proc_.signal(s);
                if self.signal_sent_at.is_none() {
                    self.signal_sent_at = Some(self.trace.len());
                }
                if again {
                    // a further signal while the first is being acted upon: the flag is stored
                    // already, so nothing announces that the handler has run; give it time to
                    // (a handler that ends the process shows up as the process's exit)
                    let t0 = Instant::now();
                    while t0.elapsed() < Duration::from_millis(80) && self.exited().is_none() {
                        self.pump(5);
                    }
                } else {
                    // atomic environment action: complete once the flag is recorded (or the process died)
                    self.wait_for("flag stored after signal", &|c: &Ctl| c.flag_stored)?;
                }
            }
        }
        Ok(())
    }

    fn enabled(&self) -> Vec<Actor> {
        let mut v = vec![];
        if let Some(_) = self.parked_at(&Actor::Main) {
            v.push(Actor::Main);
        }
        for i in 0..self.scn.workers {
            let a = Actor::Worker(i);
            if let Some((k, _)) = self.parked_at(&a) {
                if k != "loop_top" || self.wake[i] {
                    v.push(a);
                }
            }
        }
        if self.parked_at(&Actor::Reporter).is_some() && self.reporter_wake {
            v.push(Actor::Reporter);
        }
        if self.env_pc < self.scn.env.len() {
            let serving = self.ready_seen.len() >= self.scn.workers;
            // scenarios named "early-..." let the environment send as soon as every worker's socket
            // is bound (main is past its spawn loop), i.e. possibly before a worker has built its
            // Server: a request that is already queued when the worker registers its socket
            let early = self.scn.name.starts_with("early-");
            let all_bound = (0..self.scn.workers).all(|i| self.threads.contains_key(&format!("worker-{}", i)))
                && (self.main_in_join || self.parked_at(&Actor::Main).map(|p| p.0 != "spawn").unwrap_or(false));
            let ok = match self.scn.env[self.env_pc] {
                // "once the server is serving"
                EnvAct::Signal(_) => serving,
                EnvAct::WaitIdle => serving && (0..self.scn.workers).all(|i| !self.wake[i] && self.parked_at(&Actor::Worker(i)).map(|p| p.0 == "loop_top").unwrap_or(false)),
                _ => serving || (early && all_bound),
            };
            if ok {
                v.push(Actor::Env);
            }
        }
        v
    }

    /// hash of the abstract hook-level state (who is parked where, flag, env pc)
    fn abstract_state(&self) -> u64 {
        use std::hash::{Hash, Hasher};
        let mut h = std::collections::hash_map::DefaultHasher::new();
        for (n, t) in &self.threads {
            n.hash(&mut h);
            t.parked.hash(&mut h);
            t.exited.hash(&mut h);
        }
        self.flag_stored.hash(&mut h);
        self.env_pc.hash(&mut h);
        self.wake.hash(&mut h);
        self.main_in_join.hash(&mut h);
        h.finish()
    }

    /// Release every parked thread immediately from now on ("fair default continuation" with the
    /// scheduler out of the way) for `dur`, pumping messages.
    fn free_run(&mut self, dur: Duration) {
        let start = Instant::now();
        while start.elapsed() < dur {
            self.pump(5);
            let names: Vec<String> = self.threads.iter().filter(|(_, t)| t.parked.is_some()).map(|(n, _)| n.clone()).collect();
            for n in names {
                let t = self.threads.get_mut(&n).unwrap();
                t.parked = None;
                if let Some(c) = t.conn {
                    let _ = self.conns[c].stream.write_all(b"G");
                }
            }
            if self.exited().is_some() {
                break;
            }
        }
    }
}

fn canonical_order(enabled: &[Actor], running: &Option<Actor>) -> (Vec<Actor>, bool) {
    let mut v: Vec<Actor> = vec![];
    let mut still = false;
    if let Some(r) = running {
        if enabled.contains(r) {
            v.push(r.clone());
            still = true;
        }
    }
    let mut rest: Vec<Actor> = enabled.iter().filter(|a| Some(*a) != running.as_ref() || !still).cloned().collect();
    rest.sort();
    rest.dedup();
    for a in rest {
        if !v.contains(&a) {
            v.push(a);
        }
    }
    (v, still)
}

static EXEC_ID: AtomicU64 = AtomicU64::new(1);

/// Run one execution: replay `prefix`, then choice 0 to the end. `prefix_sig` (if given) are the
/// enabled-set signatures recorded when the prefix was first seen; a mismatch is a hard error.
pub fn run_execution(scn: &Scenario, slot: &Slot, prefix: &[usize], prefix_sig: &[String]) -> Result<Execution, String> {
    let id = EXEC_ID.fetch_add(1, Relaxed);
    // clear stale datagrams
    let _ = slot.drain_all();
    let mut c = Ctl::start(scn, slot, id)?;
    c.wait_for("main at its first point", &|c: &Ctl| c.settled("main"))?;
    let mut steps: Vec<StepRec> = vec![];
    let mut running: Option<Actor> = None;
    let mut abstract_states = vec![];
    let mut stuck: Option<String> = None;
    let end;
    loop {
        if let Some((code, sig)) = c.exited() {
            end = match (code, sig) {
                (Some(k), _) => format!("exit:{}", k),
                (None, Some(s)) => format!("signal:{}", s),
                _ => "exit:?".to_string(),
            };
            break;
        }
        let en = c.enabled();
        if en.is_empty() {
            end = "quiescent".to_string();
            break;
        }
        if steps.len() >= scn.horizon {
            end = "horizon".to_string();
            break;
        }
        let (order, still) = canonical_order(&en, &running);
        let sig = order.iter().map(|a| format!("{}@{}", a.name(), c.parked_at(a).map(|p| p.0.clone()).unwrap_or_else(|| "env".into()))).collect::<Vec<_>>().join(",");
        let k = steps.len();
        let choice = if k < prefix.len() { prefix[k] } else { 0 };
        if k < prefix_sig.len() && prefix_sig[k] != sig {
            c.proc_.kill();
            return Err(format!("replay divergence at step {}: recorded [{}] now [{}] (scenario {})", k, prefix_sig[k], sig, scn.name));
        }
        if choice >= order.len() {
            c.proc_.kill();
            return Err(format!("replay divergence at step {}: choice {} of {} enabled [{}]", k, choice, order.len(), sig));
        }
        let actor = order[choice].clone();
        let action = match &actor {
            Actor::Env => format!("env:{}", scn.env[c.env_pc].name()),
            a => format!("{}@{}", a.name(), c.parked_at(a).map(|p| format!("{}({})", p.0, p.1)).unwrap_or_default()),
        };
        steps.push(StepRec { enabled: order.iter().map(|a| a.name()).collect(), chosen: choice, running_still_enabled: still, action });
        // remember the signature in the record for later prefix checks
        steps.last_mut().unwrap().enabled = vec![sig];
        abstract_states.push(c.abstract_state());
        if actor == Actor::Env {
            c.do_env()?;
        } else if let Some(m) = c.release_or_stuck(&actor)? {
            stuck = Some(format!("step {} ({}): {}", k, steps.last().map(|s| s.action.clone()).unwrap_or_default(), m));
            end = "stuck".to_string();
            break;
        }
        running = Some(actor);
    }
    // ---- judge on the real process
    let mut violations: Vec<(String, String, String)> = vec![];
    if let Some(m) = stuck {
        let clause = if scn.expect == Expect::Serving { "start-hang" } else { "deadlock-after-signal" };
        violations.push((clause.into(), "thread-blocked".into(), m));
        let trace = c.trace.clone();
        c.proc_.kill();
        return Ok(Execution { steps, end, trace, violations, abstract_states, outcome_class: "stuck".into() });
    }
    let stderr_now = c.proc_.stderr();
    let panicked: Vec<String> = c.threads.iter().filter(|(_, t)| t.exited.as_deref() == Some("panic")).map(|(n, _)| n.clone()).collect();
    let mut class = end.clone();
    match scn.expect {
        Expect::Serving => {
            if end.starts_with("exit") || end.starts_with("signal") {
                let site = if stderr_now.contains("failed to bind TCP listener") { "health-listener-bind" } else if stderr_now.contains("PoisonError") { "poisoned-config-lock" } else { "other" };
                violations.push(("start-failed".into(), site.into(), format!("server process ended ({}) although no signal was sent; stderr: {}", end, stderr_now.lines().filter(|l| l.contains("panicked")).take(2).collect::<Vec<_>>().join(" | "))));
            } else if end == "horizon" {
                violations.push(("horizon-exceeded".into(), "scheduler".into(), format!("{} steps without quiescence", steps.len())));
            } else {
                if !panicked.is_empty() {
                    let site = if stderr_now.contains("failed to bind TCP listener") { "health-listener-bind" } else { "worker-panic" };
                    violations.push(("fewer-live-workers".into(), site.into(), format!("threads panicked: {:?} while the process keeps running", panicked)));
                }
                let gone: Vec<String> = c.threads.iter().filter(|(n, t)| n.starts_with("worker-") && t.exited.is_some()).map(|(n, _)| n.clone()).collect();
                if !gone.is_empty() && panicked.is_empty() {
                    violations.push(("fewer-live-workers".into(), "worker-exit".into(), format!("workers exited: {:?}", gone)));
                }
                // replies to the environment's requests (collected after the controlled part)
                let replies = slot.drain_all();
                let mut keys_by_worker: BTreeMap<usize, BTreeSet<Vec<u8>>> = BTreeMap::new();
                let mut all_keys: BTreeMap<Vec<u8>, BTreeSet<usize>> = BTreeMap::new();
                let mut per_client_expected: BTreeMap<usize, Vec<usize>> = BTreeMap::new();
                for (i, r) in c.sent_reqs.iter().enumerate() {
                    per_client_expected.entry(r.0).or_default().push(i);
                }
                for (ci, got) in replies.iter().enumerate() {
                    let exp = per_client_expected.get(&ci).cloned().unwrap_or_default();
                    if got.len() != exp.len() {
                        violations.push((if got.len() < exp.len() { "missing-reply".into() } else { "extra-reply".into() }, "responder".into(), format!("client c{} sent {} requests and received {} datagrams", ci, exp.len(), got.len())));
                    }
                    let mut pending = exp.clone();
                    for d in got {
                        let mut hit = None;
                        for (pi, &ri) in pending.iter().enumerate() {
                            let (_, v, req, tw) = &c.sent_reqs[ri];
                            if let Ok(info) = authentic(d, req, *v, Some(&slot.lt_pk), SERVER_VIEW) {
                                hit = Some((pi, *tw, info.online_pk, *v));
                                break;
                            }
                        }
                        match hit {
                            Some((pi, tw, pk, v)) => {
                                pending.remove(pi);
                                if let Some(w) = tw {
                                    // classic and IETF responders of one worker have different online keys
                                    keys_by_worker.entry(w * 2 + if v == Version::Classic { 0 } else { 1 }).or_default().insert(pk.clone());
                                    all_keys.entry(pk).or_default().insert(w);
                                }
                            }
                            None => violations.push(("reply-not-authentic".into(), "responder".into(), format!("client c{} received a datagram that verifies for none of its requests", ci))),
                        }
                    }
                }
                for (w, ks) in &keys_by_worker {
                    if ks.len() > 1 {
                        violations.push(("reply-from-other-worker".into(), "responder".into(), format!("requests delivered to worker {} were answered under {} different delegated keys", w / 2, ks.len())));
                    }
                }
                for (_, ws) in &all_keys {
                    if ws.len() > 1 {
                        violations.push(("delegated-key-shared".into(), "responder".into(), format!("one delegated key answered for workers {:?}", ws)));
                    }
                }
                // all N workers alive and serving: let the process run freely and probe it
                if !scn.probe_at_end {
                    let not_idle: Vec<String> = (0..scn.workers).filter(|w| c.parked_at(&Actor::Worker(*w)).map(|p| p.0 != "loop_top").unwrap_or(true)).map(|w| format!("worker-{}", w)).collect();
                    if !not_idle.is_empty() && violations.is_empty() {
                        violations.push(("worker-not-idle-at-quiescence".into(), "scheduler".into(), format!("{:?} not parked at loop_top at the end", not_idle)));
                    }
                    class = format!("quiescent:{}replies", replies.iter().map(|r| r.len()).sum::<usize>());
                }
                if violations.is_empty() && scn.probe_at_end {
                    let pid_alive = c.exited().is_none();
                    if pid_alive {
                        // free-running continuation in a helper: release everything while probing
                        let port = slot.port;
                        let lt = slot.lt_pk;
                        let n = scn.workers;
                        let h = std::thread::spawn(move || crate::proc::probe_workers(port, &lt, n, 24 * n + 16, false));
                        c.free_run(Duration::from_millis(150));
                        let mut waited = 0;
                        while !h.is_finished() && waited < 400 {
                            c.free_run(Duration::from_millis(25));
                            waited += 1;
                        }
                        let (keys, _, bad) = h.join().unwrap_or_default();
                        if keys.len() < n {
                            let site = if c.proc_.stderr().contains("failed to bind TCP listener") { "health-listener-bind" } else { "other" };
                            violations.push(("fewer-live-workers".into(), site.into(), format!("{} of {} workers answer after start-up", keys.len(), n)));
                        }
                        if bad > 0 {
                            violations.push(("reply-not-authentic".into(), "responder".into(), format!("{} unauthentic replies in the free-running probe", bad)));
                        }
                        class = format!("serving:{}of{}", keys.len().min(n), n);
                    }
                }
            }
        }
        Expect::CleanExit => {
            let replies = slot.drain_all();
            // every datagram received is an authentic reply to one of the requests of that client
            for (ci, got) in replies.iter().enumerate() {
                for d in got {
                    let ok = c.sent_reqs.iter().filter(|r| r.0 == ci).any(|(_, v, req, _)| authentic(d, req, *v, Some(&slot.lt_pk), SERVER_VIEW).is_ok());
                    if !ok {
                        violations.push(("reply-not-authentic".into(), "responder".into(), format!("client c{} received an invalid datagram around shutdown", ci)));
                    }
                }
            }
            let signalled = c.signal_sent_at.is_some();
            if !signalled {
                // the schedule ended before the signal could be delivered: nothing to judge for C19
                if end != "quiescent" {
                    violations.push(("ended-before-signal".into(), "scheduler".into(), format!("execution ended ({}) before the environment's signal", end)));
                }
                class = format!("{}:no-signal", end);
            } else if end == "exit:0" {
                if stderr_now.contains("panicked") {
                    violations.push(("panic-output".into(), "stderr".into(), stderr_now.lines().filter(|l| l.contains("panicked")).take(2).collect::<Vec<_>>().join(" | ")));
                }
            } else if end == "quiescent" {
                violations.push(("deadlock-after-signal".into(), "shutdown".into(), format!("signal delivered and recorded, no actor enabled, process still alive; parked: {:?}", c.threads.iter().map(|(n, t)| format!("{}:{:?}/{:?}", n, t.parked.as_ref().map(|p| p.0.clone()), t.exited)).collect::<Vec<_>>())));
            } else if end == "horizon" {
                violations.push(("no-exit-within-horizon".into(), "shutdown".into(), format!("signal delivered, {} steps later the process is still running", steps.len())));
            } else {
                let site = if end.starts_with("signal") { "killed-by-signal" } else { "nonzero-exit" };
                violations.push(("unclean-exit".into(), site.into(), format!("after the signal the process ended with {}; stderr: {}", end, stderr_now.lines().filter(|l| l.contains("panicked")).take(2).collect::<Vec<_>>().join(" | "))));
            }
        }
    }
    let trace = c.trace.clone();
    c.proc_.kill();
    Ok(Execution { steps, end, trace, violations, abstract_states, outcome_class: class })
}

/// Learn which client sockets reach which worker (SO_REUSEPORT hash) for `n` workers on this slot.
pub fn calibrate(slot: &mut Slot, n: usize, batch_size: u8) -> Result<(), String> {
    if (0..n).all(|w| slot.map.contains_key(&(n, w))) {
        return Ok(());
    }
    // another process may grab the slot's port between the free-port test and the server's bind:
    // move the slot to fresh ports and try again (the map is per port, nothing is lost)
    let mut last = String::new();
    for _ in 0..4 {
        match calibrate_once(slot, n, batch_size) {
            Ok(()) => return Ok(()),
            Err(e) if e.contains("Address already in use") => {
                last = e;
                slot.port = free_port();
                slot.hport = free_port();
                slot.map.clear();
            }
            Err(e) => return Err(e),
        }
    }
    Err(last)
}

fn calibrate_once(slot: &mut Slot, n: usize, batch_size: u8) -> Result<(), String> {
    let scn = Scenario { name: format!("calibrate-{}", n), workers: n, health: false, stats: false, batch_size, env: vec![], idle_iteration: false, horizon: 10_000, expect: Expect::Serving, probe_at_end: false };
    let id = EXEC_ID.fetch_add(1, Relaxed);
    let mut c = Ctl::start(&scn, slot, id)?;
    c.wait_for("main", &|c: &Ctl| c.settled("main"))?;
    // default schedule to the serving state
    loop {
        let en = c.enabled();
        if en.is_empty() {
            break;
        }
        c.release(&en[0].clone())?;
    }
    if c.ready_seen.len() < n || !c.main_in_join {
        let e = c.proc_.stderr();
        c.proc_.kill();
        return Err(format!("calibration: server did not reach the serving state ({} of {} workers ready); stderr: {}", c.ready_seen.len(), n, e.lines().take(3).collect::<Vec<_>>().join(" | ")));
    }
    let addr: SocketAddr = format!("127.0.0.1:{}", slot.port).parse().unwrap();
    let mut map: BTreeMap<usize, Vec<usize>> = BTreeMap::new();
    for ci in 0..slot.clients.len() {
        let req = rtref::responder::std_request(Version::Classic, &crate::inproc::nonce(0xca1 + ci as u64, 64));
        slot.clients[ci].sock.send_to(&req, addr).map_err(|e| e.to_string())?;
        // one iteration of every worker; the one that polls an event is the receiver
        let mut hit = None;
        for w in 0..n {
            let a = Actor::Worker(w);
            c.release(&a)?; // loop_top -> polled(k)
            let k = c.parked_at(&a).map(|p| (p.0.clone(), p.1));
            if let Some((kind, events)) = k {
                if kind == "polled" && events > 0 {
                    hit = Some(w);
                }
            }
            // finish the iteration
            let mut guard = 0;
            while c.parked_at(&a).map(|p| p.0 != "loop_top").unwrap_or(false) && guard < 50 {
                c.release(&a)?;
                guard += 1;
            }
        }
        if let Some(w) = hit {
            map.entry(w).or_default().push(ci);
        }
    }
    c.proc_.kill();
    let _ = slot.drain_all();
    for w in 0..n {
        let v = map.remove(&w).unwrap_or_default();
        slot.map.insert((n, w), v);
    }
    Ok(())
}

#[derive(Default)]
pub struct SchedSummary {
    pub executions: u64,
    pub states: u64,
    pub transitions: u64,
    pub bound_completed: i64,
    pub caps_hit: Vec<String>,
    pub scenarios: Vec<Value>,
    pub outcome_classes: BTreeMap<String, u64>,
}

impl SchedSummary {
    pub fn to_json(&self) -> Value {
        json!({"executions": self.executions, "distinct_hook_states": self.states, "transitions": self.transitions, "preemption_bound_completed": self.bound_completed, "scenarios": self.scenarios, "outcome_classes": self.outcome_classes})
    }
    pub fn merge(&mut self, o: SchedSummary) {
        self.executions += o.executions;
        self.states += o.states;
        self.transitions += o.transitions;
        self.bound_completed = if self.scenarios.is_empty() { o.bound_completed } else { self.bound_completed.min(o.bound_completed) };
        self.caps_hit.extend(o.caps_hit);
        self.scenarios.extend(o.scenarios);
        for (k, v) in o.outcome_classes {
            *self.outcome_classes.entry(k).or_insert(0) += v;
        }
    }
}

struct Work {
    prefix: Vec<usize>,
    sig: Vec<String>,
    preemptions: usize,
}

/// Explore one scenario with iterative preemption bounding 0..=max_bound on `nthreads` slots.
/// `make_env` builds the environment program for a slot (client indices depend on the slot's map).
pub fn explore(
    ctx: &Ctx,
    property_site: &str,
    scn_proto: &Scenario,
    make_env: &(dyn Fn(&Slot) -> Option<Vec<EnvAct>> + Sync),
    max_bound: usize,
    exec_cap: u64,
    wall_cap: Duration,
) -> Result<SchedSummary, String> {
    let nthreads = crate::util::nthreads().min(16);
    let start = Instant::now();
    let queue: Mutex<Vec<Work>> = Mutex::new(vec![Work { prefix: vec![], sig: vec![], preemptions: 0 }]);
    let in_flight = AtomicU64::new(0);
    let executions = AtomicU64::new(0);
    let transitions = AtomicU64::new(0);
    let states: Mutex<BTreeSet<u64>> = Mutex::new(BTreeSet::new());
    let classes: Mutex<BTreeMap<String, u64>> = Mutex::new(BTreeMap::new());
    let failed: Mutex<Option<String>> = Mutex::new(None);
    let capped = AtomicU64::new(0);
    let first_trace: Mutex<Option<Vec<String>>> = Mutex::new(None);
    let divergence_retries = AtomicU64::new(0);
    let need_clients = scn_proto.workers * 24 + 8;

    // determinism self-test: the default schedule twice gives the same point sequence
    {
        let mut slot = Slot::new(need_clients);
        if scn_proto.workers > 1 || !scn_proto.env.is_empty() || true {
            calibrate(&mut slot, scn_proto.workers, scn_proto.batch_size)?;
        }
        let mut scn = scn_proto.clone();
        if let Some(env) = make_env(&slot) {
            scn.env = env;
        }
        let a = run_execution(&scn, &slot, &[], &[])?;
        // (a blocked default schedule is reported below; running it again only costs its timeouts)
        if a.end != "stuck" {
            let b = run_execution(&scn, &slot, &[], &[])?;
            let sa: Vec<&String> = a.steps.iter().map(|s| &s.action).collect();
            let sb: Vec<&String> = b.steps.iter().map(|s| &s.action).collect();
            if sa != sb || a.end != b.end {
                return Err(format!("determinism self-test failed for scenario {}: {:?} ({}) vs {:?} ({})", scn.name, sa, a.end, sb, b.end));
            }
        }
        // the default schedule is an execution like any other (and is run again below unless the
        // wall cap is used up by then)
        for (clause, site, msg) in &a.violations {
            ctx.violation(clause, site, property_site, json!({"kind":"schedule","scenario":scn.to_json(),"choices":a.steps.iter().map(|s| s.chosen).collect::<Vec<_>>(),"schedule":a.steps.iter().map(|s| s.action.clone()).collect::<Vec<_>>(),"end":a.end,"message":msg}));
        }
        if a.end == "stuck" {
            let mut sum = SchedSummary::default();
            sum.executions = 1;
            sum.caps_hit.push(format!("scenario {}: the default schedule blocks for good; no deviation explored", scn.name));
            return Ok(sum);
        }
    }

    std::thread::scope(|s| {
        for t in 0..nthreads {
            let queue = &queue;
            let in_flight = &in_flight;
            let executions = &executions;
            let transitions = &transitions;
            let states = &states;
            let classes = &classes;
            let failed = &failed;
            let capped = &capped;
            let first_trace = &first_trace;
            let divergence_retries = &divergence_retries;
            std::thread::Builder::new()
                .name(format!("sched-{}", t))
                .spawn_scoped(s, move || {
                    let mut slot = Slot::new(need_clients);
                    if let Err(e) = calibrate(&mut slot, scn_proto.workers, scn_proto.batch_size) {
                        *failed.lock().unwrap() = Some(e);
                        return;
                    }
                    let mut scn = scn_proto.clone();
                    match make_env(&slot) {
                        Some(env) => scn.env = env,
                        None => {}
                    }
                    loop {
                        if failed.lock().unwrap().is_some() {
                            return;
                        }
                        let w = {
                            let mut q = queue.lock().unwrap();
                            match q.pop() {
                                Some(w) => {
                                    in_flight.fetch_add(1, Relaxed);
                                    Some(w)
                                }
                                None => None,
                            }
                        };
                        let w = match w {
                            Some(w) => w,
                            None => {
                                if in_flight.load(Relaxed) == 0 {
                                    return;
                                }
                                std::thread::sleep(Duration::from_millis(2));
                                continue;
                            }
                        };
                        if executions.load(Relaxed) >= exec_cap || start.elapsed() > wall_cap {
                            capped.fetch_add(1, Relaxed);
                            in_flight.fetch_sub(1, Relaxed);
                            continue;
                        }
                        // a divergence while replaying a recorded prefix is retried (timing of the
                        // environment on a loaded machine) and is a hard error when it persists
                        let mut res = run_execution(&scn, &slot, &w.prefix, &w.sig);
                        for _ in 0..3 {
                            match &res {
                                Err(e) if e.starts_with("replay divergence") => {
                                    divergence_retries.fetch_add(1, Relaxed);
                                    std::thread::sleep(Duration::from_millis(50));
                                    res = run_execution(&scn, &slot, &w.prefix, &w.sig);
                                }
                                _ => break,
                            }
                        }
                        match res {
                            Err(e) => {
                                *failed.lock().unwrap() = Some(e);
                                in_flight.fetch_sub(1, Relaxed);
                                return;
                            }
                            Ok(x) => {
                                executions.fetch_add(1, Relaxed);
                                transitions.fetch_add(x.steps.len() as u64, Relaxed);
                                {
                                    let mut st = states.lock().unwrap();
                                    for h in &x.abstract_states {
                                        st.insert(*h);
                                    }
                                }
                                *classes.lock().unwrap().entry(x.outcome_class.clone()).or_insert(0) += 1;
                                if first_trace.lock().unwrap().is_none() {
                                    *first_trace.lock().unwrap() = Some(x.steps.iter().map(|s| s.action.clone()).collect());
                                }
                                for (clause, site, msg) in &x.violations {
                                    ctx.violation(clause, site, property_site, json!({"kind":"schedule","scenario":scn.to_json(),"choices":x.steps.iter().map(|s| s.chosen).collect::<Vec<_>>(),"schedule":x.steps.iter().map(|s| s.action.clone()).collect::<Vec<_>>(),"end":x.end,"message":msg}));
                                }
                                // children: deviate at every step at or after the prefix
                                // preemptions are recounted over the whole execution (it includes the prefix)
                                let mut pre = 0usize;
                                let mut children = vec![];
                                // (a blocked process has no continuation worth deviating from)
                                let nsteps = if x.end == "stuck" { 0 } else { x.steps.len() };
                                for i in 0..nsteps {
                                    let st = &x.steps[i];
                                    let n_enabled = st.enabled[0].split(',').count();
                                    if i >= w.prefix.len() {
                                        for alt in 1..n_enabled {
                                            let cost = pre + if st.running_still_enabled { 1 } else { 0 };
                                            if cost > max_bound {
                                                continue;
                                            }
                                            let mut p: Vec<usize> = x.steps[..i].iter().map(|s| s.chosen).collect();
                                            p.push(alt);
                                            let mut sg: Vec<String> = x.steps[..=i].iter().map(|s| s.enabled[0].clone()).collect();
                                            sg.truncate(i + 1);
                                            children.push(Work { prefix: p, sig: sg, preemptions: cost });
                                        }
                                    }
                                    if st.chosen != 0 && st.running_still_enabled {
                                        pre += 1;
                                    }
                                }
                                queue.lock().unwrap().extend(children);
                                in_flight.fetch_sub(1, Relaxed);
                            }
                        }
                    }
                })
                .expect("spawn sched thread");
        }
    });
    if let Some(e) = failed.lock().unwrap().take() {
        return Err(e);
    }
    let mut sum = SchedSummary::default();
    sum.executions = executions.load(Relaxed);
    sum.states = states.lock().unwrap().len() as u64;
    sum.transitions = transitions.load(Relaxed);
    sum.bound_completed = if capped.load(Relaxed) == 0 { max_bound as i64 } else { -1 };
    if capped.load(Relaxed) > 0 {
        sum.caps_hit.push(format!("scenario {}: {} pending schedules dropped at the execution/wall cap ({} executed)", scn_proto.name, capped.load(Relaxed), sum.executions));
    }
    sum.outcome_classes = classes.lock().unwrap().clone();
    sum.scenarios.push(json!({"scenario": scn_proto.to_json(), "executions": sum.executions, "preemption_bound": max_bound, "completed": capped.load(Relaxed) == 0, "distinct_hook_states": sum.states, "replay_divergences_retried": divergence_retries.load(Relaxed), "default_schedule": first_trace.lock().unwrap().clone()}));
    Ok(sum)
}

// ---------------------------------------------------------------------------------------------
// property-specific scenario sets

pub fn c15_startup_schedules(ctx: &Ctx) -> Result<SchedSummary, String> {
    let mut total = SchedSummary::default();
    let ns: Vec<usize> = ctx.tier.pick(vec![1, 2], vec![1, 2, 3]);
    for &n in &ns {
        for health in [false, true] {
            for stats in [false, true] {
                if ctx.tier == crate::ev::Tier::Quick && stats && !health {
                    continue;
                }
                let scn = Scenario {
                    name: format!("startup-n{}-hc{}-stats{}", n, health as u8, stats as u8),
                    workers: n,
                    health,
                    stats,
                    batch_size: 64,
                    env: vec![],
                    idle_iteration: false,
                    horizon: 200,
                    expect: Expect::Serving,
                    probe_at_end: true,
                };
                // N <= 2: ALL interleavings at hook granularity (bound 64 exceeds the number of steps);
                // N = 3 (thorough): preemption bound 3
                let bound = std::env::var("VERIF_SCHED_BOUND").ok().and_then(|b| b.parse().ok()).unwrap_or(if n <= 2 { 64 } else { 3 });
                let s = explore(ctx, &format!("{}{}", if health { "health_check_port set" } else { "no health check" }, if n >= 2 { " && num_workers>=2" } else { " && num_workers=1" }), &scn, &|_s: &Slot| None, bound, ctx.tier.pick(2500, 40000), Duration::from_secs(ctx.tier.pick(40, 180)))?;
                total.merge(s);
            }
        }
    }
    Ok(total)
}

/// replay a recorded schedule (choices) of a scenario; returns the first violation message
pub fn replay_schedule(c: &Value) -> Result<Option<String>, String> {
    let s = &c["scenario"];
    let parse_env = |e: &Value| -> Option<EnvAct> {
        let t = e.as_str()?;
        if t == "connect_tcp" {
            return Some(EnvAct::ConnectTcp);
        }
        if t == "signal(INT)" {
            return Some(EnvAct::Signal(libc::SIGINT));
        }
        if t == "signal(TERM)" {
            return Some(EnvAct::Signal(libc::SIGTERM));
        }
        if t == "wait_idle" {
            return Some(EnvAct::WaitIdle);
        }
        let inner = t.strip_prefix("send(c")?.strip_suffix(')')?;
        let (ci, v) = inner.split_once(',')?;
        Some(EnvAct::Send(ci.parse().ok()?, if v == "C" { Version::Classic } else { Version::Ietf13 }))
    };
    let scn = Scenario {
        name: s["name"].as_str().unwrap_or("replay").to_string(),
        workers: s["num_workers"].as_u64().ok_or("num_workers")? as usize,
        health: s["health_check_port"].as_bool().unwrap_or(false),
        stats: s["client_stats"].as_bool().unwrap_or(false),
        batch_size: s["batch_size"].as_u64().unwrap_or(64) as u8,
        env: s["env"].as_array().map(|a| a.iter().filter_map(parse_env).collect()).unwrap_or_default(),
        idle_iteration: s["idle_iteration"].as_bool().unwrap_or(false),
        horizon: s["horizon"].as_u64().unwrap_or(400) as usize,
        probe_at_end: s["probe_at_end"].as_bool().unwrap_or(false),
        expect: if s["env"].as_array().map(|a| a.iter().any(|e| e.as_str().map(|t| t.starts_with("signal")).unwrap_or(false))).unwrap_or(false) { Expect::CleanExit } else { Expect::Serving },
    };
    let choices: Vec<usize> = c["choices"].as_array().ok_or("choices")?.iter().map(|x| x.as_u64().unwrap_or(0) as usize).collect();
    let mut slot = Slot::new(scn.workers * 24 + 8);
    calibrate(&mut slot, scn.workers, scn.batch_size)?;
    // client indices in the recorded environment program refer to the recording slot's map; a
    // replay keeps the indices (the distribution over workers may differ, the schedule is the same)
    let x = run_execution(&scn, &slot, &choices, &[])?;
    Ok(x.violations.first().map(|v| format!("{} {} {}", v.0, v.1, v.2)))
}

// ---------------------------------------------------------------------------------------------
// C19 part 2: open-loop flood lasso

/// One adversarial execution: one worker; once the worker is inside the receive loop the signal is
/// delivered, and from then on the environment refills the socket with `batch_size` datagrams of
/// the given kind before EVERY release of the worker while it is inside process_events (at the
/// recv / collected / response / sent points). The worker must reach `flag_check` within a number
/// of steps that a bounded drain allows. Returns (flag_check reached, refill rounds, steps).
pub fn flood_lasso_once(batch_size: u8, max_rounds: usize) -> Result<(bool, usize, usize), String> {
    flood_lasso_kind(batch_size, max_rounds, "valid")
}

pub fn flood_lasso_kind(batch_size: u8, max_rounds: usize, kind: &str) -> Result<(bool, usize, usize), String> {
    let mut slot = Slot::new(8);
    calibrate(&mut slot, 1, batch_size)?;
    let scn = Scenario { name: format!("flood-bs{}-{}", batch_size, kind), workers: 1, health: false, stats: false, batch_size, env: vec![], idle_iteration: false, horizon: 100_000, expect: Expect::CleanExit, probe_at_end: false };
    let id = EXEC_ID.fetch_add(1, Relaxed);
    let mut c = Ctl::start(&scn, &slot, id)?;
    c.wait_for("main", &|c: &Ctl| c.settled("main"))?;
    loop {
        let en = c.enabled();
        if en.is_empty() {
            break;
        }
        c.release(&en[0].clone())?;
    }
    let addr: SocketAddr = format!("127.0.0.1:{}", slot.port).parse().unwrap();
    let w0 = Actor::Worker(0);
    let mut ctr = 0u64;
    let mut refill = |k: usize| {
        for _ in 0..k {
            ctr += 1;
            let valid = rtref::responder::std_request(Version::Classic, &crate::inproc::nonce(0xf100d + ctr, 64));
            // rejected: a well-formed IETF request naming another server (wrong SRV)
            let rejected = rtref::responder::ietf_request(&rtref::proto::VER_IETF13, Some(&[0x5a; 32]), &crate::inproc::nonce(0xbad + ctr, 32), 1024);
            let d = match kind {
                "valid" => valid,
                "rejected" => rejected,
                _ => if ctr % 2 == 0 { valid } else { rejected },
            };
            let _ = slot.clients[(ctr % 8) as usize].sock.send_to(&d, addr);
        }
    };
    // fill more than one batch so that the first collect does not drain the socket
    refill(batch_size as usize * 2);
    c.wake[0] = true;
    c.release(&w0)?; // loop_top -> polled
    let mut steps = 1;
    // now inside process_events: deliver the signal
    c.proc_.signal(libc::SIGINT);
    c.wait_for("flag stored", &|c: &Ctl| c.flag_stored)?;
    let mut rounds = 0;
    let mut reached = false;
    // a bounded drain needs at most max_rounds batches of (batch_size recv + batch_size response + 2) steps
    let max_steps = max_rounds * (2 * batch_size as usize + 3) + 10;
    while steps < max_steps {
        match c.parked_at(&w0).map(|p| p.0.clone()) {
            Some(k) if k == "flag_check" => {
                reached = true;
                break;
            }
            Some(k) => {
                refill(batch_size as usize);
                if k == "sent" {
                    rounds += 1;
                }
                c.release(&w0)?;
                steps += 1;
            }
            None => break, // exited
        }
        let _ = slot.drain_all();
    }
    if c.threads.get("worker-0").map(|t| t.exited.is_some()).unwrap_or(false) {
        reached = true;
    }
    c.proc_.kill();
    Ok((reached, rounds, steps))
}

pub fn flood_lasso(ctx: &Ctx) -> Result<Value, String> {
    let mut out = vec![];
    let mut rounds_total = 0u64;
    let mut steps_total = 0u64;
    let rounds = ctx.tier.pick(30usize, 200);
    let mut execs = 0u64;
    for bs in [1u8, 2] {
        for kind in ["valid", "rejected", "mixed"] {
            let (reached, r, steps) = flood_lasso_kind(bs, rounds, kind)?;
            execs += 1;
            rounds_total += r as u64;
            steps_total += steps as u64;
            out.push(json!({"batch_size": bs, "datagrams": kind, "flag_check_reached": reached, "refill_rounds": r, "steps": steps}));
            if !reached {
                ctx.violation("flood-starves-flag-check", "receive-loop", &format!("open-loop-flood/{}", kind), json!({"kind":"lasso","batch_size":bs,"datagrams":kind,"refill_rounds":r,"steps":steps,
                    "message":"with the receive queue refilled before every step of the worker inside process_events the worker does not reach the shutdown-flag check within the step bound of a bounded drain: the abstract state (flag stored, worker inside the receive loop, queue non-empty) recurs without a flag_check in between"}));
            }
        }
    }
    Ok(json!({"runs": out, "executions": execs, "rounds": rounds_total, "steps": steps_total}))
}


// ---------------------------------------------------------------------------------------------
// Lifecycle model (TLA+, checked by TLC) bound to the implementation: every transition of the
// model's reachable state graph is replayed against the real process under the controller, and at
// every step the set of enabled actors of the implementation must equal the model's.

pub struct ModelGraph {
    /// per node: actor -> program counter as the model sees it
    pub pcs: BTreeMap<String, BTreeMap<String, String>>,
    pub init: String,
    pub edges: BTreeMap<String, Vec<(String, String)>>, // node -> [(actor, next node)]
    pub states: usize,
    pub transitions: usize,
}

fn actor_of_label(l: &str) -> Option<String> {
    match l {
        "Main" => Some("main".into()),
        "Reporter" => Some("stats-reporting".into()),
        "Env" => Some("env".into()),
        "Terminated" => None,
        x => x.strip_prefix('W').and_then(|r| r.strip_suffix("Step")).map(|i| format!("worker-{}", i)),
    }
}

/// Generate the model for (n, stats), run TLC (invariants + liveness), return its state graph.
pub fn tlc_lifecycle(n: usize, stats: bool) -> Result<ModelGraph, String> {
    let vd = crate::ev::verif_dir();
    let dir = scratch_dir();
    let st = std::process::Command::new("python3")
        .arg(format!("{}/models/gen_lifecycle.py", vd))
        .arg(n.to_string())
        .arg(if stats { "1" } else { "0" })
        .arg(&dir)
        .status()
        .map_err(|e| format!("gen_lifecycle.py: {}", e))?;
    if !st.success() {
        return Err("gen_lifecycle.py failed".into());
    }
    // (TLC creates a scratch directory under java.io.tmpdir: keep it inside the run's own scratch)
    let out = std::process::Command::new("tlc")
        .current_dir(&dir)
        .env("JAVA_TOOL_OPTIONS", format!("-Djava.io.tmpdir={}", dir.display()))
        .args(["-dump", "dot,actionlabels", "graph.dot", "-workers", "2", "Lifecycle.tla"])
        .output()
        .map_err(|e| format!("tlc: {}", e))?;
    let text = String::from_utf8_lossy(&out.stdout).to_string();
    if !text.contains("Model checking completed. No error has been found.") {
        let _ = std::fs::remove_dir_all(&dir);
        return Err(format!("TLC did not verify the lifecycle model (n={}, stats={}): {}", n, stats, text.lines().filter(|l| l.contains("Error") || l.contains("violated")).take(4).collect::<Vec<_>>().join(" | ")));
    }
    let dot = std::fs::read_to_string(dir.join("graph.dot")).map_err(|e| format!("graph.dot: {}", e))?;
    let _ = std::fs::remove_dir_all(&dir);
    let mut init = String::new();
    let mut edges: BTreeMap<String, Vec<(String, String)>> = BTreeMap::new();
    let mut nodes: BTreeSet<String> = BTreeSet::new();
    let mut pcs: BTreeMap<String, BTreeMap<String, String>> = BTreeMap::new();
    let mut transitions = 0;
    for line in dot.lines() {
        let t = line.trim();
        let first = t.split_whitespace().next().unwrap_or("");
        if first.is_empty() || !(first.starts_with('-') || first.chars().next().unwrap().is_ascii_digit()) {
            continue;
        }
        if t.contains("->") {
            let mut it = t.split_whitespace();
            let from = it.next().unwrap().to_string();
            it.next();
            let to = it.next().unwrap().to_string();
            let label = t.split("label=\"").nth(1).and_then(|r| r.split('"').next()).unwrap_or("");
            if let Some(a) = actor_of_label(label) {
                edges.entry(from.clone()).or_default().push((a, to.clone()));
                transitions += 1;
            }
            nodes.insert(from);
            nodes.insert(to);
        } else {
            nodes.insert(first.to_string());
            if t.contains("style = filled") && init.is_empty() {
                init = first.to_string();
            }
            // program counters from the state label: mpc = "..", rpc = "..", wpc = (0 :> ".." @@ 1 :> "..")
            let label = t.split("label=\"").nth(1).unwrap_or("");
            let label = label.split("\",").next().unwrap_or(label);
            let grab = |var: &str| -> Option<String> { label.split(&format!("{} = \\\"", var)).nth(1).and_then(|r| r.split("\\\"").next()).map(|x| x.to_string()) };
            let mut m: BTreeMap<String, String> = BTreeMap::new();
            if let Some(v) = grab("mpc") {
                m.insert("main".into(), v);
            }
            if let Some(v) = grab("rpc") {
                m.insert("stats-reporting".into(), v);
            }
            if let Some(w) = label.split("wpc = ").nth(1) {
                let w = w.split("\\n").next().unwrap_or(w);
                for part in w.split(":>").skip(1).enumerate() {
                    let idx = part.0;
                    if let Some(v) = part.1.split("\\\"").nth(1) {
                        m.insert(format!("worker-{}", idx), v.to_string());
                    }
                }
            }
            pcs.insert(first.to_string(), m);
        }
    }
    if init.is_empty() {
        return Err("could not find the initial state in TLC's dump".into());
    }
    Ok(ModelGraph { pcs, init, edges, states: nodes.len(), transitions })
}

/// Replay one path of actor names; compare enabled sets at every step. Returns the first mismatch.
fn replay_named(scn: &Scenario, slot: &Slot, g: &ModelGraph, path: &[(String, String)]) -> Result<Option<String>, String> {
    let id = EXEC_ID.fetch_add(1, Relaxed);
    let mut c = Ctl::start(scn, slot, id)?;
    c.wait_for("main at its first point", &|c: &Ctl| c.settled("main"))?;
    let mut node = g.init.clone();
    let model_enabled = |node: &String| -> BTreeSet<String> { g.edges.get(node).map(|v| v.iter().map(|e| e.0.clone()).collect()).unwrap_or_default() };
    // where the implementation's threads are, in the model's vocabulary
    fn impl_pcs(c: &mut Ctl, n: usize, stats: bool) -> BTreeMap<String, String> {
        let mut m = BTreeMap::new();
        let dead = c.exited().is_some();
        let mut names = vec!["main".to_string()];
        names.extend((0..n).map(|i| format!("worker-{}", i)));
        if stats {
            names.push("stats-reporting".into());
        }
        for name in names {
            let v = match c.threads.get(&name) {
                None => "none".to_string(),
                Some(t) => {
                    if let Some(p) = &t.parked {
                        p.0.clone()
                    } else if t.exited.is_some() {
                        "exited".to_string()
                    } else if name == "main" && c.main_in_join {
                        "joining".to_string()
                    } else {
                        "running".to_string()
                    }
                }
            };
            m.insert(name.clone(), if dead && name == "main" { "exited".to_string() } else { v });
        }
        m
    }
    let model_pcs = |node: &String| -> BTreeMap<String, String> {
        let mut m = g.pcs.get(node).cloned().unwrap_or_default();
        if !scn.stats {
            m.remove("stats-reporting");
        }
        m
    };
    for (k, (actor, next)) in path.iter().enumerate() {
        let imp: BTreeSet<String> = if c.exited().is_some() { BTreeSet::new() } else { c.enabled().iter().map(|a| a.name()).collect() };
        let mo = model_enabled(&node);
        if imp != mo {
            c.proc_.kill();
            return Ok(Some(format!("step {}: model enables {:?}, implementation enables {:?}", k, mo, imp)));
        }
        let (ip, mp) = (impl_pcs(&mut c, scn.workers, scn.stats), model_pcs(&node));
        if ip != mp {
            c.proc_.kill();
            return Ok(Some(format!("step {}: model state {:?}, implementation threads {:?}", k, mp, ip)));
        }
        let a = match actor.as_str() {
            "main" => Actor::Main,
            "stats-reporting" => Actor::Reporter,
            "env" => Actor::Env,
            w => Actor::Worker(w.trim_start_matches("worker-").parse().unwrap_or(0)),
        };
        if a == Actor::Env {
            c.do_env()?;
        } else if let Some(m) = c.release_or_stuck(&a)? {
            c.proc_.kill();
            return Ok(Some(format!("step {}: the model lets {} complete its action; implementation: {}", k, actor, m)));
        }
        node = next.clone();
    }
    // after the last step
    let exited = c.exited();
    let imp: BTreeSet<String> = if exited.is_some() { BTreeSet::new() } else { c.enabled().iter().map(|a| a.name()).collect() };
    let mo = model_enabled(&node);
    let mut res = None;
    if imp != mo {
        res = Some(format!("after the last step: model enables {:?}, implementation enables {:?}", mo, imp));
    }
    if exited.is_none() {
        let (ip, mp) = (impl_pcs(&mut c, scn.workers, scn.stats), model_pcs(&node));
        if ip != mp {
            res = Some(format!("after the last step: model state {:?}, implementation threads {:?}", mp, ip));
        }
    }
    if mo.is_empty() {
        // terminal model state: the process must have exited with status 0 and without panic text
        match exited {
            Some((Some(0), _)) => {
                if c.proc_.stderr().contains("panicked") {
                    res = Some("process exited 0 but printed panic text".into());
                }
            }
            other => res = Some(format!("model is in its terminal state but the process status is {:?}", other)),
        }
    }
    c.proc_.kill();
    Ok(res)
}

pub fn lifecycle_conformance(ctx: &Ctx, n: usize, stats: bool) -> Result<Value, String> {
    let g = tlc_lifecycle(n, stats)?;
    // shortest path (by BFS) to every node
    let mut parent: BTreeMap<String, (String, String)> = BTreeMap::new(); // node -> (prev node, actor)
    let mut order = vec![g.init.clone()];
    let mut seen: BTreeSet<String> = [g.init.clone()].into_iter().collect();
    let mut qi = 0;
    while qi < order.len() {
        let u = order[qi].clone();
        qi += 1;
        for (a, v) in g.edges.get(&u).cloned().unwrap_or_default() {
            if seen.insert(v.clone()) {
                parent.insert(v.clone(), (u.clone(), a));
                order.push(v);
            }
        }
    }
    let path_to = |node: &String| -> Vec<(String, String)> {
        let mut p = vec![];
        let mut cur = node.clone();
        while let Some((prev, a)) = parent.get(&cur) {
            p.push((a.clone(), cur.clone()));
            cur = prev.clone();
        }
        p.reverse();
        p
    };
    // one path per transition: shortest path to its source + the transition; drop proper prefixes
    let mut paths: Vec<Vec<(String, String)>> = vec![];
    for (u, outs) in &g.edges {
        for (a, v) in outs {
            let mut p = path_to(u);
            p.push((a.clone(), v.clone()));
            paths.push(p);
        }
    }
    let keys: BTreeSet<Vec<String>> = paths.iter().map(|p| p.iter().map(|e| format!("{}>{}", e.0, e.1)).collect()).collect();
    let is_prefix_of_other = |p: &Vec<String>| keys.iter().any(|q| q.len() > p.len() && q[..p.len()] == p[..]);
    let paths: Vec<Vec<(String, String)>> = paths.into_iter().filter(|p| !is_prefix_of_other(&p.iter().map(|e| format!("{}>{}", e.0, e.1)).collect())).collect();
    let scn = Scenario {
        name: format!("lifecycle-model-n{}-stats{}", n, stats as u8),
        workers: n,
        health: false,
        stats,
        batch_size: 2,
        env: vec![EnvAct::Signal(libc::SIGINT)],
        idle_iteration: false,
        horizon: 1000,
        expect: Expect::CleanExit,
        probe_at_end: false,
    };
    let mismatches: Mutex<Vec<Value>> = Mutex::new(vec![]);
    let failed: Mutex<Option<String>> = Mutex::new(None);
    let next = AtomicU64::new(0);
    let replayed = AtomicU64::new(0);
    let nthreads = crate::util::nthreads().min(16).min(paths.len().max(1));
    std::thread::scope(|s| {
        for t in 0..nthreads {
            let paths = &paths;
            let g = &g;
            let scn = &scn;
            let mismatches = &mismatches;
            let failed = &failed;
            let next = &next;
            let replayed = &replayed;
            std::thread::Builder::new()
                .name(format!("conf-{}", t))
                .spawn_scoped(s, move || {
                    let slot = Slot::new(2);
                    loop {
                        let k = next.fetch_add(1, Relaxed) as usize;
                        // five divergences are reported; more replays add nothing (and a blocked
                        // process costs two timeouts per replay)
                        if k >= paths.len() || failed.lock().unwrap().is_some() || mismatches.lock().unwrap().len() >= 5 {
                            return;
                        }
                        replayed.fetch_add(1, Relaxed);
                        let mut attempt = 0;
                        loop {
                            match replay_named(scn, &slot, g, &paths[k]) {
                                Ok(None) => break,
                                Ok(Some(m)) => {
                                    mismatches.lock().unwrap().push(json!({"path": paths[k].iter().map(|e| e.0.clone()).collect::<Vec<_>>(), "mismatch": m}));
                                    break;
                                }
                                Err(e) if e.contains("Address already in use") && attempt < 2 => {
                                    attempt += 1;
                                    continue;
                                }
                                Err(e) => {
                                    *failed.lock().unwrap() = Some(e);
                                    return;
                                }
                            }
                        }
                    }
                })
                .expect("spawn");
        }
    });
    if let Some(e) = failed.lock().unwrap().take() {
        return Err(e);
    }
    let mm = mismatches.lock().unwrap().clone();
    for m in mm.iter().take(5) {
        ctx.violation("model-implementation-divergence", "lifecycle", if stats { "client_stats on" } else { "client_stats off" },
            json!({"kind":"model-trace","num_workers":n,"client_stats":stats,"path":m["path"],"message":m["mismatch"]}));
    }
    Ok(json!({"model": "models/gen_lifecycle.py (TLA+), checked by TLC: TypeOK, NoWorkerLostBeforeSignal, CleanJoin, Termination (liveness under weak fairness)",
              "num_workers": n, "client_stats": stats, "model_states": g.states, "model_transitions": g.transitions,
              "traces_replayed": replayed.load(Relaxed), "traces_in_cover": paths.len(), "transitions_covered": if replayed.load(Relaxed) as usize == paths.len() { g.transitions } else { 0 }, "divergences": mm.len()}))
}
