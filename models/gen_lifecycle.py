#!/usr/bin/env python3
"""Generates the TLA+ lifecycle model of the roughenough server binary for N workers
(one named action per actor so that TLC's action labels identify the actor).
usage: gen_lifecycle.py N stats(0|1) outdir"""
import sys, os
N = int(sys.argv[1]); stats = sys.argv[2] == "1"; out = sys.argv[3]
W = range(N)
def wstep(i):
    return f"""W{i}Step ==
  /\\ mpc # "exited"
  /\\ \\/ /\\ wpc[{i}] = "worker_start" /\\ wpc' = [wpc EXCEPT ![{i}] = "worker_ready"] /\\ UNCHANGED <<wake, mpc>>
     \\/ /\\ wpc[{i}] = "worker_ready" /\\ wpc' = [wpc EXCEPT ![{i}] = "loop_top"] /\\ UNCHANGED <<wake, mpc>>
     \\/ /\\ wpc[{i}] = "loop_top" /\\ wake[{i}] /\\ wpc' = [wpc EXCEPT ![{i}] = "polled"] /\\ wake' = [wake EXCEPT ![{i}] = FALSE] /\\ UNCHANGED mpc
     \\/ /\\ wpc[{i}] = "polled" /\\ wpc' = [wpc EXCEPT ![{i}] = "flag_check"] /\\ UNCHANGED <<wake, mpc>>
     \\/ /\\ wpc[{i}] = "flag_check" /\\ keep /\\ wpc' = [wpc EXCEPT ![{i}] = "loop_top"] /\\ UNCHANGED <<wake, mpc>>
     \\/ /\\ wpc[{i}] = "flag_check" /\\ ~keep /\\ wpc' = [wpc EXCEPT ![{i}] = "exited"] /\\ UNCHANGED wake
        /\\ mpc' = IF mpc = "joining" /\\ (\\A j \\in W \\ {{{i}}} : wpc[j] = "exited") /\\ rpc \\in {{"none", "exited"}} THEN "main_done" ELSE mpc
  /\\ UNCHANGED <<nsp, rpc, rwake, keep, sig>>
"""
WSTEPS = "".join(wstep(i) for i in W)
WNEXT = " \\/ ".join(f"W{i}Step" for i in W)
WFAIR = " /\\ ".join(f"WF_vars(W{i}Step)" for i in W)
spec = f"""---- MODULE Lifecycle ----
EXTENDS Naturals
VARIABLES mpc, nsp, wpc, wake, rpc, rwake, keep, sig
W == 0..{N-1}
Stats == {"TRUE" if stats else "FALSE"}
vars == <<mpc, nsp, wpc, wake, rpc, rwake, keep, sig>>

Init == /\\ mpc = "spawn" /\\ nsp = 0
        /\\ wpc = [i \\in W |-> "none"] /\\ wake = [i \\in W |-> FALSE]
        /\\ rpc = "none" /\\ rwake = FALSE /\\ keep = TRUE /\\ sig = FALSE

AllGone == (\\A j \\in W : wpc[j] = "exited") /\\ rpc \\in {{"none", "exited"}}

Main ==
  \\/ /\\ mpc = "spawn" /\\ wpc' = [wpc EXCEPT ![nsp] = "worker_start"] /\\ nsp' = nsp + 1
     /\\ mpc' = IF nsp + 1 = {N} THEN "cfg_read" ELSE "spawn"
     /\\ UNCHANGED <<wake, rpc, rwake, keep, sig>>
  \\/ /\\ mpc = "cfg_read" /\\ mpc' = "join_all"
     /\\ IF Stats THEN (IF keep THEN rpc' = "reporter_iter" /\\ rwake' = TRUE ELSE rpc' = "exited" /\\ rwake' = rwake)
                 ELSE UNCHANGED <<rpc, rwake>>
     /\\ UNCHANGED <<nsp, wpc, wake, keep, sig>>
  \\/ /\\ mpc = "join_all" /\\ mpc' = (IF AllGone THEN "main_done" ELSE "joining")
     /\\ UNCHANGED <<nsp, wpc, wake, rpc, rwake, keep, sig>>
  \\/ /\\ mpc = "main_done" /\\ mpc' = "exited"
     /\\ UNCHANGED <<nsp, wpc, wake, rpc, rwake, keep, sig>>

{WSTEPS}
Reporter ==
  /\\ mpc # "exited" /\\ rpc = "reporter_iter" /\\ rwake
  /\\ rwake' = FALSE
  /\\ rpc' = IF keep THEN "reporter_iter" ELSE "exited"
  /\\ mpc' = IF ~keep /\\ mpc = "joining" /\\ (\\A j \\in W : wpc[j] = "exited") THEN "main_done" ELSE mpc
  /\\ UNCHANGED <<nsp, wpc, wake, keep, sig>>

Serving == \\A j \\in W : wpc[j] \\notin {{"none", "worker_start"}}

Env ==
  /\\ mpc # "exited" /\\ ~sig /\\ Serving
  /\\ sig' = TRUE /\\ keep' = FALSE
  /\\ wake' = [i \\in W |-> TRUE] /\\ rwake' = TRUE
  /\\ UNCHANGED <<mpc, nsp, wpc, rpc>>

Terminated == mpc = "exited" /\\ UNCHANGED vars

Next == Main \\/ {WNEXT} \\/ Reporter \\/ Env \\/ Terminated

Spec == Init /\\ [][Next]_vars /\\ WF_vars(Main) /\\ {WFAIR} /\\ WF_vars(Reporter) /\\ WF_vars(Env)

TypeOK == /\\ mpc \\in {{"spawn", "cfg_read", "join_all", "joining", "main_done", "exited"}}
          /\\ nsp \\in 0..{N}
          /\\ \\A i \\in W : wpc[i] \\in {{"none", "worker_start", "worker_ready", "loop_top", "polled", "flag_check", "exited"}}
          /\\ rpc \\in {{"none", "reporter_iter", "exited"}}

\\* C15: start-up never leaves the process running with a worker gone while no signal was sent
NoWorkerLostBeforeSignal == ~sig => \\A i \\in W : wpc[i] # "exited"
\\* C19: main reaches its exit only after every thread has gone
CleanJoin == mpc \\in {{"main_done", "exited"}} => AllGone
\\* C19 (liveness, under weak fairness of every actor and of the signal): the process exits
Termination == <>(mpc = "exited")
====
"""
os.makedirs(out, exist_ok=True)
open(os.path.join(out, "Lifecycle.tla"), "w").write(spec)
open(os.path.join(out, "Lifecycle.cfg"), "w").write("SPECIFICATION Spec\nINVARIANT TypeOK\nINVARIANT NoWorkerLostBeforeSignal\nINVARIANT CleanJoin\nPROPERTY Termination\n")
